//! Concrete replays: allocations driven by fields of the input instead of by the input length (C08).
mod common;
use common::*;
use mp4::*;
use std::alloc::{GlobalAlloc, Layout, System};
use std::sync::atomic::{AtomicUsize, Ordering};

struct Counting;
static MAX_REQ: AtomicUsize = AtomicUsize::new(0);
unsafe impl GlobalAlloc for Counting {
    unsafe fn alloc(&self, l: Layout) -> *mut u8 { MAX_REQ.fetch_max(l.size(), Ordering::Relaxed); System.alloc(l) }
    unsafe fn alloc_zeroed(&self, l: Layout) -> *mut u8 { MAX_REQ.fetch_max(l.size(), Ordering::Relaxed); System.alloc_zeroed(l) }
    unsafe fn dealloc(&self, p: *mut u8, l: Layout) { System.dealloc(p, l) }
    unsafe fn realloc(&self, p: *mut u8, l: Layout, n: usize) -> *mut u8 { MAX_REQ.fetch_max(n, Ordering::Relaxed); System.realloc(p, l, n) }
}
#[global_allocator]
static A: Counting = Counting;

/// D-26 (KNOWN FINDING, not repaired): read_sample allocates the sample size declared in stsz before reading:
/// a file of a few hundred bytes makes it request 256 MiB (any u32 value works)
#[test]
fn d26_read_sample_allocates_declared_size() {
    let moov = moov_with_stbl(|t| {
        let stbl = &mut t.mdia.minf.stbl;
        push_stts(&mut stbl.stts, 1, 10);
        push_stsc(&mut stbl.stsc, 1, 1);
        stbl.stsz.sample_size = 0x1000_0000;
        stbl.stsz.sample_count = 1;
        stbl.stco = Some(StcoBox { version: 0, flags: 0, entries: vec![40] });
    });
    let f = file_of(&moov, &[0u8; 16]);
    let n = f.len();
    let mut r = open(f).unwrap();
    MAX_REQ.store(0, Ordering::Relaxed);
    let _ = r.read_sample(1, 1);
    let max = MAX_REQ.load(Ordering::Relaxed);
    assert!(max <= 16 * n + 4096, "single allocation request of {} bytes while reading from a {} byte file", max, n);
}
