//! Concrete replays: muxer defects of the pinned tree (tests assert the CORRECT behaviour: mux, then demux and compare).
mod common;
use mp4::*;
use std::io::Cursor;

fn cfg() -> Mp4Config {
    Mp4Config { major_brand: str::parse("isom").unwrap(), minor_version: 512, compatible_brands: vec![str::parse("isom").unwrap()], timescale: 1000 }
}

fn ttxt_track(timescale: u32) -> TrackConfig {
    TrackConfig { track_type: TrackType::Subtitle, timescale, language: "und".into(), media_conf: MediaConfig::TtxtConfig(TtxtConfig {}) }
}

fn sample(bytes: &[u8], duration: u32, is_sync: bool) -> Mp4Sample {
    Mp4Sample { start_time: 0, duration, rendering_offset: 0, is_sync, bytes: Bytes::copy_from_slice(bytes) }
}

fn mux(track: TrackConfig, samples: &[Mp4Sample]) -> Vec<u8> {
    let mut w = Mp4Writer::write_start(Cursor::new(Vec::new()), &cfg()).unwrap();
    w.add_track(&track).unwrap();
    for s in samples {
        w.write_sample(1, s).unwrap();
    }
    w.write_end().unwrap();
    w.into_writer().into_inner()
}

fn demux(bytes: Vec<u8>) -> Mp4Reader<Cursor<Vec<u8>>> {
    let n = bytes.len() as u64;
    Mp4Reader::read_header(Cursor::new(bytes), n).unwrap()
}

/// D-01: a track without any sync sample reads back as all-sync (no stss is written, and absent stss means "all sync")
#[test]
fn d01_no_sync_sample() {
    let f = mux(ttxt_track(1000), &[sample(b"ab", 10, false), sample(b"cd", 10, false)]);
    let mut r = demux(f);
    assert_eq!(r.read_sample(1, 1).unwrap().unwrap().is_sync, false);
    assert_eq!(r.read_sample(1, 2).unwrap().unwrap().is_sync, false);
}

/// D-41: trailing zero-length samples are never put into a chunk: they cannot be read back
#[test]
fn d41_trailing_empty_samples() {
    let f = mux(ttxt_track(1000), &[sample(b"ab", 10, true), sample(b"", 10, true), sample(b"", 10, true)]);
    let mut r = demux(f);
    assert_eq!(r.sample_count(1).unwrap(), 3);
    for k in 1..=3 {
        let s = r.read_sample(1, k);
        assert!(matches!(s, Ok(Some(_))), "sample {} of 3 written samples does not read back: {:?}", k, s.map(|o| o.map(|x| x.bytes.len())));
    }
    // a track consisting only of empty samples
    let f = mux(ttxt_track(1000), &[sample(b"", 10, true), sample(b"", 10, true)]);
    let mut r = demux(f);
    assert!(matches!(r.read_sample(1, 2), Ok(Some(_))));
}

/// D-06: track header duration accumulates per-sample floors: 30 samples of 3000 ticks @90 kHz are 1000 movie ticks, not 990
#[test]
fn d06_tkhd_duration_drift() {
    let samples: Vec<Mp4Sample> = (0..30).map(|_| sample(b"x", 3000, true)).collect();
    let f = mux(ttxt_track(90000), &samples);
    let r = demux(f);
    let t = r.tracks().get(&1).unwrap();
    assert_eq!(t.trak.mdia.mdhd.duration, 90000);
    let d = t.trak.tkhd.duration as i64;
    assert!((d - 1000).abs() <= 1, "tkhd duration {} but the summed durations are 1000 movie ticks", d);
    assert!((r.moov.mvhd.duration as i64 - 1000).abs() <= 1, "mvhd duration {}", r.moov.mvhd.duration);
}

/// D-35: track timescale 0 is accepted by add_track and then divides by zero in write_sample
#[test]
fn d35_track_timescale_zero() {
    let res = std::panic::catch_unwind(|| {
        let mut w = Mp4Writer::write_start(Cursor::new(Vec::new()), &cfg()).unwrap();
        if w.add_track(&ttxt_track(0)).is_err() { return; }
        let _ = w.write_sample(1, &sample(b"ab", 10, true));
        let _ = w.write_end();
    });
    assert!(res.is_ok(), "muxer panicked on track timescale 0");
}

/// D-36: chunk_duration (u32) += sample.duration overflows before the chunk-full test
#[test]
fn d36_chunk_duration_overflow() {
    let res = std::panic::catch_unwind(|| {
        let mut w = Mp4Writer::write_start(Cursor::new(Vec::new()), &cfg()).unwrap();
        w.add_track(&ttxt_track(u32::MAX)).unwrap();
        let _ = w.write_sample(1, &sample(b"ab", 0x8000_0000, true));
        let _ = w.write_sample(1, &sample(b"cd", 0x8000_0000, true));
        let _ = w.write_end();
    });
    assert!(res.is_ok(), "muxer panicked: chunk_duration overflow");
}

/// D-37: an AVC sequence parameter set shorter than 4 bytes panics in add_track (sps[1..4] indexed unchecked)
#[test]
fn d37_short_sps() {
    let res = std::panic::catch_unwind(|| {
        let mut w = Mp4Writer::write_start(Cursor::new(Vec::new()), &cfg()).unwrap();
        let t = TrackConfig { track_type: TrackType::Video, timescale: 1000, language: "und".into(),
                              media_conf: MediaConfig::AvcConfig(AvcConfig { width: 16, height: 16, seq_param_set: vec![0x67, 0x42], pic_param_set: vec![0x68] }) };
        let _ = w.add_track(&t);
    });
    assert!(res.is_ok(), "add_track panicked on a 2-byte SPS");
}

/// D-38: an AAC sample of 16 MiB or more makes write_end panic: buffer_size_db (24-bit field) is set to the largest sample size
#[test]
fn d38_buffer_size_db_24_bits() {
    let res = std::panic::catch_unwind(|| {
        let mut w = Mp4Writer::write_start(Cursor::new(Vec::new()), &cfg()).unwrap();
        let t = TrackConfig { track_type: TrackType::Audio, timescale: 48000, language: "und".into(),
                              media_conf: MediaConfig::AacConfig(AacConfig::default()) };
        w.add_track(&t).unwrap();
        let big = vec![0u8; 0x100_0000];
        w.write_sample(1, &sample(&big, 1024, true)).unwrap();
        let _ = w.write_end();
    });
    assert!(res.is_ok(), "write_end panicked: buffer_size_db does not fit 24 bits");
}

/// D-32: AAC object types >= 32 do not fit the 5-bit field the muxer writes: MpegLayer3 (34) read back as AacLowComplexity
#[test]
fn d32_extended_object_type_not_encodable() {
    let track = TrackConfig { track_type: TrackType::Audio, timescale: 48000, language: "und".into(),
        media_conf: MediaConfig::AacConfig(AacConfig { bitrate: 0, profile: AudioObjectType::MpegLayer3, freq_index: SampleFreqIndex::Freq48000, chan_conf: ChannelConfig::Stereo }) };
    let mut w = Mp4Writer::write_start(Cursor::new(Vec::new()), &cfg()).unwrap();
    if w.add_track(&track).is_err() { return; } // rejecting is correct
    w.write_sample(1, &sample(b"abcd", 1024, true)).unwrap();
    w.write_end().unwrap();
    let r = demux(w.into_writer().into_inner());
    assert_eq!(r.tracks()[&1].audio_profile().unwrap(), AudioObjectType::MpegLayer3);
}

/// D-39: an SPS / PPS of 64 KiB or more was written with its length truncated to 16 bits
#[test]
fn d39_parameter_set_64k() {
    let mut sps = vec![0x67u8, 66, 0, 30]; sps.resize(0x10004, 0xAA);
    let track = TrackConfig { track_type: TrackType::Video, timescale: 90000, language: "und".into(),
        media_conf: MediaConfig::AvcConfig(AvcConfig { width: 16, height: 16, seq_param_set: sps.clone(), pic_param_set: vec![0x68, 1, 2, 3] }) };
    let mut w = Mp4Writer::write_start(Cursor::new(Vec::new()), &cfg()).unwrap();
    if w.add_track(&track).is_err() { return; } // rejecting is correct
    w.write_sample(1, &sample(b"abcd", 3000, true)).unwrap();
    w.write_end().unwrap();
    let bytes = w.into_writer().into_inner();
    let size = bytes.len() as u64;
    let r = Mp4Reader::read_header(Cursor::new(bytes), size).expect("the muxer's own output must parse");
    assert_eq!(r.tracks()[&1].sequence_parameter_set().unwrap(), &sps[..]);
}
