//! Concrete replays: inputs on which the pinned tree never terminates / does work unrelated to the input length.
mod common;
use common::*;
use mp4::*;
use std::io::{Cursor, Read, Seek, SeekFrom};

/// Read+Seek wrapper that fails every call after a budget of stream operations (so a hang becomes an error)
struct Budget<R> { inner: R, ops: u64, limit: u64 }
impl<R: Read> Read for Budget<R> {
    fn read(&mut self, buf: &mut [u8]) -> std::io::Result<usize> {
        self.ops += 1;
        if self.ops > self.limit { return Err(std::io::Error::new(std::io::ErrorKind::Other, "op budget exhausted")); }
        self.inner.read(buf)
    }
}
impl<R: Seek> Seek for Budget<R> {
    fn seek(&mut self, p: SeekFrom) -> std::io::Result<u64> {
        self.ops += 1;
        if self.ops > self.limit { return Err(std::io::Error::new(std::io::ErrorKind::Other, "op budget exhausted")); }
        self.inner.seek(p)
    }
}

fn open_budget(bytes: Vec<u8>, limit: u64) -> (mp4::Result<Mp4Reader<Budget<Cursor<Vec<u8>>>>>, u64) {
    let n = bytes.len() as u64;
    let b = Budget { inner: Cursor::new(bytes), ops: 0, limit };
    let r = Mp4Reader::read_header(b, n);
    let exhausted = matches!(&r, Err(Error::IoError(e)) if e.to_string().contains("budget"));
    (r, if exhausted { limit + 1 } else { 0 })
}

/// D-22: a child box with size 0 inside a container: skip_box/read_box seek back to the child's header, the loop never advances
#[test]
fn d22_zero_size_child_in_moov() {
    let mut v = ftyp_bytes();
    let mut payload = Vec::new();
    payload.extend_from_slice(&[0, 0, 0, 0]); // size 0
    payload.extend_from_slice(b"free");
    v.extend_from_slice(&boxed(b"moov", &payload));
    let n = v.len() as u64;
    let (_r, over) = open_budget(v, 100 * n + 100);
    assert_eq!(over, 0, "read_header did not finish within 100*n+100 stream operations on a {} byte file", n);
}

/// D-22 (nested): same inside trak / mdia / minf / stbl / udta
#[test]
fn d22_zero_size_child_nested() {
    for path in [&b"trak"[..], &b"trakmdia"[..], &b"trakmdiaminf"[..], &b"trakmdiaminfstbl"[..], &b"udta"[..], &b"mvex"[..], &b"trakedts"[..]] {
        let mut inner = vec![0u8, 0, 0, 0];
        inner.extend_from_slice(b"free");
        let mut cur = inner;
        for name in path.chunks(4).rev() {
            let mut fourcc = [0u8; 4];
            fourcc.copy_from_slice(name);
            cur = boxed(&fourcc, &cur);
        }
        let mut v = ftyp_bytes();
        v.extend_from_slice(&boxed(b"moov", &cur));
        let n = v.len() as u64;
        let (_r, over) = open_budget(v, 100 * n + 100);
        assert_eq!(over, 0, "read_header hangs on a zero-size child inside moov/{}", String::from_utf8_lossy(path));
    }
}

fn hdlr_bytes(handler: &[u8; 4]) -> Vec<u8> {
    let mut p = vec![0u8; 4 + 4];
    p.extend_from_slice(handler);
    p.extend_from_slice(&[0u8; 12]);
    p.push(0);
    boxed(b"hdlr", &p)
}

fn moov_with_udta_meta(meta_payload: &[u8]) -> Vec<u8> {
    let mut v = ftyp_bytes();
    let mut m = vec![0u8; 4];
    m.extend_from_slice(meta_payload);
    let udta = boxed(b"udta", &boxed(b"meta", &m));
    let mut moov = Vec::new();
    MvhdBox::default().write_box(&mut moov).unwrap();
    moov.extend_from_slice(&udta);
    v.extend_from_slice(&boxed(b"moov", &moov));
    v
}

/// D-27a: zero-size child inside meta: same hang as D-22 (meta has no child-size checks at all)
#[test]
fn d27_meta_zero_size_child() {
    let mut p = hdlr_bytes(b"mdir");
    p.extend_from_slice(&[0, 0, 0, 0]);
    p.extend_from_slice(b"free");
    let v = moov_with_udta_meta(&p);
    let n = v.len() as u64;
    let (_r, over) = open_budget(v, 100 * n + 100);
    assert_eq!(over, 0, "read_header hangs on a zero-size child inside meta");
}

/// D-27b: non-mdir meta with a child whose size field is < 8: `s - HEADER_SIZE` underflows
#[test]
fn d27_meta_small_child_underflow() {
    let mut p = hdlr_bytes(b"abcd");
    // child A: size 4, whose "type" bytes double as the size field (12) of an overlapping child B at +4
    p.extend_from_slice(&[0, 0, 0, 4, 0, 0, 0, 12]);
    p.extend_from_slice(b"abcd");
    p.extend_from_slice(&[1, 2, 3, 4]);
    let v = moov_with_udta_meta(&p);
    let res = std::panic::catch_unwind(|| open(v).map(|_| ()));
    assert!(res.is_ok(), "read_header panicked on a meta child with size 4");
}

/// D-27c: non-mdir meta with a child declaring ~4 GiB in a 150 byte file: vec![0; s - 8] allocates it
#[test]
fn d27_meta_child_size_unchecked() {
    let mut p = hdlr_bytes(b"abcd");
    p.extend_from_slice(&[0xf0, 0, 0, 0]);
    p.extend_from_slice(b"xyzw");
    let v = moov_with_udta_meta(&p);
    let r = open(v);
    assert!(matches!(r, Err(Error::InvalidData(_))), "a child larger than its parent must be rejected before allocating");
}
