//! Concrete replays: fragmented-track defects of the pinned tree (tests assert the CORRECT behaviour).
mod common;
use common::*;
use mp4::*;

struct Run { durations: Option<Vec<u32>>, sizes: Vec<u32>, default_dur: Option<u32>, base_time: u64 }

/// ftyp + moov(1 track, optional trex default) + for each run: moof{traf{tfhd,tfdt,trun}} + mdat(payload)
fn frag_file(runs: &[Run], trex_default: Option<u32>) -> (Vec<u8>, Vec<u64>) {
    let mut moov = moov_with_stbl(|_| {});
    if let Some(d) = trex_default {
        let mut mvex = MvexBox::default();
        mvex.trex.track_id = 1;
        mvex.trex.default_sample_duration = d;
        moov.mvex = Some(mvex);
    }
    let mut v = ftyp_bytes();
    moov.write_box(&mut v).unwrap();
    let mut moof_offsets = vec![];
    for r in runs {
        let mut traf = TrafBox::default();
        traf.tfhd.track_id = 1;
        if let Some(d) = r.default_dur {
            traf.tfhd.flags |= TfhdBox::FLAG_DEFAULT_SAMPLE_DURATION;
            traf.tfhd.default_sample_duration = Some(d);
        }
        traf.tfdt = Some(TfdtBox { version: 1, flags: 0, base_media_decode_time: r.base_time });
        let mut trun = TrunBox::default();
        trun.sample_count = r.sizes.len() as u32;
        trun.flags = TrunBox::FLAG_SAMPLE_SIZE | TrunBox::FLAG_DATA_OFFSET;
        trun.sample_sizes = r.sizes.clone();
        if let Some(d) = &r.durations {
            trun.flags |= TrunBox::FLAG_SAMPLE_DURATION;
            trun.sample_durations = d.clone();
        }
        traf.trun = Some(trun);
        let mut moof = MoofBox::default();
        moof.trafs.push(traf);
        let moof_size = moof.box_size();
        moof.trafs[0].trun.as_mut().unwrap().data_offset = Some(moof_size as i32 + 8);
        moof_offsets.push(v.len() as u64);
        moof.write_box(&mut v).unwrap();
        let total: u32 = r.sizes.iter().sum();
        let payload: Vec<u8> = (0..total).map(|i| (i % 251) as u8).collect();
        v.extend_from_slice(&boxed(b"mdat", &payload));
    }
    (v, moof_offsets)
}

/// D-16: read_sample(track, 0) on a fragmented track: `sample_id - 1` underflows in find_traf_idx_and_sample_idx
#[test]
fn d16_sample_id_zero() {
    let (f, _) = frag_file(&[Run { durations: Some(vec![5, 5]), sizes: vec![3, 4], default_dur: None, base_time: 0 }], None);
    let mut r = open(f).unwrap();
    let res = std::panic::catch_unwind(std::panic::AssertUnwindSafe(|| r.read_sample(1, 0)));
    assert!(res.is_ok(), "read_sample(_, 0) panicked on a fragmented track");
    assert!(!matches!(res.unwrap(), Ok(Some(_))));
}

/// D-17: three fragments holding two samples in total: `sample_id % (sample_count / trafs.len())` divides by zero
#[test]
fn d17_sync_heuristic_div_zero() {
    let (f, _) = frag_file(&[
        Run { durations: Some(vec![5, 5]), sizes: vec![3, 3], default_dur: None, base_time: 0 },
        Run { durations: Some(vec![]), sizes: vec![], default_dur: None, base_time: 10 },
        Run { durations: Some(vec![]), sizes: vec![], default_dur: None, base_time: 10 },
    ], None);
    let mut r = open(f).unwrap();
    let res = std::panic::catch_unwind(std::panic::AssertUnwindSafe(|| r.read_sample(1, 2)));
    assert!(res.is_ok(), "read_sample panicked (is_sync_sample: % 0)");
}

/// D-28: default sample duration: the start time must be base decode time + (index IN THE RUN) * default
#[test]
fn d28_default_duration_start_time() {
    let (f, _) = frag_file(&[
        Run { durations: None, sizes: vec![1, 1, 1], default_dur: Some(10), base_time: 1000 },
        Run { durations: None, sizes: vec![1, 1], default_dur: Some(10), base_time: 1030 },
    ], None);
    let mut r = open(f).unwrap();
    let s4 = r.read_sample(1, 4).unwrap().unwrap();
    assert_eq!(s4.start_time, 1030, "first sample of the 2nd run starts at that run's base decode time");
    let s5 = r.read_sample(1, 5).unwrap().unwrap();
    assert_eq!(s5.start_time, 1040);
    assert_eq!(s5.duration, 10);
}

/// D-19: base decode time near u64::MAX: `base_start_time + start_offset` overflows
#[test]
fn d19_decode_time_overflow() {
    let (f, _) = frag_file(&[Run { durations: Some(vec![5, 5]), sizes: vec![3, 4], default_dur: None, base_time: u64::MAX - 2 }], None);
    let mut r = open(f).unwrap();
    let res = std::panic::catch_unwind(std::panic::AssertUnwindSafe(|| r.read_sample(1, 2)));
    assert!(res.is_ok(), "read_sample panicked (base decode time + offset overflows)");
}

/// D-11: run counts summing past u32::MAX: `expect` in sample_count / find_traf_idx_and_sample_idx
#[test]
fn d11_sample_count_overflow() {
    // trun without per-sample fields may declare any sample_count in 16 bytes
    let mut moov = moov_with_stbl(|_| {});
    moov.mvhd.timescale = 1000;
    let mut v = ftyp_bytes();
    moov.write_box(&mut v).unwrap();
    for _ in 0..2 {
        let mut traf = TrafBox::default();
        traf.tfhd.track_id = 1;
        let mut trun = TrunBox::default();
        trun.sample_count = 0x8000_0000;
        traf.trun = Some(trun);
        // TrunBox::write_box insists on sample_sizes.len() == sample_count: emit the 20 bytes by hand
        let trun_bytes = boxed(b"trun", &[0, 0, 0, 0, 0x80, 0, 0, 0]);
        let mut tfhd = Vec::new();
        traf.tfhd.write_box(&mut tfhd).unwrap();
        let mut traf_payload = tfhd.clone();
        traf_payload.extend_from_slice(&trun_bytes);
        let mut mfhd = Vec::new();
        MfhdBox::default().write_box(&mut mfhd).unwrap();
        let mut moof_payload = mfhd;
        moof_payload.extend_from_slice(&boxed(b"traf", &traf_payload));
        v.extend_from_slice(&boxed(b"moof", &moof_payload));
    }
    let r = open(v).unwrap();
    let res = std::panic::catch_unwind(std::panic::AssertUnwindSafe(|| r.sample_count(1)));
    assert!(res.is_ok(), "sample_count panicked (sum of trun sample counts overflows u32)");
}

/// D-29: a moof box with a 64-bit header: its recorded offset (base of the default data offsets) was taken as
/// `position after the header - 8`, i.e. 8 bytes into the box
#[test]
fn d29_moof_with_64bit_header() {
    let (f, offs) = frag_file(&[Run { durations: Some(vec![5, 5]), sizes: vec![3, 4], default_dur: None, base_time: 0 }], None);
    let m = offs[0] as usize;
    let old_size = u32::from_be_bytes([f[m], f[m + 1], f[m + 2], f[m + 3]]) as usize;
    // rewrite the moof header in its 64-bit form: size field 1, type, largesize = old size + 8
    let mut g = f[..m].to_vec();
    g.extend_from_slice(&1u32.to_be_bytes());
    g.extend_from_slice(b"moof");
    g.extend_from_slice(&((old_size + 8) as u64).to_be_bytes());
    let mut body = f[m + 8..m + old_size].to_vec();
    // the trun data offset is relative to the first byte of the moof box, which is now 8 bytes longer
    let want_off = (old_size as i32) + 8;
    let needle = want_off.to_be_bytes();
    let at = body.windows(4).position(|w| w == needle).expect("data_offset field");
    body[at..at + 4].copy_from_slice(&(want_off + 8).to_be_bytes());
    g.extend_from_slice(&body);
    g.extend_from_slice(&f[m + old_size..]);
    let payload_start = (m + old_size + 8 + 8) as u64;
    let mut r = open(g).unwrap();
    assert_eq!(r.sample_offset(1, 1).unwrap(), payload_start);
    let s = r.read_sample(1, 2).unwrap().unwrap();
    assert_eq!(&s.bytes[..], &[3u8, 4, 5, 6][..]);
}
