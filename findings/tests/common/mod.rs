#![allow(dead_code)]
//! Helpers to build small MP4 files out of the crate's own box values.
use mp4::*;
use std::io::Cursor;

pub fn ftyp_bytes() -> Vec<u8> {
    let ftyp = FtypBox { major_brand: str::parse("isom").unwrap(), minor_version: 0, compatible_brands: vec![] };
    let mut v = Vec::new();
    ftyp.write_box(&mut v).unwrap();
    v
}

/// a moov with one video track whose sample tables are given
pub fn moov_with_stbl(f: impl FnOnce(&mut TrakBox)) -> MoovBox {
    let mut moov = MoovBox::default();
    moov.mvhd.timescale = 1000;
    let mut trak = TrakBox::default();
    trak.tkhd.track_id = 1;
    trak.mdia.mdhd.timescale = 1000;
    trak.mdia.minf.vmhd = Some(VmhdBox::default());
    trak.mdia.minf.stbl.stsd.avc1 = Some(Avc1Box::default());
    trak.mdia.minf.stbl.stco = Some(StcoBox::default());
    f(&mut trak);
    moov.traks.push(trak);
    moov
}

pub fn file_of(moov: &MoovBox, mdat_payload: &[u8]) -> Vec<u8> {
    let mut v = ftyp_bytes();
    moov.write_box(&mut v).unwrap();
    let size = (8 + mdat_payload.len()) as u32;
    v.extend_from_slice(&size.to_be_bytes());
    v.extend_from_slice(b"mdat");
    v.extend_from_slice(mdat_payload);
    v
}

pub fn open(bytes: Vec<u8>) -> mp4::Result<Mp4Reader<Cursor<Vec<u8>>>> {
    let n = bytes.len() as u64;
    Mp4Reader::read_header(Cursor::new(bytes), n)
}

pub fn boxed(fourcc: &[u8; 4], payload: &[u8]) -> Vec<u8> {
    let mut v = ((8 + payload.len()) as u32).to_be_bytes().to_vec();
    v.extend_from_slice(fourcc);
    v.extend_from_slice(payload);
    v
}

// entry types are not exported by the crate: build them through Default + field assignment
pub fn push_stts(b: &mut SttsBox, count: u32, delta: u32) {
    b.entries.push(Default::default());
    let e = b.entries.last_mut().unwrap();
    e.sample_count = count;
    e.sample_delta = delta;
}

pub fn push_stsc(b: &mut StscBox, first_chunk: u32, spc: u32) {
    b.entries.push(Default::default());
    let e = b.entries.last_mut().unwrap();
    e.first_chunk = first_chunk;
    e.samples_per_chunk = spc;
    e.sample_description_index = 1;
    e.first_sample = 1;
}
