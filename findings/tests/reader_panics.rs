//! Concrete replays: reader-side defects of the pinned tree (each test asserts the CORRECT behaviour, so it fails
//! -- by panic -- on a tree that has the defect and passes on a repaired tree).
mod common;
use common::*;
use mp4::*;

fn stbl_basic(trak: &mut TrakBox, spc: u32, first_chunk: u32) {
    let stbl = &mut trak.mdia.minf.stbl;
    push_stts(&mut stbl.stts, 2, 10);
    push_stsc(&mut stbl.stsc, first_chunk, spc);
    stbl.stsz.sample_size = 0;
    stbl.stsz.sample_count = 2;
    stbl.stsz.sample_sizes = vec![1, 1];
    stbl.stco = Some(StcoBox { version: 0, flags: 0, entries: vec![40] });
}

/// D-13: stsc entry with samples_per_chunk == 0  ->  division by zero in Mp4Track::sample_offset
#[test]
fn d13_samples_per_chunk_zero() {
    let moov = moov_with_stbl(|t| stbl_basic(t, 0, 1));
    let mut r = open(file_of(&moov, &[0u8; 64])).unwrap();
    let res = std::panic::catch_unwind(std::panic::AssertUnwindSafe(|| r.read_sample(1, 1)));
    assert!(res.is_ok(), "read_sample panicked (samples_per_chunk == 0)");
    assert!(res.unwrap().is_err());
}

/// D-12: stsc first_chunk == 0  ->  `chunk_id as usize - 1` underflows in Mp4Track::chunk_offset
#[test]
fn d12_first_chunk_zero() {
    let moov = moov_with_stbl(|t| stbl_basic(t, 1, 0));
    let mut r = open(file_of(&moov, &[0u8; 64])).unwrap();
    let res = std::panic::catch_unwind(std::panic::AssertUnwindSafe(|| r.read_sample(1, 1)));
    assert!(res.is_ok(), "read_sample panicked (first_chunk == 0)");
}

/// D-07: a chunk whose earlier samples sum to >= 2^32 bytes: the u32 accumulator overflows
#[test]
fn d07_chunk_of_4gib() {
    let moov = moov_with_stbl(|t| {
        let stbl = &mut t.mdia.minf.stbl;
        push_stts(&mut stbl.stts, 3, 10);
        push_stsc(&mut stbl.stsc, 1, 3);
        stbl.stsz.sample_size = 0;
        stbl.stsz.sample_count = 3;
        stbl.stsz.sample_sizes = vec![0x8000_0000, 0x8000_0000, 1];
        stbl.stco = Some(StcoBox { version: 0, flags: 0, entries: vec![100] });
    });
    let mut r = open(file_of(&moov, &[0u8; 8])).unwrap();
    let res = std::panic::catch_unwind(std::panic::AssertUnwindSafe(|| r.sample_offset(1, 3)));
    assert!(res.is_ok(), "sample_offset panicked on a chunk of 4 GiB");
    assert_eq!(res.unwrap().unwrap(), 100 + 0x1_0000_0000u64);
}

/// D-07b: chunk offset near u64::MAX (co64) + sample sizes overflows u64
#[test]
fn d07b_offset_overflows_u64() {
    let moov = moov_with_stbl(|t| {
        let stbl = &mut t.mdia.minf.stbl;
        push_stts(&mut stbl.stts, 2, 10);
        push_stsc(&mut stbl.stsc, 1, 2);
        stbl.stsz.sample_size = 0;
        stbl.stsz.sample_count = 2;
        stbl.stsz.sample_sizes = vec![16, 1];
        stbl.stco = None;
        stbl.co64 = Some(Co64Box { version: 0, flags: 0, entries: vec![u64::MAX - 3] });
    });
    let mut r = open(file_of(&moov, &[0u8; 8])).unwrap();
    let res = std::panic::catch_unwind(std::panic::AssertUnwindSafe(|| r.sample_offset(1, 2)));
    assert!(res.is_ok(), "sample_offset panicked on u64 overflow");
    assert!(res.unwrap().is_err());
}

/// D-18: the time-to-sample table does not cover the sample  ->  `sample_time(..).unwrap()` in read_sample
#[test]
fn d18_stts_short() {
    let moov = moov_with_stbl(|t| {
        stbl_basic(t, 2, 1);
        t.mdia.minf.stbl.stts.entries.clear();
    });
    let mut r = open(file_of(&moov, &[0u8; 64])).unwrap();
    let res = std::panic::catch_unwind(std::panic::AssertUnwindSafe(|| r.read_sample(1, 1)));
    assert!(res.is_ok(), "read_sample panicked (stts does not cover the sample)");
}

/// D-10: movie / media timescale 0  ->  division by zero in the duration accessors
#[test]
fn d10_timescale_zero() {
    let mut moov = moov_with_stbl(|t| { stbl_basic(t, 2, 1); t.mdia.mdhd.timescale = 0; t.mdia.mdhd.duration = 5; });
    moov.mvhd.timescale = 0;
    moov.mvhd.duration = 5;
    let r = open(file_of(&moov, &[0u8; 64])).unwrap();
    let a = std::panic::catch_unwind(std::panic::AssertUnwindSafe(|| r.duration()));
    assert!(a.is_ok(), "Mp4Reader::duration panicked (timescale 0)");
    let b = std::panic::catch_unwind(std::panic::AssertUnwindSafe(|| r.tracks().get(&1).unwrap().duration()));
    assert!(b.is_ok(), "Mp4Track::duration panicked (timescale 0)");
}

/// D-10b: duration * 1000 overflows u64
#[test]
fn d10b_duration_overflow() {
    let mut moov = moov_with_stbl(|t| { stbl_basic(t, 2, 1); t.mdia.mdhd.version = 1; t.mdia.mdhd.duration = u64::MAX / 2; });
    moov.mvhd.version = 1;
    moov.mvhd.duration = u64::MAX / 2;
    let r = open(file_of(&moov, &[0u8; 64])).unwrap();
    let a = std::panic::catch_unwind(std::panic::AssertUnwindSafe(|| r.duration()));
    assert!(a.is_ok(), "Mp4Reader::duration panicked (duration * 1000 overflow)");
    let b = std::panic::catch_unwind(std::panic::AssertUnwindSafe(|| r.tracks().get(&1).unwrap().duration()));
    assert!(b.is_ok(), "Mp4Track::duration panicked (duration * 1_000_000 overflow)");
}

/// D-15: iTunes `data` box declaring fewer than 16 bytes: `start + size - current` underflows in DataBox::read_box
#[test]
fn d15_data_box_too_small() {
    // moov/udta/meta(mdir)/ilst/©nam/data(size 12)
    let data = {
        let mut v = vec![0u8, 0, 0, 12];
        v.extend_from_slice(b"data");
        v.extend_from_slice(&[0, 0, 0, 1]);
        v.extend_from_slice(&[0, 0, 0, 0]); // (the reader consumes 8 payload bytes whatever the size says)
        v
    };
    let item = boxed(&[0xa9, b'n', b'a', b'm'], &data);
    let ilst = boxed(b"ilst", &item);
    let mut hdlr_p = vec![0u8; 8];
    hdlr_p.extend_from_slice(b"mdir");
    hdlr_p.extend_from_slice(&[0u8; 13]);
    let mut meta_p = vec![0u8; 4];
    meta_p.extend_from_slice(&boxed(b"hdlr", &hdlr_p));
    meta_p.extend_from_slice(&ilst);
    let udta = boxed(b"udta", &boxed(b"meta", &meta_p));
    let mut moov = Vec::new();
    MvhdBox::default().write_box(&mut moov).unwrap();
    moov.extend_from_slice(&udta);
    let mut v = ftyp_bytes();
    v.extend_from_slice(&boxed(b"moov", &moov));
    let res = std::panic::catch_unwind(|| open(v).map(|_| ()));
    assert!(res.is_ok(), "read_header panicked on a 12-byte data box");
}

/// D-14: emsg box whose declared size is smaller than its fixed fields: `size - size_without_message` underflows
#[test]
fn d14_emsg_too_small() {
    let mut p = vec![0u8; 4]; // version 0, flags 0
    p.extend_from_slice(b"urn:x\0");
    p.extend_from_slice(b"v\0");
    p.extend_from_slice(&[0u8; 16]); // timescale, delta, duration, id
    let mut emsg = vec![0u8, 0, 0, 16]; // declared size 16 < real 36
    emsg.extend_from_slice(b"emsg");
    emsg.extend_from_slice(&p);
    let moov = moov_with_stbl(|_| {});
    let mut v = ftyp_bytes();
    moov.write_box(&mut v).unwrap();
    v.extend_from_slice(&emsg);
    let res = std::panic::catch_unwind(|| open(v).map(|_| ()));
    assert!(res.is_ok(), "read_header panicked on an emsg box smaller than its fields");
}
