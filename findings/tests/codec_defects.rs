//! Concrete replays: box codec defects of the pinned tree (tests assert the CORRECT behaviour).
mod common;
use mp4::*;
use std::io::Cursor;

fn read_back_hev1(b: &Hev1Box) -> (Hev1Box, u64) {
    let mut v = Vec::new();
    b.write_box(&mut v).unwrap();
    v.extend_from_slice(&[0, 0, 0, 8, b'f', b'r', b'e', b'e']); // a sibling follows
    let mut c = Cursor::new(v);
    let h = BoxHeader::read(&mut c).unwrap();
    let out = Hev1Box::read_box(&mut c, h.size).unwrap();
    (out, c.position())
}

/// D-02: hvcC reader: `params & 0b11000000 >> 6` parses as `params & (0b11000000 >> 6)`
#[test]
fn d02_hvcc_bit_fields() {
    let mut b = Hev1Box::default();
    b.hvcc.configuration_version = 1;
    b.hvcc.general_profile_space = 2;
    b.hvcc.general_tier_flag = true;
    b.hvcc.general_profile_idc = 1;
    b.hvcc.constant_frame_rate = 1;
    b.hvcc.num_temporal_layers = 5;
    b.hvcc.temporal_id_nested = true;
    b.hvcc.length_size_minus_one = 3;
    let (out, _) = read_back_hev1(&b);
    assert_eq!(out.hvcc.general_profile_space, 2);
    assert_eq!(out.hvcc.general_tier_flag, true);
    assert_eq!(out.hvcc.constant_frame_rate, 1);
    assert_eq!(out.hvcc.num_temporal_layers, 5);
    assert_eq!(out.hvcc.temporal_id_nested, true);
    assert_eq!(out, b);
}

/// D-03: vpcC reader never reads colour_primaries: the three fields after it are shifted
#[test]
fn d03_vpcc_colour_primaries() {
    let b = VpccBox { version: 1, flags: 0, profile: 2, level: 31, bit_depth: 10, chroma_subsampling: 1, video_full_range_flag: true,
                      color_primaries: 9, transfer_characteristics: 16, matrix_coefficients: 6, codec_initialization_data_size: 0 };
    let mut v = Vec::new();
    b.write_box(&mut v).unwrap();
    let mut c = Cursor::new(v);
    let h = BoxHeader::read(&mut c).unwrap();
    let out = VpccBox::read_box(&mut c, h.size).unwrap();
    assert_eq!(out.color_primaries, 9);
    assert_eq!(out.transfer_characteristics, 16);
    assert_eq!(out.matrix_coefficients, 6);
}

/// D-04: mvex writes the four-cc of mdia
#[test]
fn d04_mvex_type() {
    let b = MvexBox::default();
    assert!(b.box_type() == BoxType::MvexBox);
    let mut v = Vec::new();
    b.write_box(&mut v).unwrap();
    assert_eq!(&v[4..8], b"mvex");
}

/// D-05: moov / moof encoders return 0 instead of the number of bytes written
#[test]
fn d05_container_write_returns_size() {
    let moov = MoovBox::default();
    let mut v = Vec::new();
    let n = moov.write_box(&mut v).unwrap();
    assert_eq!(n, v.len() as u64);
    assert_eq!(n, moov.box_size());
    let moof = MoofBox::default();
    let mut v = Vec::new();
    let n = moof.write_box(&mut v).unwrap();
    assert_eq!(n, v.len() as u64);
}

/// D-33: AvcProfile::try_from computed constraint_set1_flag as `(b & 0x40) >> 7`, which is always 0
#[test]
fn d33_avc_constrained_baseline() {
    use std::convert::TryFrom;
    assert_eq!(AvcProfile::try_from((66u8, 0x40u8)).unwrap(), AvcProfile::AvcConstrainedBaseline);
    assert_eq!(AvcProfile::try_from((66u8, 0xC0u8)).unwrap(), AvcProfile::AvcConstrainedBaseline);
    assert_eq!(AvcProfile::try_from((66u8, 0x80u8)).unwrap(), AvcProfile::AvcBaseline);
    assert_eq!(AvcProfile::try_from((66u8, 0x00u8)).unwrap(), AvcProfile::AvcBaseline);
}

/// D-08: escape-coded AAC audio object type: 32 + 6 bits, the upper three of which sit in the low bits of the first byte
#[test]
fn d08_extended_audio_object_type() {
    let b = Mp4aBox::new(&AacConfig::default());
    let mut v = Vec::new();
    b.write_box(&mut v).unwrap();
    // DecoderSpecific descriptor: tag 0x05, length 0x02, then the two AudioSpecificConfig bytes, then the SL descriptor (tag 0x06)
    let i = (0..v.len() - 4).find(|&i| v[i] == 0x05 && v[i + 1] == 0x02 && v[i + 4] == 0x06).expect("decoder specific descriptor");
    v[i + 2] = 0b11111_001; // escape 31, extension bits 001...
    v[i + 3] = 0b010_0100_0; // ...010 -> 32 + 0b001010 = 42 (USAC); frequency index 4
    let mut c = Cursor::new(v);
    let h = BoxHeader::read(&mut c).unwrap();
    let out = Mp4aBox::read_box(&mut c, h.size).unwrap();
    assert_eq!(out.esds.unwrap().es_desc.dec_config.dec_specific.profile, 42);
}

/// D-31: a child box with a 64-bit header in front of avcC / esds was skipped 8 bytes short (`current + s`, where s is largesize - 8)
#[test]
fn d31_child_with_64bit_header_in_sample_entry() {
    let b = Avc1Box::new(&AvcConfig { width: 16, height: 16, seq_param_set: vec![0x67, 66, 0, 30, 1, 2], pic_param_set: vec![0x68, 1, 2] });
    let mut v = Vec::new();
    b.write_box(&mut v).unwrap();
    // insert `free` with a 64-bit header (size field 1, largesize 24, 8 payload bytes) in front of the avcC child (offset 86)
    let mut child = vec![0u8, 0, 0, 1, b'f', b'r', b'e', b'e', 0, 0, 0, 0, 0, 0, 0, 24];
    child.extend_from_slice(&[0u8; 8]);
    let mut w = v[..86].to_vec();
    w.extend_from_slice(&child);
    w.extend_from_slice(&v[86..]);
    let total = w.len() as u32;
    w[..4].copy_from_slice(&total.to_be_bytes());
    let mut c = Cursor::new(w);
    let h = BoxHeader::read(&mut c).unwrap();
    let out = Avc1Box::read_box(&mut c, h.size).expect("a sample entry with a large-size child must parse");
    assert_eq!(out.avcc.sequence_parameter_sets, b.avcc.sequence_parameter_sets);
    assert_eq!(out.avcc.picture_parameter_sets, b.avcc.picture_parameter_sets);
    assert_eq!((out.width, out.height), (16, 16));
    assert_eq!(c.position(), total as u64);
}

/// D-42: MoovBox neither sizes nor writes its mvex child: a movie box read from a fragmented file loses it when re-encoded
#[test]
fn d42_moov_drops_mvex() {
    let mut moov = MoovBox::default();
    let mut mvex = MvexBox::default();
    mvex.trex.track_id = 1;
    mvex.trex.default_sample_duration = 1024;
    moov.mvex = Some(mvex);
    let mut v = Vec::new();
    let n = moov.write_box(&mut v).unwrap();
    assert_eq!(n as usize, v.len());
    assert_eq!(moov.box_size() as usize, v.len());
    let mut c = Cursor::new(v);
    let h = BoxHeader::read(&mut c).unwrap();
    let out = MoovBox::read_box(&mut c, h.size).unwrap();
    assert_eq!(out.mvex, moov.mvex);
}

/// D-43: TrakBox neither sizes nor writes its meta child
#[test]
fn d43_trak_drops_meta() {
    let mut trak = TrakBox::default();
    trak.tkhd.track_id = 1;
    trak.mdia.minf.stbl.stco = Some(StcoBox::default());
    trak.meta = Some(MetaBox::Mdir { ilst: None });
    let mut v = Vec::new();
    let n = trak.write_box(&mut v).unwrap();
    assert_eq!(n as usize, v.len());
    assert_eq!(trak.box_size() as usize, v.len());
    let mut c = Cursor::new(v);
    let h = BoxHeader::read(&mut c).unwrap();
    let out = TrakBox::read_box(&mut c, h.size).unwrap();
    assert_eq!(out.meta, trak.meta);
}
