// SPEC LIBRARY: byte lengths and representability ("wire") predicates of the boxes of the muxer's output tree that have
// no byte-level layout spec yet.  Lengths are transcribed from the syntax tables (14496-12 8.x / 12.x, 14496-15 5.x,
// 14496-14 5.6, 14496-1 7.2.6, 3GPP TS 26.245 for tx3g, VP-codec-ISOBMFF 2.2); containers: 8 + sum of the children (C02).

pub open spec fn len_fits(n: int) -> bool { 8 <= n <= 0xffff_ffff }

// ---- hdlr (8.4.3): FullBox, pre_defined(4) handler_type(4) reserved(12) name (utf-8, null terminated)
pub open spec fn hdlr_len(b: HdlrBox) -> int { 33 + (utf8(b.name@).len() as int) }
pub open spec fn hdlr_wire(b: HdlrBox) -> bool { flags_wire(b.flags) && len_fits(hdlr_len(b)) }

// ---- url (8.7.2): FullBox, location string (absent when the data is in the same file)
pub open spec fn url_len(b: UrlBox) -> int { if b.location@.len() == 0 { 12int } else { 13 + (utf8(b.location@).len() as int) } }
pub open spec fn url_wire(b: UrlBox) -> bool { flags_wire(b.flags) && len_fits(url_len(b)) }

// ---- dref (8.7.2): FullBox, entry_count(4), entries
pub open spec fn dref_len(b: DrefBox) -> int { 16 + (match b.url { Some(u) => url_len(u), None => 0 }) }
pub open spec fn dref_wire(b: DrefBox) -> bool { flags_wire(b.flags) && (b.url matches Some(u) ==> url_wire(u)) && len_fits(dref_len(b)) }

pub open spec fn dinf_len(b: DinfBox) -> int { 8 + dref_len(b.dref) }
pub open spec fn dinf_wire(b: DinfBox) -> bool { dref_wire(b.dref) && len_fits(dinf_len(b)) }

// ---- avcC (14496-15 5.3.3.1): 6 fixed bytes, SPS list (2-byte length + bytes each), 1 count byte, PPS list
pub open spec fn nal_sum(v: Seq<NalUnit>, n: int) -> int
    decreases n
{
    if n <= 0 { 0 } else { nal_sum(v, n - 1) + 2 + v[n - 1].bytes@.len() }
}
pub open spec fn avcc_len(b: AvcCBox) -> int {
    15 + nal_sum(b.sequence_parameter_sets@, b.sequence_parameter_sets@.len() as int) + nal_sum(b.picture_parameter_sets@, b.picture_parameter_sets@.len() as int)
}
/// counts fit their 5- and 8-bit fields, NAL lengths their 16-bit field
pub open spec fn nals_wire(v: Seq<NalUnit>) -> bool { forall|i: int| 0 <= i < v.len() ==> (#[trigger] v[i]).bytes@.len() <= 0xffff }
pub open spec fn avcc_wire(b: AvcCBox) -> bool {
    b.sequence_parameter_sets@.len() <= 31 && b.picture_parameter_sets@.len() <= 255
    && nals_wire(b.sequence_parameter_sets@) && nals_wire(b.picture_parameter_sets@)
    && len_fits(avcc_len(b))
}
pub proof fn lemma_nal_sum_bound(v: Seq<NalUnit>, n: int)
    requires nals_wire(v), 0 <= n <= v.len()
    ensures 0 <= nal_sum(v, n) <= n * 0x10001
    decreases n
{
    if n > 0 { lemma_nal_sum_bound(v, n - 1); }
}

// ---- visual sample entries (12.1.3): 8 + 78 bytes + configuration box
pub open spec fn avc1_len(b: Avc1Box) -> int { 86 + avcc_len(b.avcc) }
pub open spec fn avc1_wire(b: Avc1Box) -> bool { avcc_wire(b.avcc) && b.horizresolution.0.denom == 0x10000 && b.vertresolution.0.denom == 0x10000 && len_fits(avc1_len(b)) }

// ---- hvcC (14496-15 8.3.3.1): 23 fixed bytes, arrays of (1 + 2 + NAL units of 2 + n bytes)
pub open spec fn hvcc_nalus_sum(v: Seq<HvcCArrayNalu>, n: int) -> int
    decreases n
{
    if n <= 0 { 0 } else { hvcc_nalus_sum(v, n - 1) + 2 + v[n - 1].data@.len() }
}
pub open spec fn hvcc_arrays_sum(v: Seq<HvcCArray>, n: int) -> int
    decreases n
{
    if n <= 0 { 0 } else { hvcc_arrays_sum(v, n - 1) + 3 + hvcc_nalus_sum(v[n - 1].nalus@, v[n - 1].nalus@.len() as int) }
}
pub open spec fn hvcc_len(b: HvcCBox) -> int { 31 + hvcc_arrays_sum(b.arrays@, b.arrays@.len() as int) }
pub open spec fn hvcc_wire(b: HvcCBox) -> bool {
    &&& b.general_constraint_indicator_flag < 0x1000000000000
    &&& b.arrays@.len() <= 255
    &&& forall|i: int| 0 <= i < b.arrays@.len() ==> (#[trigger] b.arrays@[i]).nalus@.len() <= 0xffff
          && forall|j: int| 0 <= j < b.arrays@[i].nalus@.len() ==> (#[trigger] b.arrays@[i].nalus@[j]).data@.len() == b.arrays@[i].nalus@[j].size
    &&& len_fits(hvcc_len(b))
}
pub open spec fn hev1_len(b: Hev1Box) -> int { 86 + hvcc_len(b.hvcc) }
pub open spec fn hev1_wire(b: Hev1Box) -> bool { hvcc_wire(b.hvcc) && b.horizresolution.0.denom == 0x10000 && b.vertresolution.0.denom == 0x10000 && len_fits(hev1_len(b)) }

// ---- vpcC / vp09 (VP codec ISOBMFF binding 2.2): fixed
pub open spec fn vp09_len(b: Vp09Box) -> int { 0x6aint }
pub open spec fn vp09_wire(b: Vp09Box) -> bool { flags_wire(b.flags) && vpcc_wire(b.vpcc) }

// ---- esds (14496-14 5.6 / 14496-1 7.2.6): FullBox + ES_Descriptor(3+1 bytes) { DecoderConfig(13) { DecoderSpecific(2) } SLConfig(1) },
//      every descriptor prefixed by tag(1) + length(1, as all lengths here are < 128)
pub open spec fn esds_len(b: EsdsBox) -> int { 12int + 2 + 3 + (2 + 13 + (2 + 2)) + (2 + 1) }
pub open spec fn esds_wire(b: EsdsBox) -> bool {
    flags_wire(b.flags) && b.es_desc.dec_config.buffer_size_db < 0x1000000
    && b.es_desc.dec_config.stream_type < 64
    && b.es_desc.dec_config.dec_specific.profile < 32 && b.es_desc.dec_config.dec_specific.freq_index < 16 && b.es_desc.dec_config.dec_specific.chan_conf < 16
}
pub open spec fn mp4a_len(b: Mp4aBox) -> int { 36 + (match b.esds { Some(e) => esds_len(e), None => 0 }) }
pub open spec fn mp4a_wire(b: Mp4aBox) -> bool { (b.esds matches Some(e) ==> esds_wire(e)) && b.samplerate.0.denom == 0x10000 }

pub open spec fn tx3g_len(b: Tx3gBox) -> int { 46int }

// ---- stsd (8.5.2): FullBox, entry_count(4), one sample entry
pub open spec fn stsd_entry_len(b: StsdBox) -> int {
    if b.avc1 is Some { avc1_len(b.avc1->Some_0) } else if b.hev1 is Some { hev1_len(b.hev1->Some_0) }
    else if b.vp09 is Some { vp09_len(b.vp09->Some_0) } else if b.mp4a is Some { mp4a_len(b.mp4a->Some_0) }
    else if b.tx3g is Some { tx3g_len(b.tx3g->Some_0) } else { 0 }
}
pub open spec fn stsd_len(b: StsdBox) -> int { 16 + stsd_entry_len(b) }
pub open spec fn stsd_wire(b: StsdBox) -> bool {
    &&& flags_wire(b.flags)
    &&& (b.avc1 matches Some(x) ==> avc1_wire(x))
    &&& (b.avc1 is None && b.hev1 is Some ==> hev1_wire(b.hev1->Some_0))
    &&& (b.avc1 is None && b.hev1 is None && b.vp09 is Some ==> vp09_wire(b.vp09->Some_0))
    &&& (b.avc1 is None && b.hev1 is None && b.vp09 is None && b.mp4a is Some ==> mp4a_wire(b.mp4a->Some_0))
    &&& len_fits(stsd_len(b))
}

// ---- containers
pub open spec fn stbl_len(b: StblBox) -> int {
    8 + stsd_len(b.stsd) + stts_len(b.stts)
      + (match b.ctts { Some(x) => ctts_len(x), None => 0 }) + (match b.stss { Some(x) => stss_len(x), None => 0 })
      + stsc_len(b.stsc) + stsz_len(b.stsz)
      + (match b.stco { Some(x) => stco_len(x), None => 0 }) + (match b.co64 { Some(x) => co64_len(x), None => 0 })
}
pub open spec fn stbl_wire(b: StblBox) -> bool {
    &&& stsd_wire(b.stsd) && stts_wire(b.stts) && stsc_wire(b.stsc) && stsz_wire(b.stsz)
    &&& (b.ctts matches Some(x) ==> ctts_wire(x)) && (b.stss matches Some(x) ==> stss_wire(x))
    &&& (b.stco matches Some(x) ==> stco_wire(x)) && (b.co64 matches Some(x) ==> co64_wire(x))
    &&& len_fits(stbl_len(b))
}
pub open spec fn minf_len(b: MinfBox) -> int {
    8 + (match b.vmhd { Some(x) => vmhd_len(x), None => 0 }) + (match b.smhd { Some(x) => smhd_len(x), None => 0 }) + dinf_len(b.dinf) + stbl_len(b.stbl)
}
pub open spec fn minf_wire(b: MinfBox) -> bool {
    (b.vmhd matches Some(x) ==> vmhd_wire(x)) && (b.smhd matches Some(x) ==> smhd_wire(x)) && dinf_wire(b.dinf) && stbl_wire(b.stbl) && len_fits(minf_len(b))
}
pub open spec fn mdia_len(b: MdiaBox) -> int { 8 + mdhd_len(b.mdhd) + hdlr_len(b.hdlr) + minf_len(b.minf) }
pub open spec fn mdia_wire(b: MdiaBox) -> bool { mdhd_wire(b.mdhd) && hdlr_wire(b.hdlr) && minf_wire(b.minf) && len_fits(mdia_len(b)) }

// ---- elst (8.6.6) / edts
pub open spec fn elst_len(b: ElstBox) -> int { 16 + (if b.version == 1 { 20 * (b.entries@.len() as int) } else { 12 * (b.entries@.len() as int) }) }
pub open spec fn edts_len(b: EdtsBox) -> int { 8 + (match b.elst { Some(x) => elst_len(x), None => 0 }) }

pub open spec fn trak_len(b: TrakBox) -> int { 8 + tkhd_len(b.tkhd) + (match b.edts { Some(x) => edts_len(x), None => 0 }) + mdia_len(b.mdia) }
/// (edit lists are not produced by the muxer: the wire predicate of a track requires their absence for now)
pub open spec fn trak_wire(b: TrakBox) -> bool { tkhd_wire(b.tkhd) && b.edts is None && b.meta is None && mdia_wire(b.mdia) && len_fits(trak_len(b)) }

pub open spec fn traks_len(v: Seq<TrakBox>, n: int) -> int
    decreases n
{
    if n <= 0 { 0 } else { traks_len(v, n - 1) + trak_len(v[n - 1]) }
}
pub open spec fn moov_len(b: MoovBox) -> int { 8 + mvhd_len(b.mvhd) + traks_len(b.traks@, b.traks@.len() as int) + (match b.mvex { Some(x) => mvex_len(x), None => 0 }) }
/// (user data / metadata are not produced by the muxer: required absent for now)
pub open spec fn moov_wire(b: MoovBox) -> bool {
    &&& mvhd_wire(b.mvhd) && b.meta is None && b.udta is None && (b.mvex matches Some(x) ==> mvex_wire(x))
    &&& forall|i: int| 0 <= i < b.traks@.len() ==> trak_wire(#[trigger] b.traks@[i])
    &&& len_fits(moov_len(b))
}

pub proof fn lemma_traks_len_mono(v: Seq<TrakBox>, a: int, n: int)
    requires 0 <= a <= n <= v.len(), forall|i: int| 0 <= i < v.len() ==> trak_len(#[trigger] v[i]) >= 0
    ensures 0 <= traks_len(v, a) <= traks_len(v, n)
    decreases n
{
    if n > 0 { if a < n { lemma_traks_len_mono(v, a, n - 1); } else { lemma_traks_len_mono(v, a - 1, n - 1); } }
}

// ================================================================================================================
// Field-level representability ("fw"): the wire predicates without their length conjuncts.  The muxer's invariant carries
// the fw part (every field it ever sets fits its wire width); the lengths follow from one hypothesis on the total
// (lemma_moov_wire_from_fw): a movie box of at most 4 GiB (DESIGN D-20).
pub open spec fn hdlr_fw(b: HdlrBox) -> bool { flags_wire(b.flags) }
pub open spec fn url_fw(b: UrlBox) -> bool { flags_wire(b.flags) }
pub open spec fn dref_fw(b: DrefBox) -> bool { flags_wire(b.flags) && (b.url matches Some(u) ==> url_fw(u)) }
pub open spec fn dinf_fw(b: DinfBox) -> bool { dref_fw(b.dref) }
pub open spec fn avcc_fw(b: AvcCBox) -> bool {
    b.sequence_parameter_sets@.len() <= 31 && b.picture_parameter_sets@.len() <= 255
    && nals_wire(b.sequence_parameter_sets@) && nals_wire(b.picture_parameter_sets@)
}
pub open spec fn avc1_fw(b: Avc1Box) -> bool { avcc_fw(b.avcc) && b.horizresolution.0.denom == 0x10000 && b.vertresolution.0.denom == 0x10000 }
pub open spec fn hvcc_fw(b: HvcCBox) -> bool {
    &&& b.general_constraint_indicator_flag < 0x1000000000000
    &&& b.arrays@.len() <= 255
    &&& forall|i: int| 0 <= i < b.arrays@.len() ==> (#[trigger] b.arrays@[i]).nalus@.len() <= 0xffff
          && forall|j: int| 0 <= j < b.arrays@[i].nalus@.len() ==> (#[trigger] b.arrays@[i].nalus@[j]).data@.len() == b.arrays@[i].nalus@[j].size
}
pub open spec fn hev1_fw(b: Hev1Box) -> bool { hvcc_fw(b.hvcc) && b.horizresolution.0.denom == 0x10000 && b.vertresolution.0.denom == 0x10000 }
pub open spec fn stsd_fw(b: StsdBox) -> bool {
    &&& flags_wire(b.flags)
    &&& (b.avc1 matches Some(x) ==> avc1_fw(x))
    &&& (b.avc1 is None && b.hev1 is Some ==> hev1_fw(b.hev1->Some_0))
    &&& (b.avc1 is None && b.hev1 is None && b.vp09 is Some ==> vp09_wire(b.vp09->Some_0))
    &&& (b.avc1 is None && b.hev1 is None && b.vp09 is None && b.mp4a is Some ==> mp4a_wire(b.mp4a->Some_0))
}
/// flags of the sample tables (the only table fields that do not follow from the length bound), stsz shape
pub open spec fn tables_fw(b: StblBox) -> bool {
    &&& flags_wire(b.stts.flags) && flags_wire(b.stsc.flags) && flags_wire(b.stsz.flags)
    &&& (b.stsz.sample_size == 0 ==> b.stsz.sample_sizes@.len() == b.stsz.sample_count)
    &&& (b.stsz.sample_size != 0 ==> b.stsz.sample_sizes@.len() == 0)
    &&& (b.ctts matches Some(x) ==> flags_wire(x.flags)) && (b.stss matches Some(x) ==> flags_wire(x.flags))
    &&& (b.stco matches Some(x) ==> flags_wire(x.flags)) && (b.co64 matches Some(x) ==> flags_wire(x.flags))
}
pub open spec fn stbl_fw(b: StblBox) -> bool { stsd_fw(b.stsd) && tables_fw(b) }
pub open spec fn minf_fw(b: MinfBox) -> bool {
    (b.vmhd matches Some(x) ==> vmhd_wire(x)) && (b.smhd matches Some(x) ==> smhd_wire(x)) && dinf_fw(b.dinf) && stbl_fw(b.stbl)
}
pub open spec fn mdia_fw(b: MdiaBox) -> bool { mdhd_wire(b.mdhd) && hdlr_fw(b.hdlr) && minf_fw(b.minf) }
pub open spec fn trak_fw(b: TrakBox) -> bool { tkhd_wire(b.tkhd) && b.edts is None && b.meta is None && mdia_fw(b.mdia) }
pub open spec fn moov_fw(b: MoovBox) -> bool {
    &&& mvhd_wire(b.mvhd) && b.meta is None && b.udta is None && b.mvex is None
    &&& forall|i: int| 0 <= i < b.traks@.len() ==> trak_fw(#[trigger] b.traks@[i])
}

pub proof fn lemma_nal_sum_nonneg(v: Seq<NalUnit>, n: int)
    requires 0 <= n <= v.len()
    ensures 0 <= nal_sum(v, n)
    decreases n
{
    if n > 0 { lemma_nal_sum_nonneg(v, n - 1); }
}
pub proof fn lemma_hvcc_nalus_nonneg(v: Seq<HvcCArrayNalu>, n: int)
    requires 0 <= n <= v.len()
    ensures 0 <= hvcc_nalus_sum(v, n)
    decreases n
{
    if n > 0 { lemma_hvcc_nalus_nonneg(v, n - 1); }
}
pub proof fn lemma_hvcc_arrays_nonneg(v: Seq<HvcCArray>, n: int)
    requires 0 <= n <= v.len()
    ensures 0 <= hvcc_arrays_sum(v, n)
    decreases n
{
    if n > 0 { lemma_hvcc_arrays_nonneg(v, n - 1); lemma_hvcc_nalus_nonneg(v[n - 1].nalus@, v[n - 1].nalus@.len() as int); }
}

/// lower bounds of the lengths (every box is at least its header)
pub proof fn lemma_stsd_len_lb(b: StsdBox)
    ensures stsd_len(b) >= 16, stsd_entry_len(b) >= 0,
            b.avc1 matches Some(x) ==> avc1_len(x) >= 101 && avcc_len(x.avcc) >= 15,
            b.hev1 matches Some(x) ==> hev1_len(x) >= 117 && hvcc_len(x.hvcc) >= 31,
{
    if b.avc1 is Some {
        let a = b.avc1->Some_0.avcc;
        lemma_nal_sum_nonneg(a.sequence_parameter_sets@, a.sequence_parameter_sets@.len() as int);
        lemma_nal_sum_nonneg(a.picture_parameter_sets@, a.picture_parameter_sets@.len() as int);
    }
    if b.hev1 is Some {
        let h = b.hev1->Some_0.hvcc;
        lemma_hvcc_arrays_nonneg(h.arrays@, h.arrays@.len() as int);
    }
}

pub proof fn lemma_stbl_wire_from_fw(b: StblBox)
    requires stbl_fw(b), stbl_len(b) <= 0xffff_ffff
    ensures stbl_wire(b)
{
    lemma_stsd_len_lb(b.stsd);
}

pub proof fn lemma_trak_wire_from_fw(b: TrakBox)
    requires trak_fw(b), trak_len(b) <= 0xffff_ffff
    ensures trak_wire(b), trak_len(b) >= 8
{
    lemma_stsd_len_lb(b.mdia.minf.stbl.stsd);
    lemma_stbl_wire_from_fw(b.mdia.minf.stbl);
}

pub proof fn lemma_traks_len_nonneg(v: Seq<TrakBox>, n: int)
    requires 0 <= n <= v.len(), forall|i: int| 0 <= i < v.len() ==> trak_fw(#[trigger] v[i])
    ensures traks_len(v, n) >= 0, forall|i: int| 0 <= i < n ==> trak_len(#[trigger] v[i]) <= traks_len(v, n)
    decreases n
{
    if n > 0 {
        lemma_traks_len_nonneg(v, n - 1);
        lemma_trak_len_lb(v[n - 1]);
    }
}
pub proof fn lemma_trak_len_lb(b: TrakBox)
    requires trak_fw(b)
    ensures trak_len(b) >= 8
{
    lemma_stsd_len_lb(b.mdia.minf.stbl.stsd);
}

pub proof fn lemma_moov_wire_from_fw(b: MoovBox)
    requires moov_fw(b), moov_len(b) <= 0xffff_ffff
    ensures moov_wire(b)
{
    lemma_traks_len_nonneg(b.traks@, b.traks@.len() as int);
    assert forall|i: int| 0 <= i < b.traks@.len() implies trak_wire(#[trigger] b.traks@[i]) by {
        lemma_trak_wire_from_fw(b.traks@[i]);
    }
}

pub proof fn lemma_traks_len_prefix(a: Seq<TrakBox>, b: Seq<TrakBox>, n: int)
    requires 0 <= n <= a.len(), n <= b.len(), forall|i: int| 0 <= i < n ==> a[i] == b[i]
    ensures traks_len(a, n) == traks_len(b, n)
    decreases n
{
    if n > 0 { lemma_traks_len_prefix(a, b, n - 1); }
}
pub proof fn lemma_traks_len_push(v: Seq<TrakBox>, t: TrakBox)
    ensures traks_len(v.push(t), v.len() as int + 1) == traks_len(v, v.len() as int) + trak_len(t)
{
    lemma_traks_len_prefix(v.push(t), v, v.len() as int);
}

// ---- emsg (ISO/IEC 23009-1 5.10.3.3): FullBox; v0: two strings then 4 x u32; v1: u32 u64 u32 u32 then two strings; message to the end
pub open spec fn emsg_fixed_len(version: u8, scheme: Seq<char>, value: Seq<char>) -> int {
    12 + 4 + (if version == 0 { 12int } else { 16int }) + (utf8(scheme).len() + 1) + (utf8(value).len() + 1)
}
pub open spec fn emsg_len(b: EmsgBox) -> int { emsg_fixed_len(b.version, b.scheme_id_uri@, b.value@) + b.message_data@.len() }
pub open spec fn emsg_wire(b: EmsgBox) -> bool {
    &&& flags_wire(b.flags) && b.version <= 1
    &&& (b.version == 0 ==> b.presentation_time_delta is Some) && (b.version == 1 ==> b.presentation_time is Some)
    &&& len_fits(emsg_len(b))
}

// ---- ISO/IEC 14496-1 8.3.3 expandable length ("sizeOfInstance"): up to four bytes, seven payload bits each, msb = another byte follows
pub open spec fn desc_groups(d: Seq<u8>, p: int, i: int) -> int
    decreases i
{
    if i <= 0 { 0 } else { desc_groups(d, p, i - 1) * 128 + (d[p + i - 1] & 0x7f) }
}
pub open spec fn desc_more(d: Seq<u8>, p: int, i: int) -> bool { forall|j: int| 0 <= j < i ==> #[trigger] d[p + j] & 0x80 != 0 }
pub open spec fn desc_len_bytes(d: Seq<u8>, p: int) -> int {
    if d[p] & 0x80 == 0 { 1 } else if d[p + 1] & 0x80 == 0 { 2 } else if d[p + 2] & 0x80 == 0 { 3 } else { 4 }
}
pub open spec fn desc_len_value(d: Seq<u8>, p: int) -> int { desc_groups(d, p, desc_len_bytes(d, p)) }
pub proof fn lemma_desc_groups_bound(d: Seq<u8>, p: int, i: int)
    requires 0 <= i <= 4
    ensures 0 <= desc_groups(d, p, i) < pow128(i)
    decreases i
{
    if i > 0 {
        lemma_desc_groups_bound(d, p, i - 1);
        let b = d[p + i - 1];
        assert(b & 0x7f <= 127) by(bit_vector);
    }
}
pub open spec fn pow128(i: int) -> int { if i <= 0 { 1 } else if i == 1 { 128 } else if i == 2 { 16384 } else if i == 3 { 2097152 } else { 268435456 } }

// ---- iTunes metadata boxes, encode side
pub open spec fn data_len(b: DataBox) -> int { 16 + (b.data@.len() as int) }
pub open spec fn data_wire(b: DataBox) -> bool { len_fits(data_len(b)) }
pub open spec fn datatype_code(t: DataType) -> u32 { match t { DataType::Binary => 0, DataType::Text => 1, DataType::Image => 13, DataType::TempoCpil => 21 } }
/// header + type indicator + locale 0 + payload
pub open spec fn data_bytes(b: DataBox) -> Seq<u8> {
    hdr_bytes(data_len(b) as u64, 0x64617461) + be_bytes(datatype_code(b.data_type) as nat, 4) + be_bytes(0, 4) + b.data@
}
pub open spec fn ilst_item_len(b: IlstItemBox) -> int { 8 + data_len(b.data) }

pub open spec fn elst_wire(b: ElstBox) -> bool { flags_wire(b.flags) && b.version <= 1 && len_fits(elst_len(b)) }
pub open spec fn edts_wire(b: EdtsBox) -> bool { (b.elst matches Some(x) ==> elst_wire(x)) && len_fits(edts_len(b)) }

// ---- trun (8.8.8): FullBox, sample_count, [data_offset], [first_sample_flags], per sample [duration][size][flags][cts] as gated by tr_flags
pub open spec fn flag_set(flags: u32, bit: u32) -> bool { bit & flags > 0 }
pub open spec fn trun_per_sample(flags: u32) -> int {
    (if flag_set(flags, 0x100) { 4int } else { 0 }) + (if flag_set(flags, 0x200) { 4int } else { 0 })
    + (if flag_set(flags, 0x400) { 4int } else { 0 }) + (if flag_set(flags, 0x800) { 4int } else { 0 })
}
pub open spec fn trun_samples_len(flags: u32, n: int) -> int {
    (if flag_set(flags, 0x100) { 4 * n } else { 0 }) + (if flag_set(flags, 0x200) { 4 * n } else { 0 })
    + (if flag_set(flags, 0x400) { 4 * n } else { 0 }) + (if flag_set(flags, 0x800) { 4 * n } else { 0 })
}
pub open spec fn trun_len(b: TrunBox) -> int {
    16 + (if flag_set(b.flags, 0x01) { 4int } else { 0 }) + (if flag_set(b.flags, 0x04) { 4int } else { 0 }) + trun_samples_len(b.flags, b.sample_count as int)
}
/// representable: flag bits agree with the optional fields and the per-sample vectors the encoder indexes are long enough
/// (the encoder also insists on sample_sizes.len() == sample_count whatever the flags say: D-09)
pub open spec fn trun_wire(b: TrunBox) -> bool {
    &&& flags_wire(b.flags)
    &&& (flag_set(b.flags, 0x01) <==> b.data_offset is Some) && (flag_set(b.flags, 0x04) <==> b.first_sample_flags is Some)
    &&& b.sample_sizes@.len() == b.sample_count
    &&& (flag_set(b.flags, 0x100) ==> b.sample_durations@.len() == b.sample_count)
    &&& (flag_set(b.flags, 0x400) ==> b.sample_flags@.len() == b.sample_count)
    &&& (flag_set(b.flags, 0x800) ==> b.sample_cts@.len() == b.sample_count)
    &&& len_fits(trun_len(b))
}

// ---- movie fragments, encode side (not produced by Mp4Writer)
pub open spec fn traf_len(b: TrafBox) -> int {
    8 + tfhd_len(b.tfhd) + (match b.tfdt { Some(x) => tfdt_len(x), None => 0 }) + (match b.trun { Some(x) => trun_len(x), None => 0 })
}
pub open spec fn traf_wire(b: TrafBox) -> bool {
    tfhd_wire(b.tfhd) && (b.tfdt matches Some(x) ==> tfdt_wire(x)) && (b.trun matches Some(x) ==> trun_wire(x)) && len_fits(traf_len(b))
}
pub open spec fn trafs_len(v: Seq<TrafBox>, n: int) -> int
    decreases n
{
    if n <= 0 { 0 } else { trafs_len(v, n - 1) + traf_len(v[n - 1]) }
}
pub open spec fn moof_len(b: MoofBox) -> int { 8 + mfhd_len(b.mfhd) + trafs_len(b.trafs@, b.trafs@.len() as int) }
pub open spec fn moof_wire(b: MoofBox) -> bool {
    &&& mfhd_wire(b.mfhd)
    &&& forall|i: int| 0 <= i < b.trafs@.len() ==> traf_wire(#[trigger] b.trafs@[i])
    &&& len_fits(moof_len(b))
}
pub proof fn lemma_trafs_len_mono(v: Seq<TrafBox>, a: int, n: int)
    requires 0 <= a <= n <= v.len(), forall|i: int| 0 <= i < v.len() ==> traf_len(#[trigger] v[i]) >= 0
    ensures 0 <= trafs_len(v, a) <= trafs_len(v, n)
    decreases n
{
    if n > 0 { if a < n { lemma_trafs_len_mono(v, a, n - 1); } else { lemma_trafs_len_mono(v, a - 1, n - 1); } }
}
pub open spec fn mvex_len(b: MvexBox) -> int { 8 + (match b.mehd { Some(x) => mehd_len(x), None => 0 }) + trex_len(b.trex) }
pub open spec fn mvex_wire(b: MvexBox) -> bool { (b.mehd matches Some(x) ==> mehd_wire(x)) && trex_wire(b.trex) }
