// SPEC LIBRARY: ISO/IEC 14496-12 sample-table semantics over sequences (sections 8.6.1.2, 8.6.1.3, 8.6.2, 8.7.3-8.7.5).
// Shares no text with /repo: this is the "independent reader" the lookup functions are proved against.

// ---------------------------------------------------------------- stsc (8.7.4): runs of chunks
// Entry i describes chunks first_chunk[i] .. first_chunk[i+1]-1, each holding samples_per_chunk[i] samples.
// The first sample of run i therefore is 1 + sum_{j<i} (first_chunk[j+1]-first_chunk[j]) * samples_per_chunk[j].
pub open spec fn stsc_first_sample(e: Seq<StscEntry>, i: int) -> int
    decreases i
{
    if i <= 0 { 1 } else {
        stsc_first_sample(e, i - 1) + (e[i].first_chunk - e[i - 1].first_chunk) * e[i - 1].samples_per_chunk
    }
}

/// what the reader derives and stores in `first_sample` (a cache of the formula above), with first_chunk non-decreasing
pub open spec fn stsc_derived_ok(e: Seq<StscEntry>, n: int) -> bool {
    &&& forall|i: int| 0 <= i < n ==> (#[trigger] e[i]).first_sample == stsc_first_sample(e, i)
    &&& forall|i: int| 0 < i < n ==> #[trigger] stsc_mono_at(e, i)
}

/// first_chunk does not decrease from run i-1 to run i
pub open spec fn stsc_mono_at(e: Seq<StscEntry>, i: int) -> bool { e[i - 1].first_chunk <= e[i].first_chunk }

pub open spec fn stsc_same_wire(a: Seq<StscEntry>, b: Seq<StscEntry>) -> bool {
    a.len() == b.len() && forall|j: int| 0 <= j < a.len() ==> (#[trigger] a[j]).first_chunk == b[j].first_chunk
        && a[j].samples_per_chunk == b[j].samples_per_chunk && a[j].sample_description_index == b[j].sample_description_index
}

pub proof fn lemma_stsc_first_sample_congr(a: Seq<StscEntry>, b: Seq<StscEntry>, i: int)
    requires stsc_same_wire(a, b), 0 <= i < a.len()
    ensures stsc_first_sample(a, i) == stsc_first_sample(b, i)
    decreases i
{
    if i > 0 {
        lemma_stsc_first_sample_congr(a, b, i - 1);
        assert(a[i].first_chunk == b[i].first_chunk);
        assert(a[i - 1].first_chunk == b[i - 1].first_chunk);
    }
}

// ---------------------------------------------------------------- stts (8.6.1.2): runs of (sample_count, sample_delta)
pub open spec fn stts_total(e: Seq<SttsEntry>, n: int) -> int
    decreases n
{
    if n <= 0 { 0 } else { stts_total(e, n - 1) + e[n - 1].sample_count }
}

/// sum of the deltas of all samples of the first n runs
pub open spec fn stts_elapsed(e: Seq<SttsEntry>, n: int) -> int
    decreases n
{
    if n <= 0 { 0 } else { stts_elapsed(e, n - 1) + e[n - 1].sample_count * e[n - 1].sample_delta }
}

/// sample k (1-based) lies in run i
pub open spec fn stts_covers(e: Seq<SttsEntry>, i: int, k: int) -> bool {
    0 <= i < e.len() && stts_total(e, i) < k <= stts_total(e, i + 1)
}

/// DT(k) = sum of the deltas of samples 1..k-1, and delta(k), when k lies in run i
pub open spec fn stts_time_in(e: Seq<SttsEntry>, i: int, k: int) -> int {
    stts_elapsed(e, i) + (k - 1 - stts_total(e, i)) * e[i].sample_delta
}

pub proof fn lemma_stts_total_mono(e: Seq<SttsEntry>, a: int, b: int)
    requires 0 <= a <= b
    ensures stts_total(e, a) <= stts_total(e, b), stts_elapsed(e, a) <= stts_elapsed(e, b)
    decreases b - a
{
    if a < b {
        lemma_stts_total_mono(e, a, b - 1);
        assert(e[b - 1].sample_count * e[b - 1].sample_delta >= 0) by(nonlinear_arith)
            requires e[b - 1].sample_count >= 0, e[b - 1].sample_delta >= 0;
    }
}

/// the covering run is unique (decode is a function)
pub proof fn lemma_stts_covers_unique(e: Seq<SttsEntry>, i: int, j: int, k: int)
    requires stts_covers(e, i, k), stts_covers(e, j, k)
    ensures i == j
{
    if i < j { lemma_stts_total_mono(e, i + 1, j); }
    if j < i { lemma_stts_total_mono(e, j + 1, i); }
}

/// elapsed time is bounded by (number of samples) * 2^32: the u64 accumulator of a reader cannot overflow
pub proof fn lemma_stts_elapsed_bound(e: Seq<SttsEntry>, n: int)
    requires 0 <= n <= e.len()
    ensures stts_elapsed(e, n) <= stts_total(e, n) * 0xffff_ffff, 0 <= stts_total(e, n), 0 <= stts_elapsed(e, n)
    decreases n
{
    if n > 0 {
        lemma_stts_elapsed_bound(e, n - 1);
        let c = e[n - 1].sample_count as int;
        let d = e[n - 1].sample_delta as int;
        assert(c * d <= c * 0xffff_ffff && c * d >= 0) by(nonlinear_arith) requires 0 <= c, 0 <= d <= 0xffff_ffff;
        assert((stts_total(e, n - 1) + c) * 0xffff_ffff == stts_total(e, n - 1) * 0xffff_ffff + c * 0xffff_ffff) by(nonlinear_arith);
    }
}

// ---------------------------------------------------------------- ctts (8.6.1.3)
pub open spec fn ctts_total(e: Seq<CttsEntry>, n: int) -> int
    decreases n
{
    if n <= 0 { 0 } else { ctts_total(e, n - 1) + e[n - 1].sample_count }
}

pub open spec fn ctts_covers(e: Seq<CttsEntry>, i: int, k: int) -> bool {
    0 <= i < e.len() && ctts_total(e, i) < k <= ctts_total(e, i + 1)
}

pub proof fn lemma_ctts_total_mono(e: Seq<CttsEntry>, a: int, b: int)
    requires 0 <= a <= b
    ensures ctts_total(e, a) <= ctts_total(e, b)
    decreases b - a
{
    if a < b { lemma_ctts_total_mono(e, a, b - 1); }
}

// ---------------------------------------------------------------- stsz (8.7.3.2)
pub open spec fn stsz_size_of(z: StszBox, k: int) -> int {
    if z.sample_size > 0 { z.sample_size as int } else { z.sample_sizes@[k - 1] as int }
}

/// sum of the sizes of samples a .. b-1
pub open spec fn stsz_sum(z: StszBox, a: int, b: int) -> int
    decreases b - a
{
    if b <= a { 0 } else { stsz_sum(z, a, b - 1) + stsz_size_of(z, b - 1) }
}

// ---------------------------------------------------------------- stsc + stco/co64 (8.7.4, 8.7.5)
/// sample k (1-based) lies in run i of the sample-to-chunk map (runs are delimited by their first samples)
pub open spec fn stsc_run_of(e: Seq<StscEntry>, i: int, k: int) -> bool {
    &&& 0 <= i < e.len()
    &&& stsc_first_sample(e, i) <= k
    &&& (i + 1 < e.len() ==> k < stsc_first_sample(e, i + 1))
}

/// chunk (1-based) holding sample k of run i, and the first sample of that chunk
pub open spec fn stsc_chunk_of(e: Seq<StscEntry>, i: int, k: int) -> int {
    e[i].first_chunk + (k - stsc_first_sample(e, i)) / (e[i].samples_per_chunk as int)
}

pub open spec fn stsc_first_in_chunk(e: Seq<StscEntry>, i: int, k: int) -> int {
    k - (k - stsc_first_sample(e, i)) % (e[i].samples_per_chunk as int)
}

pub open spec fn chunk_offset_iso(s: StblBox, c: int) -> int {
    if s.stco is Some { s.stco->Some_0.entries@[c - 1] as int } else { s.co64->Some_0.entries@[c - 1] as int }
}

pub open spec fn chunk_count_iso(s: StblBox) -> int {
    if s.stco is Some { s.stco->Some_0.entries@.len() as int } else if s.co64 is Some { s.co64->Some_0.entries@.len() as int } else { 0 }
}

/// file offset of sample k lying in stsc run i: offset of its chunk + sizes of the earlier samples of that chunk
pub open spec fn sample_offset_iso(s: StblBox, i: int, k: int) -> int {
    chunk_offset_iso(s, stsc_chunk_of(s.stsc.entries@, i, k))
        + stsz_sum(s.stsz, stsc_first_in_chunk(s.stsc.entries@, i, k), k)
}

// ---------------------------------------------------------------- what the parser establishes, and what C03 assumes
/// established by StblBox::read_box through its children's postconditions (no assumption about the file)
pub open spec fn stbl_parsed(s: StblBox) -> bool {
    &&& stsc_derived_ok(s.stsc.entries@, s.stsc.entries@.len() as int)
    &&& stsz_fields_wire(s.stsz)
    &&& (s.stco matches Some(x) ==> stco_fields_wire(x))
    &&& (s.co64 matches Some(x) ==> co64_fields_wire(x))
}

/// C03's hypothesis: "a file whose sample tables are mutually consistent"
pub open spec fn stbl_consistent(s: StblBox) -> bool {
    let n = s.stsz.sample_count as int;
    let sc = s.stsc.entries@;
    let last = sc.len() - 1;
    &&& stbl_parsed(s)
    // (the reader counts samples in u32 starting from 1: the one table size it cannot index is excluded)
    &&& n < 0xffff_ffff
    // time-to-sample and composition-offset runs account for exactly the n samples
    &&& stts_total(s.stts.entries@, s.stts.entries@.len() as int) == n
    &&& (s.ctts matches Some(c) ==> ctts_total(c.entries@, c.entries@.len() as int) == n)
    // sync table strictly increasing, in range
    &&& (s.stss matches Some(y) ==> sorted_strict(y.entries@)
            && forall|j: int| 0 <= j < y.entries@.len() ==> 1 <= #[trigger] y.entries@[j] <= n)
    // exactly one chunk-offset table; the chunk map starts at chunk 1, has positive run lengths, strictly increasing
    // first chunks, refers to existing chunks, and its chunks hold exactly the n samples
    &&& (s.stco is Some) != (s.co64 is Some)
    &&& (n > 0 ==> sc.len() > 0)
    &&& (sc.len() > 0 ==> sc[0].first_chunk == 1
            && last_chunk_ok(s, n))
    &&& forall|i: int| 0 <= i < sc.len() ==> (#[trigger] sc[i]).samples_per_chunk >= 1
    &&& forall|i: int| 0 < i < sc.len() ==> #[trigger] stsc_strict_at(sc, i)
    // every chunk ends inside a 2^63 byte file
    &&& forall|i: int, k: int| #![trigger sample_offset_iso(s, i, k)] stsc_run_of(sc, i, k) && 1 <= k <= n
            ==> sample_offset_iso(s, i, k) + stsz_size_of(s.stsz, k) <= 0x7fff_ffff_ffff_ffff
}

pub open spec fn stsc_strict_at(e: Seq<StscEntry>, i: int) -> bool { e[i - 1].first_chunk < e[i].first_chunk }

/// the last run's chunks reach exactly the last chunk of the offset table and the n-th sample
pub open spec fn last_chunk_ok(s: StblBox, n: int) -> bool {
    let sc = s.stsc.entries@;
    let last = sc.len() - 1;
    let c = chunk_count_iso(s);
    &&& sc[last].first_chunk <= c
    &&& stsc_first_sample(sc, last) - 1 + (c + 1 - sc[last].first_chunk) * sc[last].samples_per_chunk == n
}

pub open spec fn stbl_of(t: Mp4Track) -> StblBox { t.trak.mdia.minf.stbl }

/// what Mp4Reader::read_header establishes for every track it hands out (parser guarantees only)
pub open spec fn track_parsed(t: Mp4Track) -> bool {
    &&& stbl_parsed(stbl_of(t)) && tkhd_rd_wire(t.trak.tkhd)
    &&& t.trafs@.len() == t.moof_offsets@.len()
    &&& trafs_parsed(t.trafs@)
}

/// DOMAIN ASSUMPTION (not a parser guarantee; stated as an explicit precondition of the sample-reading API):
/// fewer than 2^32 track fragments per track (a file would need more than 32 GiB of traf headers to violate it)
pub open spec fn frag_count_ok(t: Mp4Track) -> bool { t.trafs@.len() <= 0xffff_ffff }

pub open spec fn track_plain(t: Mp4Track) -> bool { t.trafs@.len() == 0 }

pub proof fn lemma_ctts_covers_unique(e: Seq<CttsEntry>, i: int, j: int, k: int)
    requires ctts_covers(e, i, k), ctts_covers(e, j, k)
    ensures i == j
{
    if i < j { lemma_ctts_total_mono(e, i + 1, j); }
    if j < i { lemma_ctts_total_mono(e, j + 1, i); }
}

// ---- facts about the chunk map that follow from consistency (used by the proof of sample_offset)

/// first samples of the runs are positive and (under consistency) strictly increasing
pub proof fn lemma_stsc_first_sample_pos(e: Seq<StscEntry>, i: int)
    requires 0 <= i < e.len(), forall|j: int| 0 < j < e.len() ==> #[trigger] stsc_mono_at(e, j)
    ensures stsc_first_sample(e, i) >= 1
    decreases i
{
    if i > 0 {
        lemma_stsc_first_sample_pos(e, i - 1);
        assert(stsc_mono_at(e, i));
        assert((e[i].first_chunk - e[i - 1].first_chunk) * e[i - 1].samples_per_chunk >= 0) by(nonlinear_arith)
            requires e[i].first_chunk - e[i - 1].first_chunk >= 0, e[i - 1].samples_per_chunk >= 0;
    }
}

pub proof fn lemma_stsc_first_chunk_mono(e: Seq<StscEntry>, a: int, b: int)
    requires 0 <= a <= b < e.len(), forall|j: int| 0 < j < e.len() ==> #[trigger] stsc_strict_at(e, j)
    ensures e[a].first_chunk + (b - a) <= e[b].first_chunk
    decreases b - a
{
    if a < b { lemma_stsc_first_chunk_mono(e, a, b - 1); assert(stsc_strict_at(e, b)); }
}

/// the chunk of a sample of run i is an existing chunk (1..=C)
pub proof fn lemma_chunk_in_range(s: StblBox, i: int, k: int)
    requires stbl_consistent(s), stsc_run_of(s.stsc.entries@, i, k), 1 <= k <= s.stsz.sample_count
    ensures 1 <= stsc_chunk_of(s.stsc.entries@, i, k) <= chunk_count_iso(s),
            stsc_chunk_of(s.stsc.entries@, i, k) <= 0xffff_ffff,
            1 <= stsc_first_in_chunk(s.stsc.entries@, i, k) <= k,
            k - stsc_first_in_chunk(s.stsc.entries@, i, k) < s.stsc.entries@[i].samples_per_chunk
{
    let e = s.stsc.entries@;
    let last = e.len() - 1;
    let c = chunk_count_iso(s);
    let spc = e[i].samples_per_chunk as int;
    let fs = stsc_first_sample(e, i);
    let d = k - fs;
    assert forall|j: int| 0 < j < e.len() implies #[trigger] stsc_mono_at(e, j) by { assert(stsc_strict_at(e, j)); }
    lemma_stsc_first_sample_pos(e, i);
    lemma_stsc_first_chunk_mono(e, 0, i);
    lemma_stsc_first_chunk_mono(e, i, last);
    if i < last { lemma_stsc_first_chunk_mono(e, i + 1, last); }
    assert(c <= 0xffff_ffff);
    assert(e[i].samples_per_chunk >= 1);
    assert(d / spc >= 0 && d % spc >= 0 && d % spc < spc && d % spc <= d && d == spc * (d / spc) + d % spc) by(nonlinear_arith)
        requires d >= 0, spc >= 1;
    if i < last {
        let m = e[i + 1].first_chunk - e[i].first_chunk;
        assert(stsc_first_sample(e, i + 1) == fs + m * spc);
        assert(d / spc < m) by(nonlinear_arith) requires d < m * spc, spc >= 1, d >= 0, d == spc * (d / spc) + d % spc, d % spc >= 0;
    } else {
        let m = c + 1 - e[last].first_chunk;
        assert(d / spc < m) by(nonlinear_arith) requires d < m * spc, spc >= 1, d >= 0, d == spc * (d / spc) + d % spc, d % spc >= 0;
    }
}

/// a sample id past the count maps to a chunk past the chunk table (so the lookup cannot succeed)
pub proof fn lemma_chunk_beyond(s: StblBox, i: int, k: int)
    requires stbl_consistent(s), s.stsc.entries@.len() > 0, i == s.stsc.entries@.len() - 1,
             k > s.stsz.sample_count, stsc_first_sample(s.stsc.entries@, i) <= k
    ensures stsc_chunk_of(s.stsc.entries@, i, k) > chunk_count_iso(s)
{
    let e = s.stsc.entries@;
    let c = chunk_count_iso(s);
    let spc = e[i].samples_per_chunk as int;
    let fs = stsc_first_sample(e, i);
    let d = k - fs;
    let m = c + 1 - e[i].first_chunk;
    assert(e[i].samples_per_chunk >= 1);
    assert(d >= m * spc);
    assert(d / spc >= m) by(nonlinear_arith) requires d >= m * spc, spc >= 1, m >= 0;
}

/// the complete ISO answer for sample k of a consistent non-fragmented track
pub open spec fn sample_iso(s: StblBox, d: Seq<u8>, k: int, m: Mp4Sample) -> bool {
    let z = s.stsz;
    exists|ri: int, ti: int| #![trigger stsc_run_of(s.stsc.entries@, ri, k), stts_covers(s.stts.entries@, ti, k)]
        stsc_run_of(s.stsc.entries@, ri, k) && stts_covers(s.stts.entries@, ti, k)
        && sample_offset_iso(s, ri, k) + stsz_size_of(z, k) <= d.len()
        && m.bytes@ == d.subrange(sample_offset_iso(s, ri, k), sample_offset_iso(s, ri, k) + stsz_size_of(z, k))
        && m.start_time == stts_time_in(s.stts.entries@, ti, k)
        && m.duration == s.stts.entries@[ti].sample_delta
        && (s.ctts is None ==> m.rendering_offset == 0)
        && (s.ctts matches Some(c) ==> forall|ci: int| ctts_covers(c.entries@, ci, k) ==> m.rendering_offset == c.entries@[ci].sample_offset)
        && (s.stss is None ==> m.is_sync)
        && (s.stss matches Some(y) ==> m.is_sync == y.entries@.contains(k as u32))
}

/// the first sample of every run of a consistent chunk map is at most n (no run starts past the end ... unless empty)
pub proof fn lemma_first_sample_le_n(s: StblBox, i: int)
    requires stbl_consistent(s), 0 < i < s.stsc.entries@.len()
    ensures stsc_first_sample(s.stsc.entries@, i) <= s.stsz.sample_count + 1
    decreases s.stsc.entries@.len() - i
{
    let e = s.stsc.entries@;
    let last = e.len() - 1;
    let c = chunk_count_iso(s);
    if i == last {
        let m = c + 1 - e[last].first_chunk;
        assert(m * e[last].samples_per_chunk >= 0) by(nonlinear_arith) requires m >= 1, e[last].samples_per_chunk >= 1;
    } else {
        lemma_first_sample_le_n(s, i + 1);
        assert(stsc_strict_at(e, i + 1));
        assert((e[i + 1].first_chunk - e[i].first_chunk) * e[i].samples_per_chunk >= 0) by(nonlinear_arith)
            requires e[i + 1].first_chunk - e[i].first_chunk >= 1, e[i].samples_per_chunk >= 1;
    }
}

pub proof fn lemma_stts_cover_exists(e: Seq<SttsEntry>, n: int, k: int)
    requires 0 <= n <= e.len(), 1 <= k <= stts_total(e, n)
    ensures exists|i: int| stts_covers(e, i, k)
    decreases n
{
    if n > 0 {
        if k > stts_total(e, n - 1) {
            assert(stts_covers(e, n - 1, k));
        } else {
            lemma_stts_cover_exists(e, n - 1, k);
        }
    }
}

/// representation invariant of Mp4Reader: established by read_header / read_fragment_header, preserved by every method
pub open spec fn reader_wf<R>(m: Mp4Reader<R>) -> bool {
    forall|id: u32| #[trigger] m.tracks@.contains_key(id) ==> track_parsed(m.tracks@[id])
}

pub open spec fn reader_frag_count_ok<R>(m: Mp4Reader<R>) -> bool {
    forall|id: u32| #[trigger] m.tracks@.contains_key(id) ==> frag_count_ok(m.tracks@[id])
}

pub open spec fn trak_parsed(t: TrakBox) -> bool { stbl_parsed(t.mdia.minf.stbl) && tkhd_rd_wire(t.tkhd) }
pub open spec fn opt_tkhd_ok(o: Option<TkhdBox>) -> bool { o matches Some(x) ==> tkhd_rd_wire(x) }

pub open spec fn moov_parsed(m: MoovBox) -> bool {
    forall|i: int| 0 <= i < m.traks@.len() ==> trak_parsed(#[trigger] m.traks@[i])
}

pub open spec fn moofs_parsed(ms: Seq<MoofBox>) -> bool {
    forall|i: int| 0 <= i < ms.len() ==> trafs_parsed((#[trigger] ms[i]).trafs@)
}

// typed wrappers: a loop invariant over `let mut x = None;` cannot field-access x before rustc has inferred its type
pub open spec fn opt_stsc_ok(o: Option<StscBox>) -> bool { o matches Some(x) ==> stsc_derived_ok(x.entries@, x.entries@.len() as int) }
pub open spec fn opt_stsz_ok(o: Option<StszBox>) -> bool { o matches Some(x) ==> stsz_fields_wire(x) }
pub open spec fn opt_stco_ok(o: Option<StcoBox>) -> bool { o matches Some(x) ==> stco_fields_wire(x) }
pub open spec fn opt_co64_ok(o: Option<Co64Box>) -> bool { o matches Some(x) ==> co64_fields_wire(x) }
pub open spec fn opt_stbl_ok(o: Option<StblBox>) -> bool { o matches Some(x) ==> stbl_parsed(x) }
pub open spec fn opt_minf_ok(o: Option<MinfBox>) -> bool { o matches Some(x) ==> stbl_parsed(x.stbl) }
pub open spec fn opt_mdia_ok(o: Option<MdiaBox>) -> bool { o matches Some(x) ==> stbl_parsed(x.minf.stbl) }
pub open spec fn opt_trun_ok(o: Option<TrunBox>) -> bool { o matches Some(x) ==> trun_parsed(x) }
pub open spec fn traks_ok(v: Seq<TrakBox>) -> bool { forall|i: int| 0 <= i < v.len() ==> trak_parsed(#[trigger] v[i]) }
pub open spec fn opt_moov_ok(o: Option<MoovBox>) -> bool { o matches Some(x) ==> moov_parsed(x) }

/// movie-level default sample duration (trex, 8.8.3) reaches every track that has fragments
pub open spec fn frag_defaults_ok<R>(m: Mp4Reader<R>) -> bool {
    forall|id: u32| #[trigger] m.tracks@.contains_key(id) && m.tracks@[id].trafs@.len() > 0
        ==> m.tracks@[id].default_sample_duration == (match m.moov.mvex { Some(x) => x.trex.default_sample_duration, None => 0u32 })
}
