// SPEC LIBRARY: ISO/IEC 14496-12 sample-table semantics over sequences (sections 8.6.1.2, 8.6.1.3, 8.6.2, 8.7.3-8.7.5).
// Shares no text with /repo: this is the "independent reader" the lookup functions are proved against.

// ---------------------------------------------------------------- stsc (8.7.4): runs of chunks
// Entry i describes chunks first_chunk[i] .. first_chunk[i+1]-1, each holding samples_per_chunk[i] samples.
// The first sample of run i therefore is 1 + sum_{j<i} (first_chunk[j+1]-first_chunk[j]) * samples_per_chunk[j].
pub open spec fn stsc_first_sample(e: Seq<StscEntry>, i: int) -> int
    decreases i
{
    if i <= 0 { 1 } else {
        stsc_first_sample(e, i - 1) + (e[i].first_chunk - e[i - 1].first_chunk) * e[i - 1].samples_per_chunk
    }
}

/// what the reader derives and stores in `first_sample` (a cache of the formula above), with first_chunk non-decreasing
pub open spec fn stsc_derived_ok(e: Seq<StscEntry>, n: int) -> bool {
    &&& forall|i: int| 0 <= i < n ==> (#[trigger] e[i]).first_sample == stsc_first_sample(e, i)
    &&& forall|i: int| 0 < i < n ==> #[trigger] stsc_mono_at(e, i)
}

/// first_chunk does not decrease from run i-1 to run i
pub open spec fn stsc_mono_at(e: Seq<StscEntry>, i: int) -> bool { e[i - 1].first_chunk <= e[i].first_chunk }

pub open spec fn stsc_same_wire(a: Seq<StscEntry>, b: Seq<StscEntry>) -> bool {
    a.len() == b.len() && forall|j: int| 0 <= j < a.len() ==> (#[trigger] a[j]).first_chunk == b[j].first_chunk
        && a[j].samples_per_chunk == b[j].samples_per_chunk && a[j].sample_description_index == b[j].sample_description_index
}

pub proof fn lemma_stsc_first_sample_congr(a: Seq<StscEntry>, b: Seq<StscEntry>, i: int)
    requires stsc_same_wire(a, b), 0 <= i < a.len()
    ensures stsc_first_sample(a, i) == stsc_first_sample(b, i)
    decreases i
{
    if i > 0 {
        lemma_stsc_first_sample_congr(a, b, i - 1);
        assert(a[i].first_chunk == b[i].first_chunk);
        assert(a[i - 1].first_chunk == b[i - 1].first_chunk);
    }
}
