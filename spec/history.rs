// SPEC LIBRARY: abstract view of the muxer (C01, C02, C13).  A track under construction is the sequence of samples
// written to it so far; the run-length tables it keeps are views of that sequence.  The views are the ISO expansions
// of the tables (spec/tables.rs), so `wf` below is literally "the tables are mutually consistent" (C02) and the
// read-back lemmas at the end connect the views to what the ISO lookup of C03 returns (C01).

pub open spec fn repeat_u32(v: u32, c: int) -> Seq<u32> { Seq::new(if c < 0 { 0nat } else { c as nat }, |i: int| v) }
pub open spec fn repeat_i32(v: i32, c: int) -> Seq<i32> { Seq::new(if c < 0 { 0nat } else { c as nat }, |i: int| v) }

/// per-sample deltas encoded by the first n runs of a time-to-sample table
pub open spec fn stts_expand(e: Seq<SttsEntry>, n: int) -> Seq<u32>
    decreases n
{
    if n <= 0 { Seq::<u32>::empty() } else { stts_expand(e, n - 1) + repeat_u32(e[n - 1].sample_delta, e[n - 1].sample_count as int) }
}

pub open spec fn ctts_expand(e: Seq<CttsEntry>, n: int) -> Seq<i32>
    decreases n
{
    if n <= 0 { Seq::<i32>::empty() } else { ctts_expand(e, n - 1) + repeat_i32(e[n - 1].sample_offset, e[n - 1].sample_count as int) }
}

pub open spec fn view_durs(s: StblBox) -> Seq<u32> { stts_expand(s.stts.entries@, s.stts.entries@.len() as int) }

/// composition offsets: absent table = all zero
pub open spec fn view_cts(s: StblBox, n: int) -> Seq<i32> {
    match s.ctts { Some(c) => ctts_expand(c.entries@, c.entries@.len() as int), None => repeat_i32(0, n) }
}

pub open spec fn view_sizes(s: StblBox) -> Seq<u32> { view_sizes_z(s.stsz) }

/// sync flags: ISO 8.6.2: absent table = every sample is a sync sample
pub open spec fn view_sync(s: StblBox, n: int) -> Seq<bool> {
    match s.stss { Some(y) => Seq::new(n as nat, |i: int| y.entries@.contains((i + 1) as u32)), None => Seq::new(n as nat, |i: int| true) }
}

pub proof fn lemma_stts_expand_len(e: Seq<SttsEntry>, n: int)
    requires 0 <= n <= e.len()
    ensures stts_expand(e, n).len() == stts_total(e, n)
    decreases n
{
    if n > 0 { lemma_stts_expand_len(e, n - 1); }
}

pub proof fn lemma_ctts_expand_len(e: Seq<CttsEntry>, n: int)
    requires 0 <= n <= e.len()
    ensures ctts_expand(e, n).len() == ctts_total(e, n)
    decreases n
{
    if n > 0 { lemma_ctts_expand_len(e, n - 1); }
}

/// prefix stability: the expansion of the first n runs does not depend on later runs
pub proof fn lemma_stts_expand_prefix(a: Seq<SttsEntry>, b: Seq<SttsEntry>, n: int)
    requires 0 <= n <= a.len(), n <= b.len(), forall|j: int| 0 <= j < n ==> a[j] == b[j]
    ensures stts_expand(a, n) == stts_expand(b, n), stts_total(a, n) == stts_total(b, n), stts_elapsed(a, n) == stts_elapsed(b, n)
    decreases n
{
    if n > 0 { lemma_stts_expand_prefix(a, b, n - 1); }
}

pub proof fn lemma_ctts_expand_prefix(a: Seq<CttsEntry>, b: Seq<CttsEntry>, n: int)
    requires 0 <= n <= a.len(), n <= b.len(), forall|j: int| 0 <= j < n ==> a[j] == b[j]
    ensures ctts_expand(a, n) == ctts_expand(b, n), ctts_total(a, n) == ctts_total(b, n)
    decreases n
{
    if n > 0 { lemma_ctts_expand_prefix(a, b, n - 1); }
}

// ---------------------------------------------------------------- the track writer's representation invariant
pub open spec fn tw_stbl(w: Mp4TrackWriter) -> StblBox { w.trak.mdia.minf.stbl }

/// number of samples written so far
pub open spec fn tw_n(w: Mp4TrackWriter) -> int { w.sample_id - 1 }

/// samples already placed in a chunk (the rest is buffered)
pub open spec fn tw_flushed(w: Mp4TrackWriter) -> int { tw_n(w) - w.chunk_samples }

pub open spec fn stts_runs_nonempty(e: Seq<SttsEntry>) -> bool { forall|j: int| 0 <= j < e.len() ==> (#[trigger] e[j]).sample_count >= 1 }
pub open spec fn ctts_runs_nonempty(e: Seq<CttsEntry>) -> bool { forall|j: int| 0 <= j < e.len() ==> (#[trigger] e[j]).sample_count >= 1 }

/// chunk map of the writer: runs start at chunk 1, strictly increasing first chunks, positive run lengths, at least one sample per
/// chunk, and the chunks hold exactly `flushed` samples.  (The cached `first_sample` fields are not part of it: they are not
/// written to the file and the reader re-derives them.)
pub open spec fn chunk_map_ok(s: StblBox, flushed: int) -> bool {
    let sc = s.stsc.entries@;
    let c = chunk_count_iso(s);
    &&& s.co64 is Some && s.stco is None
    &&& 0 <= c <= flushed
    &&& (forall|i: int| 0 <= i < sc.len() ==> (#[trigger] sc[i]).samples_per_chunk >= 1 && sc[i].sample_description_index == 1)
    &&& (forall|i: int| 0 < i < sc.len() ==> #[trigger] stsc_strict_at(sc, i))
    &&& (sc.len() == 0 ==> c == 0 && flushed == 0)
    &&& (sc.len() > 0 ==> sc[0].first_chunk == 1 && last_chunk_ok(s, flushed))
}

/// samples recorded in the tables (the size table is updated first on every write)
pub open spec fn tw_m(w: Mp4TrackWriter) -> int { tw_stbl(w).stsz.sample_count as int }

/// the part of the invariant that every step of write_sample relies on and re-establishes
pub open spec fn tw_tables_ok(w: Mp4TrackWriter, n: int) -> bool {
    let s = tw_stbl(w);
    &&& s.stsz.sample_count == n
    &&& stsz_fields_wire_core(s.stsz)
    &&& (s.stsz.sample_size > 0 ==> w.is_fixed_sample_size && w.fixed_sample_size == s.stsz.sample_size)
    &&& (s.stsz.sample_size == 0 && n > 0 ==> !w.is_fixed_sample_size)
    &&& stts_total(s.stts.entries@, s.stts.entries@.len() as int) == n
    &&& stts_runs_nonempty(s.stts.entries@)
    &&& w.trak.mdia.mdhd.duration == stts_elapsed(s.stts.entries@, s.stts.entries@.len() as int)
    &&& (s.ctts matches Some(c) ==> ctts_total(c.entries@, c.entries@.len() as int) == n && ctts_runs_nonempty(c.entries@))
    &&& (s.stss matches Some(y) ==> sorted_strict(y.entries@) && forall|j: int| 0 <= j < y.entries@.len() ==> 1 <= #[trigger] y.entries@[j] <= n)
    &&& (n > 0 ==> s.stss is Some)
}

pub open spec fn tw_chunks_ok(w: Mp4TrackWriter) -> bool {
    let s = tw_stbl(w);
    &&& 0 <= w.chunk_samples <= tw_m(w)
    &&& chunk_map_ok(s, tw_m(w) - w.chunk_samples)
    &&& w.chunk_buffer@.len() == stsz_sum(s.stsz, tw_m(w) - w.chunk_samples + 1, tw_m(w) + 1)
}

/// header fields that must follow the durations (C13: version 1 as soon as a duration needs 64 bits)
pub open spec fn tw_headers_ok(w: Mp4TrackWriter) -> bool {
    &&& w.trak.mdia.mdhd.timescale >= 1
    &&& (w.trak.mdia.mdhd.duration > 0xffff_ffff ==> w.trak.mdia.mdhd.version == 1)
    &&& (w.trak.tkhd.duration > 0xffff_ffff ==> w.trak.tkhd.version == 1)
}

/// representation invariant between API calls: n = sample_id - 1 samples written
pub open spec fn tw_wf(w: Mp4TrackWriter) -> bool {
    &&& 1 <= w.sample_id
    &&& tw_tables_ok(w, tw_n(w))
    &&& tw_chunks_ok(w)
    &&& tw_headers_ok(w)
    &&& trak_fw(w.trak)
}

pub open spec fn stsz_fields_wire_core(b: StszBox) -> bool {
    &&& (b.sample_size == 0 ==> b.sample_sizes@.len() == b.sample_count)
    &&& (b.sample_size != 0 ==> b.sample_sizes@.len() == 0)
}

// ---------------------------------------------------------------- frame predicates ("nothing else changed")
pub open spec fn tw_with_stbl(a: Mp4TrackWriter, s: StblBox) -> Mp4TrackWriter {
    Mp4TrackWriter {
        trak: TrakBox { mdia: MdiaBox { minf: MinfBox { stbl: s, ..a.trak.mdia.minf }, ..a.trak.mdia }, ..a.trak },
        ..a
    }
}

pub open spec fn tw_frame_but_stsz_core(a: Mp4TrackWriter, b: Mp4TrackWriter) -> bool {
    &&& b == Mp4TrackWriter { fixed_sample_size: b.fixed_sample_size, is_fixed_sample_size: b.is_fixed_sample_size,
                          ..tw_with_stbl(a, StblBox { stsz: tw_stbl(b).stsz, ..tw_stbl(a) }) }
    &&& tw_stbl(b).stsz.flags == tw_stbl(a).stsz.flags
}
pub open spec fn tw_frame_but_stsz(a: Mp4TrackWriter, b: Mp4TrackWriter) -> bool {
    &&& tw_frame_but_stsz_core(a, b)
    &&& (tables_fw(tw_stbl(a)) ==> tables_fw(tw_stbl(b)))
}

pub open spec fn tw_frame_but_stts(a: Mp4TrackWriter, b: Mp4TrackWriter) -> bool {
    &&& b == tw_with_stbl(a, StblBox { stts: tw_stbl(b).stts, ..tw_stbl(a) })
    &&& (tables_fw(tw_stbl(a)) ==> tables_fw(tw_stbl(b)))
}

pub open spec fn tw_frame_but_ctts(a: Mp4TrackWriter, b: Mp4TrackWriter) -> bool {
    &&& b == tw_with_stbl(a, StblBox { ctts: tw_stbl(b).ctts, ..tw_stbl(a) })
    &&& (tables_fw(tw_stbl(a)) ==> tables_fw(tw_stbl(b)))
}

pub open spec fn tw_frame_but_stss(a: Mp4TrackWriter, b: Mp4TrackWriter) -> bool {
    &&& b == tw_with_stbl(a, StblBox { stss: tw_stbl(b).stss, ..tw_stbl(a) })
    &&& (tables_fw(tw_stbl(a)) ==> tables_fw(tw_stbl(b)))
}

pub open spec fn tw_frame_but_stsc(a: Mp4TrackWriter, b: Mp4TrackWriter) -> bool {
    &&& b == tw_with_stbl(a, StblBox { stsc: tw_stbl(b).stsc, ..tw_stbl(a) })
    &&& (tables_fw(tw_stbl(a)) ==> tables_fw(tw_stbl(b)))
}

pub open spec fn tw_frame_but_co64(a: Mp4TrackWriter, b: Mp4TrackWriter) -> bool {
    &&& b == tw_with_stbl(a, StblBox { co64: tw_stbl(b).co64, ..tw_stbl(a) })
    &&& (tables_fw(tw_stbl(a)) ==> tables_fw(tw_stbl(b)))
}

/// durations live in mdhd / tkhd (and their version bytes)
pub open spec fn tw_frame_but_durations(a: Mp4TrackWriter, b: Mp4TrackWriter) -> bool {
    b == Mp4TrackWriter {
        trak: TrakBox {
            tkhd: TkhdBox { duration: b.trak.tkhd.duration, version: b.trak.tkhd.version, ..a.trak.tkhd },
            mdia: MdiaBox { mdhd: MdhdBox { duration: b.trak.mdia.mdhd.duration, version: b.trak.mdia.mdhd.version, ..a.trak.mdia.mdhd }, ..a.trak.mdia },
            ..a.trak
        },
        ..a
    }
}

// ---------------------------------------------------------------- run-length update lemmas (push a new run / lengthen the last run)
pub proof fn lemma_repeat_u32_push(v: u32, c: int)
    requires c >= 0
    ensures repeat_u32(v, c + 1) == repeat_u32(v, c).push(v)
{
    assert(repeat_u32(v, c + 1) =~= repeat_u32(v, c).push(v));
}

pub proof fn lemma_repeat_i32_push(v: i32, c: int)
    requires c >= 0
    ensures repeat_i32(v, c + 1) == repeat_i32(v, c).push(v)
{
    assert(repeat_i32(v, c + 1) =~= repeat_i32(v, c).push(v));
}

pub proof fn lemma_stts_push_run(e: Seq<SttsEntry>, f: Seq<SttsEntry>, d: u32)
    requires f.len() == e.len() + 1, forall|j: int| 0 <= j < e.len() ==> f[j] == e[j],
             f[e.len() as int].sample_count == 1, f[e.len() as int].sample_delta == d, stts_runs_nonempty(e)
    ensures stts_expand(f, f.len() as int) == stts_expand(e, e.len() as int).push(d),
            stts_total(f, f.len() as int) == stts_total(e, e.len() as int) + 1,
            stts_elapsed(f, f.len() as int) == stts_elapsed(e, e.len() as int) + d,
            stts_runs_nonempty(f)
{
    lemma_stts_expand_prefix(f, e, e.len() as int);
    assert(repeat_u32(d, 1) =~= seq![d]);
    assert(stts_expand(e, e.len() as int) + seq![d] =~= stts_expand(e, e.len() as int).push(d));
}

pub proof fn lemma_stts_bump_last(e: Seq<SttsEntry>, f: Seq<SttsEntry>)
    requires e.len() >= 1, f.len() == e.len(), forall|j: int| 0 <= j < e.len() - 1 ==> f[j] == e[j],
             f[e.len() - 1].sample_delta == e[e.len() - 1].sample_delta, f[e.len() - 1].sample_count == e[e.len() - 1].sample_count + 1,
             stts_runs_nonempty(e)
    ensures stts_expand(f, f.len() as int) == stts_expand(e, e.len() as int).push(e[e.len() - 1].sample_delta),
            stts_total(f, f.len() as int) == stts_total(e, e.len() as int) + 1,
            stts_elapsed(f, f.len() as int) == stts_elapsed(e, e.len() as int) + e[e.len() - 1].sample_delta,
            stts_runs_nonempty(f)
{
    let last = e.len() - 1;
    lemma_stts_expand_prefix(f, e, last);
    lemma_repeat_u32_push(e[last].sample_delta, e[last].sample_count as int);
    let a = stts_expand(e, last);
    let r = repeat_u32(e[last].sample_delta, e[last].sample_count as int);
    assert(a + r.push(e[last].sample_delta) =~= (a + r).push(e[last].sample_delta));
    assert((e[last].sample_count + 1) * e[last].sample_delta == e[last].sample_count * e[last].sample_delta + e[last].sample_delta) by(nonlinear_arith);
}

pub proof fn lemma_ctts_push_run(e: Seq<CttsEntry>, f: Seq<CttsEntry>, d: i32)
    requires f.len() == e.len() + 1, forall|j: int| 0 <= j < e.len() ==> f[j] == e[j],
             f[e.len() as int].sample_count == 1, f[e.len() as int].sample_offset == d, ctts_runs_nonempty(e)
    ensures ctts_expand(f, f.len() as int) == ctts_expand(e, e.len() as int).push(d),
            ctts_total(f, f.len() as int) == ctts_total(e, e.len() as int) + 1,
            ctts_runs_nonempty(f)
{
    lemma_ctts_expand_prefix(f, e, e.len() as int);
    assert(repeat_i32(d, 1) =~= seq![d]);
    assert(ctts_expand(e, e.len() as int) + seq![d] =~= ctts_expand(e, e.len() as int).push(d));
}

pub proof fn lemma_ctts_bump_last(e: Seq<CttsEntry>, f: Seq<CttsEntry>)
    requires e.len() >= 1, f.len() == e.len(), forall|j: int| 0 <= j < e.len() - 1 ==> f[j] == e[j],
             f[e.len() - 1].sample_offset == e[e.len() - 1].sample_offset, f[e.len() - 1].sample_count == e[e.len() - 1].sample_count + 1,
             ctts_runs_nonempty(e)
    ensures ctts_expand(f, f.len() as int) == ctts_expand(e, e.len() as int).push(e[e.len() - 1].sample_offset),
            ctts_total(f, f.len() as int) == ctts_total(e, e.len() as int) + 1,
            ctts_runs_nonempty(f)
{
    let last = e.len() - 1;
    lemma_ctts_expand_prefix(f, e, last);
    lemma_repeat_i32_push(e[last].sample_offset, e[last].sample_count as int);
    let a = ctts_expand(e, last);
    let r = repeat_i32(e[last].sample_offset, e[last].sample_count as int);
    assert(a + r.push(e[last].sample_offset) =~= (a + r).push(e[last].sample_offset));
}

/// a fresh composition-offset table holding one zero run of n samples is the all-zero view
pub proof fn lemma_ctts_zero_run(e: Seq<CttsEntry>, n: int)
    requires n >= 0, (n == 0 ==> e.len() == 0), (n > 0 ==> e.len() == 1 && e[0].sample_count == n && e[0].sample_offset == 0)
    ensures ctts_expand(e, e.len() as int) == repeat_i32(0, n), ctts_total(e, e.len() as int) == n, ctts_runs_nonempty(e)
{
    reveal_with_fuel(ctts_expand, 3);
    reveal_with_fuel(ctts_total, 3);
    if n > 0 {
        assert(ctts_expand(e, 0) =~= Seq::<i32>::empty());
        assert(ctts_expand(e, 1) =~= repeat_i32(0, n));
    } else {
        assert(ctts_expand(e, 0) =~= repeat_i32(0, 0));
    }
}

/// appending a sync flag to the view
pub proof fn lemma_view_sync_push(y0: Option<StssBox>, y1: Seq<u32>, n: int, is_sync: bool, s0: StblBox, s1: StblBox)
    requires n >= 0, n < 0xffff_ffff, s0.stss == y0, s1.stss matches Some(b) && b.entries@ == y1,
             (y0 matches Some(b0) ==> (forall|j: int| 0 <= j < b0.entries@.len() ==> 1 <= #[trigger] b0.entries@[j] <= n)
                                  && y1 == (if is_sync { b0.entries@.push((n + 1) as u32) } else { b0.entries@ })),
             (y0 is None ==> n == 0 && (if is_sync { y1.len() == 1 && y1[0] == 1u32 } else { y1.len() == 0 }))
    ensures view_sync(s1, n + 1) == view_sync(s0, n).push(is_sync)
{
    let a = view_sync(s1, n + 1);
    let b = view_sync(s0, n).push(is_sync);
    assert(a.len() == b.len());
    assert forall|i: int| 0 <= i < n + 1 implies a[i] == b[i] by {
        match y0 {
            Some(b0) => {
                if i < n {
                    assert(b0.entries@.contains((i + 1) as u32) <==> y1.contains((i + 1) as u32)) by {
                        if is_sync {
                            if y1.contains((i + 1) as u32) {
                                let k = choose|k: int| 0 <= k < y1.len() && y1[k] == (i + 1) as u32;
                                assert(k < b0.entries@.len());
                                assert(b0.entries@[k] == (i + 1) as u32);
                            }
                            if b0.entries@.contains((i + 1) as u32) {
                                let k = choose|k: int| 0 <= k < b0.entries@.len() && b0.entries@[k] == (i + 1) as u32;
                                assert(y1[k] == (i + 1) as u32);
                            }
                        }
                    }
                } else {
                    if is_sync {
                        assert(y1[y1.len() - 1] == (n + 1) as u32);
                    } else {
                        if y1.contains((n + 1) as u32) {
                            let k = choose|k: int| 0 <= k < y1.len() && y1[k] == (n + 1) as u32;
                            assert(b0.entries@[k] <= n);
                        }
                    }
                }
            }
            None => {
                if is_sync { assert(y1[0] == 1u32); }
            }
        }
    }
    assert(a =~= b);
}

// broadcast forms (so that no proof text has to sit inside the borrow scopes of the real code)
pub broadcast proof fn lemma_stts_push_run_b(e: Seq<SttsEntry>, f: Seq<SttsEntry>)
    requires f.len() == e.len() + 1, forall|j: int| 0 <= j < e.len() ==> f[j] == e[j],
             f[e.len() as int].sample_count == 1, stts_runs_nonempty(e)
    ensures #![trigger stts_expand(f, f.len() as int), stts_expand(e, e.len() as int)]
            stts_expand(f, f.len() as int) == stts_expand(e, e.len() as int).push(f[e.len() as int].sample_delta),
            stts_total(f, f.len() as int) == stts_total(e, e.len() as int) + 1,
            stts_elapsed(f, f.len() as int) == stts_elapsed(e, e.len() as int) + f[e.len() as int].sample_delta,
            stts_runs_nonempty(f)
{
    lemma_stts_push_run(e, f, f[e.len() as int].sample_delta);
}

pub broadcast proof fn lemma_stts_bump_last_b(e: Seq<SttsEntry>, f: Seq<SttsEntry>)
    requires e.len() >= 1, f.len() == e.len(), forall|j: int| 0 <= j < e.len() - 1 ==> f[j] == e[j],
             f[e.len() - 1].sample_delta == e[e.len() - 1].sample_delta, f[e.len() - 1].sample_count == e[e.len() - 1].sample_count + 1,
             stts_runs_nonempty(e)
    ensures #![trigger stts_expand(f, f.len() as int), stts_expand(e, e.len() as int)]
            stts_expand(f, f.len() as int) == stts_expand(e, e.len() as int).push(e[e.len() - 1].sample_delta),
            stts_total(f, f.len() as int) == stts_total(e, e.len() as int) + 1,
            stts_elapsed(f, f.len() as int) == stts_elapsed(e, e.len() as int) + e[e.len() - 1].sample_delta,
            stts_runs_nonempty(f)
{
    lemma_stts_bump_last(e, f);
}

pub broadcast proof fn lemma_ctts_push_run_b(e: Seq<CttsEntry>, f: Seq<CttsEntry>)
    requires f.len() == e.len() + 1, forall|j: int| 0 <= j < e.len() ==> f[j] == e[j],
             f[e.len() as int].sample_count == 1, ctts_runs_nonempty(e)
    ensures #![trigger ctts_expand(f, f.len() as int), ctts_expand(e, e.len() as int)]
            ctts_expand(f, f.len() as int) == ctts_expand(e, e.len() as int).push(f[e.len() as int].sample_offset),
            ctts_total(f, f.len() as int) == ctts_total(e, e.len() as int) + 1,
            ctts_runs_nonempty(f)
{
    lemma_ctts_push_run(e, f, f[e.len() as int].sample_offset);
}

pub broadcast proof fn lemma_ctts_bump_last_b(e: Seq<CttsEntry>, f: Seq<CttsEntry>)
    requires e.len() >= 1, f.len() == e.len(), forall|j: int| 0 <= j < e.len() - 1 ==> f[j] == e[j],
             f[e.len() - 1].sample_offset == e[e.len() - 1].sample_offset, f[e.len() - 1].sample_count == e[e.len() - 1].sample_count + 1,
             ctts_runs_nonempty(e)
    ensures #![trigger ctts_expand(f, f.len() as int), ctts_expand(e, e.len() as int)]
            ctts_expand(f, f.len() as int) == ctts_expand(e, e.len() as int).push(e[e.len() - 1].sample_offset),
            ctts_total(f, f.len() as int) == ctts_total(e, e.len() as int) + 1,
            ctts_runs_nonempty(f)
{
    lemma_ctts_bump_last(e, f);
}


pub proof fn lemma_stts_last_le_total(e: Seq<SttsEntry>)
    requires e.len() >= 1
    ensures e[e.len() - 1].sample_count <= stts_total(e, e.len() as int)
{
    lemma_stts_elapsed_bound(e, e.len() - 1);
}

pub proof fn lemma_ctts_last_le_total(e: Seq<CttsEntry>)
    requires e.len() >= 1
    ensures e[e.len() - 1].sample_count <= ctts_total(e, e.len() as int)
{
    lemma_ctts_total_mono(e, 0, e.len() - 1);
}

pub broadcast proof fn lemma_ctts_zero_run_b(e: Seq<CttsEntry>)
    requires e.len() <= 1, (e.len() == 1 ==> e[0].sample_offset == 0 && e[0].sample_count >= 1)
    ensures #![trigger ctts_expand(e, e.len() as int)]
            ctts_expand(e, e.len() as int) == repeat_i32(0, ctts_total(e, e.len() as int)), ctts_runs_nonempty(e),
            ctts_total(e, e.len() as int) == (if e.len() == 1 { e[0].sample_count as int } else { 0 })
{
    reveal_with_fuel(ctts_total, 3);
    lemma_ctts_zero_run(e, ctts_total(e, e.len() as int));
}

pub broadcast proof fn lemma_repeat_i32_push_b(v: i32, c: int)
    requires c >= 0
    ensures #[trigger] repeat_i32(v, c).push(v) == repeat_i32(v, c + 1)
{
    lemma_repeat_i32_push(v, c);
}

pub broadcast group group_runs {
    lemma_ctts_zero_run_b,
    lemma_repeat_i32_push_b,
    lemma_stts_push_run_b,
    lemma_stts_bump_last_b,
    lemma_ctts_push_run_b,
    lemma_ctts_bump_last_b,
}

/// duration in movie ticks of d media ticks (14496-12 8.3.2: tkhd.duration is in the movie timescale): floor, saturated to 64 bits
pub open spec fn movie_ticks(d: u64, movie_ts: u32, ts: u32) -> u64 {
    let q = (d as int * movie_ts as int) / (ts as int);
    if q > 0xffff_ffff_ffff_ffff { 0xffff_ffff_ffff_ffffu64 } else { q as u64 }
}

pub proof fn lemma_movie_ticks_zero(mts: u32, ts: u32)
    requires ts >= 1
    ensures movie_ticks(0, mts, ts) == 0
{
    assert(0int * (mts as int) == 0) by(nonlinear_arith);
    assert(0int / (ts as int) == 0) by(nonlinear_arith) requires ts >= 1;
}

/// the chunk map of b is the chunk map of a plus one more chunk holding `cs` samples (a held `flushed` samples), and the
/// offset table is not touched
pub open spec fn stsc_adds_chunk(a: StblBox, b: StblBox, cs: int, flushed: int) -> bool {
    let sa = a.stsc.entries@;
    let sb = b.stsc.entries@;
    let c = chunk_count_iso(a);
    &&& b.stsc.version == a.stsc.version && b.stsc.flags == a.stsc.flags
    &&& if sa.len() > 0 && sa[sa.len() - 1].samples_per_chunk == cs {
            sb == sa
        } else {
            sb.len() == sa.len() + 1 && (forall|j: int| 0 <= j < sa.len() ==> sb[j] == sa[j])
            && sb[sa.len() as int].first_chunk == c + 1 && sb[sa.len() as int].samples_per_chunk == cs
            && sb[sa.len() as int].sample_description_index == 1
        }
}

/// adding chunk C+1 with cs >= 1 samples to a good chunk map of `flushed` samples gives a good chunk map of flushed + cs samples
pub proof fn lemma_chunk_map_step(a: StblBox, b: StblBox, cs: int, flushed: int, off: u64)
    requires chunk_map_ok(a, flushed), cs >= 1, stsc_adds_chunk(a, b, cs, flushed),
             b.co64 is Some && b.stco is None && b.co64->Some_0.entries@ == a.co64->Some_0.entries@.push(off),
             chunk_count_iso(a) < 0xffff_ffff
    ensures chunk_map_ok(b, flushed + cs)
{
    let sa = a.stsc.entries@;
    let sb = b.stsc.entries@;
    let c = chunk_count_iso(a);
    assert(chunk_count_iso(b) == c + 1);
    if sa.len() > 0 && sa[sa.len() - 1].samples_per_chunk == cs {
        let last = sa.len() - 1;
        assert((c + 2 - sa[last].first_chunk) * sa[last].samples_per_chunk
            == (c + 1 - sa[last].first_chunk) * sa[last].samples_per_chunk + sa[last].samples_per_chunk) by(nonlinear_arith);
    } else {
        let nl = sa.len() as int;
        assert forall|i: int| 0 < i < sb.len() implies #[trigger] stsc_strict_at(sb, i) by {
            if i < nl { assert(stsc_strict_at(sa, i)); }
        }
        assert forall|i: int| 0 <= i < sb.len() implies (#[trigger] sb[i]).samples_per_chunk >= 1 && sb[i].sample_description_index == 1 by {
            if i < nl { assert(sa[i].samples_per_chunk >= 1); }
        }
        if nl > 0 {
            assert forall|i: int| 0 <= i < nl implies stsc_first_sample(sb, i) == stsc_first_sample(sa, i) by {
                lemma_stsc_first_sample_prefix(sa, sb, i);
            }
            assert(stsc_first_sample(sb, nl) == stsc_first_sample(sb, nl - 1) + (sb[nl].first_chunk - sb[nl - 1].first_chunk) * sb[nl - 1].samples_per_chunk);
            assert((c + 2 - (c + 1)) * cs == cs) by(nonlinear_arith);
        } else {
            assert((c + 2 - (c + 1)) * cs == cs) by(nonlinear_arith);
        }
    }
}

pub proof fn lemma_stsc_first_sample_prefix(a: Seq<StscEntry>, b: Seq<StscEntry>, i: int)
    requires 0 <= i < a.len(), a.len() <= b.len(), forall|j: int| 0 <= j < a.len() ==> b[j] == a[j]
    ensures stsc_first_sample(b, i) == stsc_first_sample(a, i)
    decreases i
{
    if i > 0 { lemma_stsc_first_sample_prefix(a, b, i - 1); }
}

/// what write_chunk may touch besides the chunk tables: the chunk buffer and its counters
pub open spec fn tw_frame_chunk(a: Mp4TrackWriter, b: Mp4TrackWriter) -> bool {
    &&& b == Mp4TrackWriter { chunk_samples: b.chunk_samples, chunk_duration: b.chunk_duration, chunk_buffer: b.chunk_buffer,
                          ..tw_with_stbl(a, StblBox { stsc: tw_stbl(b).stsc, co64: tw_stbl(b).co64, ..tw_stbl(a) }) }
    &&& (tables_fw(tw_stbl(a)) ==> tables_fw(tw_stbl(b)))
}

/// size of sample k through the view
pub proof fn lemma_size_of_view(z: StszBox, k: int)
    requires stsz_fields_wire_core(z), 1 <= k <= z.sample_count
    ensures stsz_size_of(z, k) == view_sizes_z(z)[k - 1], view_sizes_z(z).len() == z.sample_count
{
}

pub open spec fn view_sizes_z(z: StszBox) -> Seq<u32> {
    if z.sample_size > 0 { repeat_u32(z.sample_size, z.sample_count as int) } else { z.sample_sizes@ }
}

/// sums of sizes only depend on the view
pub proof fn lemma_stsz_sum_view(z1: StszBox, z2: StszBox, a: int, b: int)
    requires stsz_fields_wire_core(z1), stsz_fields_wire_core(z2), 1 <= a, b - 1 <= z1.sample_count, z1.sample_count <= z2.sample_count,
             forall|k: int| 0 <= k < z1.sample_count ==> view_sizes_z(z1)[k] == view_sizes_z(z2)[k]
    ensures stsz_sum(z1, a, b) == stsz_sum(z2, a, b)
    decreases b - a
{
    if b > a {
        lemma_stsz_sum_view(z1, z2, a, b - 1);
        lemma_size_of_view(z1, b - 1);
        lemma_size_of_view(z2, b - 1);
    }
}

/// appending a sample extends every pending-size sum by its size
pub proof fn lemma_stsz_sum_push(z1: StszBox, z2: StszBox, a: int, size: u32)
    requires stsz_fields_wire_core(z1), stsz_fields_wire_core(z2), 1 <= a <= z1.sample_count + 1, z2.sample_count == z1.sample_count + 1,
             view_sizes_z(z2) == view_sizes_z(z1).push(size)
    ensures stsz_sum(z2, a, z2.sample_count + 1) == stsz_sum(z1, a, z1.sample_count + 1) + size
{
    lemma_size_of_view(z2, z2.sample_count as int);
    assert forall|k: int| 0 <= k < z1.sample_count implies view_sizes_z(z1)[k] == view_sizes_z(z2)[k] by {
        lemma_size_of_view(z2, k + 1);
        if k < z1.sample_count { lemma_size_of_view(z1, k + 1); }
    }
    lemma_stsz_sum_view(z1, z2, a, z1.sample_count + 1);
}

// ---------------------------------------------------------------- what the finished track's tables guarantee (C02)
/// "the sample tables are mutually consistent: size, time-to-sample, composition-offset and sample-to-chunk tables each account
/// for exactly the n samples written, sync-sample numbers are strictly increasing and in range" -- over the wire fields only
pub open spec fn muxed_tables_consistent(s: StblBox, n: int) -> bool {
    let sc = s.stsc.entries@;
    &&& s.stsz.sample_count == n && stsz_fields_wire_core(s.stsz)
    &&& stts_total(s.stts.entries@, s.stts.entries@.len() as int) == n
    &&& (s.ctts matches Some(c) ==> ctts_total(c.entries@, c.entries@.len() as int) == n)
    &&& (s.stss matches Some(y) ==> sorted_strict(y.entries@) && forall|j: int| 0 <= j < y.entries@.len() ==> 1 <= #[trigger] y.entries@[j] <= n)
    &&& (n > 0 ==> s.stss is Some)
    &&& (s.stco is Some) != (s.co64 is Some)
    &&& (forall|i: int| 0 <= i < sc.len() ==> (#[trigger] sc[i]).samples_per_chunk >= 1)
    &&& (forall|i: int| 0 < i < sc.len() ==> #[trigger] stsc_strict_at(sc, i))
    &&& (sc.len() == 0 ==> chunk_count_iso(s) == 0 && n == 0)
    &&& (sc.len() > 0 ==> sc[0].first_chunk == 1 && last_chunk_ok(s, n))
}

/// the 32-bit offset table is a faithful narrowing of the 64-bit one (C13)
pub open spec fn stco_of_co64(a: StcoBox, c: Co64Box) -> bool {
    a.entries@.len() == c.entries@.len() && forall|i: int| 0 <= i < c.entries@.len() ==> (#[trigger] a.entries@[i]) as u64 == c.entries@[i]
}

pub open spec fn co64_fits_u32(c: Co64Box) -> bool {
    forall|i: int| 0 <= i < c.entries@.len() ==> #[trigger] c.entries@[i] <= 0xffff_ffff
}

/// chunk offsets after the final flush
pub open spec fn final_offsets(w: Mp4TrackWriter, pos: u64) -> Seq<u64> {
    if w.chunk_samples > 0 { tw_stbl(w).co64->Some_0.entries@.push(pos) } else { tw_stbl(w).co64->Some_0.entries@ }
}

pub open spec fn offsets_fit_u32(o: Seq<u64>) -> bool { forall|i: int| 0 <= i < o.len() ==> #[trigger] o[i] <= 0xffff_ffff }

// ---- hand-written counterparts of is_default_X for the structs whose Default impl is real code (proved by the impl's contract)
pub open spec fn is_manual_default_TkhdBox(v: TkhdBox) -> bool {
    v.version == 0 && v.duration == 0 && v.track_id == 0 && v.flags == 1 && v.creation_time == 0 && v.modification_time == 0
    && v.volume.0.denom == 0x100 && v.width.0.denom == 0x10000 && v.height.0.denom == 0x10000
}
pub open spec fn is_manual_default_MdhdBox(v: MdhdBox) -> bool {
    v.version == 0 && v.flags == 0 && v.duration == 0 && v.timescale == 1000 && v.creation_time == 0 && v.modification_time == 0
}
pub open spec fn is_manual_default_MvhdBox(v: MvhdBox) -> bool {
    v.version == 0 && v.flags == 0 && v.duration == 0 && v.timescale == 1000 && v.next_track_id == 1 && v.creation_time == 0 && v.modification_time == 0
    && v.rate.0.denom == 0x10000 && v.volume.0.denom == 0x100
}
pub open spec fn is_manual_default_UrlBox(v: UrlBox) -> bool { v.version == 0 && v.flags == 1 && v.location@.len() == 0 }
pub open spec fn is_manual_default_DrefBox(v: DrefBox) -> bool { v.version == 0 && v.flags == 0 && (v.url matches Some(u) && is_manual_default_UrlBox(u)) }

/// the configurations add_track accepts (everything else is rejected with InvalidData, C17)
pub open spec fn track_config_ok(c: TrackConfig) -> bool {
    &&& c.timescale != 0
    &&& (c.media_conf matches MediaConfig::AvcConfig(a) ==> 4 <= a.seq_param_set@.len() <= 0xffff && a.pic_param_set@.len() <= 0xffff)
    &&& (c.media_conf matches MediaConfig::AacConfig(a) ==> aot_code(a.profile) <= 30)
}

// ---------------------------------------------------------------- the movie writer
/// bytes of the track boxes as accumulated so far (write_end adds at most one chunk: 12 bytes of stsc + 8 of co64 per track)
pub open spec fn tracks_len(v: Seq<Mp4TrackWriter>, n: int) -> int
    decreases n
{
    if n <= 0 { 0 } else { tracks_len(v, n - 1) + trak_len(v[n - 1].trak) + 20 }
}
/// domain of write_end (D-20): the movie box fits the 32-bit box size
pub open spec fn mw_moov_fits<W>(m: Mp4Writer<W>) -> bool {
    8 + 120 + tracks_len(m.tracks@, m.tracks@.len() as int) <= 0xffff_ffff
}
pub open spec fn mw_tracks_ok<W>(m: Mp4Writer<W>) -> bool {
    forall|i: int| 0 <= i < m.tracks@.len() ==> tw_wf(#[trigger] m.tracks@[i]) && m.tracks@[i].trak.tkhd.track_id == i + 1
        && m.tracks@[i].trak.tkhd.duration == movie_ticks(m.tracks@[i].trak.mdia.mdhd.duration, m.timescale, m.tracks@[i].trak.mdia.mdhd.timescale)
}

/// movie duration = longest track (C02), in movie ticks
pub open spec fn mw_duration_ok<W>(m: Mp4Writer<W>) -> bool {
    &&& forall|i: int| 0 <= i < m.tracks@.len() ==> (#[trigger] m.tracks@[i]).trak.tkhd.duration <= m.duration
    &&& (m.duration == 0 || exists|i: int| 0 <= i < m.tracks@.len() && (#[trigger] m.tracks@[i]).trak.tkhd.duration == m.duration)
}

pub open spec fn mw_wf<W: Stream>(m: Mp4Writer<W>) -> bool {
    &&& mw_tracks_ok(m)
    &&& mw_duration_ok(m)
    &&& m.tracks@.len() < 0xffff_ffff
    // the media-data header (and the 8 bytes reserved after it for a 64-bit size) lie before the write position
    &&& m.mdat_pos + 16 <= m.writer.pos()
    &&& m.writer.pos() <= m.writer.data().len()
}

/// bytes of the two placeholder headers written by write_start: 'mdat' of size 8 followed by 'wide' of size 8 (the latter is
/// overwritten by the 64-bit size when the media data outgrows 32 bits, QTFF "wide" atom convention)
pub open spec fn mdat_placeholder_bytes() -> Seq<u8> {
    hdr_bytes(8, 0x6d646174) + hdr_bytes(8, 0x77696465)
}

pub open spec fn ftyp_of_config(c: Mp4Config) -> FtypBox {
    FtypBox { major_brand: c.major_brand, minor_version: c.minor_version, compatible_brands: c.compatible_brands }
}

pub proof fn lemma_movie_ticks_mono(d1: u64, d2: u64, mts: u32, ts: u32)
    requires d1 <= d2, ts >= 1
    ensures movie_ticks(d1, mts, ts) <= movie_ticks(d2, mts, ts)
{
    let a = d1 as int * mts as int;
    let b = d2 as int * mts as int;
    assert(a <= b) by(nonlinear_arith) requires d1 <= d2, mts >= 0, a == d1 as int * mts as int, b == d2 as int * mts as int;
    assert(a / (ts as int) <= b / (ts as int)) by(nonlinear_arith) requires a <= b, ts >= 1;
}

/// ftyp_bytes only looks at the values, not at the identity of the vector
pub proof fn lemma_ftyp_prefix_congr(a: FtypBox, b: FtypBox, n: int)
    requires a.major_brand == b.major_brand, a.minor_version == b.minor_version, a.compatible_brands@ == b.compatible_brands@,
             0 <= n <= a.compatible_brands@.len()
    ensures ftyp_prefix(a, n) == ftyp_prefix(b, n)
    decreases n
{
    if n > 0 { lemma_ftyp_prefix_congr(a, b, n - 1); }
}

/// observational equality of two movie writers (vectors compared by content)
pub open spec fn mw_same<W>(a: Mp4Writer<W>, b: Mp4Writer<W>) -> bool {
    a.tracks@ == b.tracks@ && a.writer == b.writer && a.mdat_pos == b.mdat_pos && a.timescale == b.timescale && a.duration == b.duration
}

/// C13: media data up to 4 GiB-1 keeps the 32-bit size field; beyond that the size field becomes 1 and the 64-bit size
/// overwrites exactly the 8 bytes of the 'wide' placeholder that follows the 8-byte mdat header. Nothing else changes.
pub open spec fn mdat_size_patch(d: Seq<u8>, mdat_pos: int, size: int) -> Seq<u8> {
    if size > 0xffff_ffff {
        wr(wr(d, mdat_pos, be_bytes(1, 4)), mdat_pos + 8, be_bytes(size as nat, 8))
    } else {
        wr(d, mdat_pos, be_bytes(size as nat, 4))
    }
}

// ---------------------------------------------------------------- the finished file (muxer half of C01 / C02 / C13 / C14)
/// bytes of a track that are still buffered when write_end is called (its last, unfinished chunk)
pub open spec fn tw_pending_len(w: Mp4TrackWriter) -> int { if w.chunk_samples > 0 { w.chunk_buffer@.len() as int } else { 0 } }
pub open spec fn pending_sum(v: Seq<Mp4TrackWriter>, n: int) -> int
    decreases n
{
    if n <= 0 { 0 } else { pending_sum(v, n - 1) + tw_pending_len(v[n - 1]) }
}
/// the media data after write_end has flushed the pending chunk of the first n tracks, one after the other, from position p
pub open spec fn flush_all(d: Seq<u8>, p: int, v: Seq<Mp4TrackWriter>, n: int) -> Seq<u8>
    decreases n
{
    if n <= 0 { d } else {
        let dk = flush_all(d, p, v, n - 1);
        if v[n - 1].chunk_samples > 0 { wr(dk, p + pending_sum(v, n - 1), v[n - 1].chunk_buffer@) } else { dk }
    }
}
/// t is the track box that finishing track writer w produces when the stream stands at pos: the same per-sample views, mutually
/// consistent tables, chunk offsets = the recorded ones plus pos for the pending chunk (32-bit table iff they all fit),
/// headers and sample description as configured (up to bufferSizeDB)
pub open spec fn trak_of_track(t: TrakBox, w: Mp4TrackWriter, pos: u64) -> bool {
    let s = t.mdia.minf.stbl;
    &&& muxed_tables_consistent(s, tw_n(w))
    &&& view_sizes(s) == view_sizes(tw_stbl(w)) && view_durs(s) == view_durs(tw_stbl(w))
    &&& view_cts(s, tw_n(w)) == view_cts(tw_stbl(w), tw_n(w)) && view_sync(s, tw_n(w)) == view_sync(tw_stbl(w), tw_n(w))
    &&& (s.stco is Some) != (s.co64 is Some)
    &&& (s.stco matches Some(a) ==> offsets_fit_u32(final_offsets(w, pos)) && a.entries@.len() == final_offsets(w, pos).len()
            && forall|i: int| 0 <= i < a.entries@.len() ==> (#[trigger] a.entries@[i]) as u64 == final_offsets(w, pos)[i])
    &&& (s.co64 matches Some(c) ==> !offsets_fit_u32(final_offsets(w, pos)) && c.entries@ == final_offsets(w, pos))
    &&& t.mdia.mdhd == w.trak.mdia.mdhd && t.tkhd == w.trak.tkhd && t.mdia.hdlr == w.trak.mdia.hdlr
    &&& stsd_nobuf(s.stsd) == stsd_nobuf(tw_stbl(w).stsd)
}
/// what Mp4Writer::write_end leaves in the stream, given the writer state m0 it started from: the pending chunks appended in
/// track order, the media-data size patched, and then the movie box `moov` whose i-th track is the finished i-th track writer
pub open spec fn mw_final<W: Stream>(m0: Mp4Writer<W>, out: Seq<u8>, moov: MoovBox) -> bool {
    let n = m0.tracks@.len() as int;
    let p0 = m0.writer.pos() as int;
    let pn = p0 + pending_sum(m0.tracks@, n);
    &&& moov.traks@.len() == n && moov_wire(moov)
    &&& forall|i: int| 0 <= i < n ==> trak_of_track(#[trigger] moov.traks@[i], m0.tracks@[i], (p0 + pending_sum(m0.tracks@, i)) as u64)
    &&& moov.mvhd.timescale == m0.timescale && moov.mvhd.duration == m0.duration
    &&& moov.mvhd.version == (if m0.duration > 0xffff_ffff { 1u8 } else { 0u8 }) && moov.mvex is None && moov.meta is None && moov.udta is None
    &&& (moov_exact(moov) ==> out == wr(mdat_size_patch(flush_all(m0.writer.data(), p0, m0.tracks@, n), m0.mdat_pos as int, pn - m0.mdat_pos), pn, moov_bytes(moov)))
}

/// a muxer step only appends: everything before the old write position is kept, the stream does not shrink, and a writer that
/// stood at the end of its stream still does
pub open spec fn stream_grows<W: Stream>(a: W, b: W) -> bool {
    &&& b.pos() >= a.pos() && b.data().len() >= a.data().len()
    &&& forall|i: int| 0 <= i < a.pos() && i < a.data().len() ==> #[trigger] b.data()[i] == a.data()[i]
    &&& (a.pos() == a.data().len() ==> b.pos() == b.data().len())
}
