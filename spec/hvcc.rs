// SPEC LIBRARY: hvcC NAL-unit arrays (ISO/IEC 14496-15 8.3.3.1.2, after the 23 fixed bytes):
//   numOfArrays(8) { array_completeness(1) reserved(1)=0 NAL_unit_type(6) numNalus(16) { nalUnitLength(16) nalUnit }* }*
// Decode side: positions by recursion over the arrays / units, values by index. Encode side: reference bytes.

/// a unit at p: length(16), bytes
pub open spec fn hnalu_at(d: Seq<u8>, p: int, x: HvcCArrayNalu) -> bool { x.size == be16(d, p) && x.data@ == d.subrange(p + 2, p + 2 + be16(d, p)) }
pub open spec fn hnalus_match(d: Seq<u8>, p: int, v: Seq<HvcCArrayNalu>, n: int) -> bool {
    forall|i: int| 0 <= i < n ==> hnalu_at(d, nals_end(d, p, i), #[trigger] v[i])
}
/// an array at p: header byte, unit count, units
pub open spec fn harr_end(d: Seq<u8>, p: int) -> int { nals_end(d, p + 3, be16(d, p + 1) as int) }
pub open spec fn harr_at(d: Seq<u8>, p: int, a: HvcCArray) -> bool {
    &&& a.completeness == (d[p] & 0x80 != 0) && a.nal_unit_type == d[p] & 0x3f
    &&& a.nalus@.len() == be16(d, p + 1) && hnalus_match(d, p + 3, a.nalus@, be16(d, p + 1) as int)
}
pub open spec fn harrs_end(d: Seq<u8>, p: int, n: int) -> int
    decreases n
{
    if n <= 0 { p } else { harr_end(d, harrs_end(d, p, n - 1)) }
}
pub open spec fn harrs_match(d: Seq<u8>, p: int, v: Seq<HvcCArray>, n: int) -> bool {
    forall|i: int| 0 <= i < n ==> harr_at(d, harrs_end(d, p, i), #[trigger] v[i])
}
/// the arrays of an hvcC whose first byte is at q
pub open spec fn hvcc_arrays_at(d: Seq<u8>, q: int, b: HvcCBox) -> bool {
    b.arrays@.len() == d[q + 22] && harrs_match(d, q + 23, b.arrays@, d[q + 22] as int)
}

// ---- encode side
pub open spec fn hnalu_bytes(x: HvcCArrayNalu) -> Seq<u8> { be_bytes(x.size as nat, 2) + x.data@ }
pub open spec fn hnalus_bytes(v: Seq<HvcCArrayNalu>, n: int) -> Seq<u8>
    decreases n
{
    if n <= 0 { Seq::<u8>::empty() } else { hnalus_bytes(v, n - 1) + hnalu_bytes(v[n - 1]) }
}
pub open spec fn harr_head(a: HvcCArray) -> Seq<u8> {
    seq![((a.nal_unit_type & 0x3f) | (if a.completeness { 0x80u8 } else { 0u8 })) as u8] + be_bytes(a.nalus@.len() as nat, 2)
}
pub open spec fn harr_bytes(a: HvcCArray) -> Seq<u8> { harr_head(a) + hnalus_bytes(a.nalus@, a.nalus@.len() as int) }
pub open spec fn harrs_bytes(v: Seq<HvcCArray>, n: int) -> Seq<u8>
    decreases n
{
    if n <= 0 { Seq::<u8>::empty() } else { harrs_bytes(v, n - 1) + harr_bytes(v[n - 1]) }
}
/// header + the 23 fixed bytes: spec/layouts_pieces.rs (hvcch_*), one piece per write
pub open spec fn hvcc_head(b: HvcCBox) -> Seq<u8> { hvcch_bytes(b) }
pub open spec fn hvcc_bytes(b: HvcCBox) -> Seq<u8> { hvcc_head(b) + harrs_bytes(b.arrays@, b.arrays@.len() as int) }

pub proof fn lemma_hnalus_bytes_len(v: Seq<HvcCArrayNalu>, n: int)
    requires 0 <= n <= v.len()
    ensures hnalus_bytes(v, n).len() == hvcc_nalus_sum(v, n)
    decreases n
{
    broadcast use lemma_be_bytes_len;
    if n > 0 { lemma_hnalus_bytes_len(v, n - 1); }
}
pub proof fn lemma_harrs_bytes_len(v: Seq<HvcCArray>, n: int)
    requires 0 <= n <= v.len()
    ensures harrs_bytes(v, n).len() == hvcc_arrays_sum(v, n)
    decreases n
{
    broadcast use lemma_be_bytes_len;
    if n > 0 { lemma_harrs_bytes_len(v, n - 1); lemma_hnalus_bytes_len(v[n - 1].nalus@, v[n - 1].nalus@.len() as int); }
}
pub proof fn lemma_hvcc_head_len(b: HvcCBox)
    requires hvcc_wire(b)
    ensures hvcc_head(b).len() == 31
{
    lemma_hvcch_pre(b);
}
pub proof fn lemma_hvcc_bytes_len(b: HvcCBox)
    requires hvcc_wire(b)
    ensures hvcc_bytes(b).len() == hvcc_len(b)
{
    lemma_hvcc_head_len(b);
    lemma_harrs_bytes_len(b.arrays@, b.arrays@.len() as int);
}

// ---- tx3g, encode side after the fixed fields: BoxRecord (4 x signed 16) and StyleRecord (12 bytes, as stored)
pub open spec fn i16s_bytes(v: Seq<i16>, n: int) -> Seq<u8>
    decreases n
{
    if n <= 0 { Seq::<u8>::empty() } else { i16s_bytes(v, n - 1) + be_bytes((v[n - 1] as u16) as nat, 2) }
}
pub open spec fn tx3g_bytes(b: Tx3gBox) -> Seq<u8> { tx3gh_bytes(b) + i16s_bytes(b.box_record@, 4) + b.style_record@ }
pub proof fn lemma_i16s_bytes_len(v: Seq<i16>, n: int)
    requires 0 <= n
    ensures i16s_bytes(v, n).len() == 2 * n
    decreases n
{
    broadcast use lemma_be_bytes_len;
    if n > 0 { lemma_i16s_bytes_len(v, n - 1); }
}
pub proof fn lemma_tx3g_bytes_len(b: Tx3gBox)
    ensures tx3g_bytes(b).len() == 46, tx3gh_bytes(b).len() == 26
{
    lemma_tx3gh_pre(b);
    lemma_i16s_bytes_len(b.box_record@, 4);
}
