// SPEC LIBRARY: big-endian decoding / encoding over byte sequences, stream overwrite.
// Written from ISO/IEC 14496-12 section 4.2 ("all integer fields are big-endian"); shares no text with /repo.

pub open spec fn be16(s: Seq<u8>, p: int) -> u16 {
    ((s[p] as u16) * 0x100 + s[p + 1] as u16) as u16
}

pub open spec fn be24(s: Seq<u8>, p: int) -> u32 {
    ((s[p] as u32) * 0x10000 + (s[p + 1] as u32) * 0x100 + s[p + 2] as u32) as u32
}

pub open spec fn be32(s: Seq<u8>, p: int) -> u32 {
    ((s[p] as u32) * 0x1000000 + (s[p + 1] as u32) * 0x10000 + (s[p + 2] as u32) * 0x100 + s[p + 3] as u32) as u32
}

pub open spec fn be48(s: Seq<u8>, p: int) -> u64 {
    ((be16(s, p) as u64) * 0x100000000 + be32(s, p + 2) as u64) as u64
}

pub open spec fn be64(s: Seq<u8>, p: int) -> u64 {
    ((be32(s, p) as u64) * 0x100000000 + be32(s, p + 4) as u64) as u64
}

/// big-endian rendering of v in k bytes (v < 256^k)
pub open spec fn be_bytes(v: nat, k: nat) -> Seq<u8>
    decreases k
{
    if k == 0 { Seq::<u8>::empty() } else { be_bytes(v / 256, (k - 1) as nat).push((v % 256) as u8) }
}

/// effect of writing `bytes` at position p of a growable byte container (std::io::Cursor<Vec<u8>> semantics:
/// the gap between the old end and p, if any, is zero filled).  An empty transfer changes nothing: std's
/// write_all / byteorder never issue a call for zero bytes.
pub open spec fn wr(d: Seq<u8>, p: int, bytes: Seq<u8>) -> Seq<u8> {
    if bytes.len() == 0 { d } else {
    Seq::new(
        (if d.len() >= p + bytes.len() { d.len() } else { (p + bytes.len()) as nat }),
        |i: int| if p <= i < p + bytes.len() { bytes[i - p] } else if i < d.len() { d[i] } else { 0u8 },
    )
    }
}

// ---------------------------------------------------------------- box header (ISO/IEC 14496-12 section 4.2)
//   aligned(8) class Box (unsigned int(32) boxtype) {
//       unsigned int(32) size; unsigned int(32) type = boxtype;
//       if (size==1) { unsigned int(64) largesize; } else if (size==0) { /* box extends to end of file */ } }
//
// The crate's convention (BoxHeader::size for the 64-bit form is largesize-8 so that callers can keep assuming an
// 8-byte header) is pinned here as `start + size == header_start + total_size` with start = pos_after_header - 8.

/// what a successful header read must have seen: p = position of the header, q = position after it
pub open spec fn hdr_read_ok(d: Seq<u8>, p: int, name: BoxType, size: u64, q: int) -> bool {
    let sz = be32(d, p);
    let ty = be32(d, p + 4);
    &&& 0 <= p
    &&& name == spec_boxtype_of_u32(ty)
    &&& if sz == 1 {
            let large = be64(d, p + 8);
            &&& p + 16 <= d.len()
            &&& q == p + 16
            &&& (large == 0 || large >= 16)
            &&& size == (if large == 0 { 0 } else { (large - 8) as u64 })
            // same payload range as the compact form would give: (q - 8) + size == p + large
        } else {
            &&& p + 8 <= d.len()
            &&& q == p + 8
            &&& size == sz as u64
        }
}

/// the only non-I/O rejection: 64-bit form with 1 <= largesize <= 15
pub open spec fn hdr_read_rejects(d: Seq<u8>, p: int) -> bool {
    &&& 0 <= p && p + 16 <= d.len()
    &&& be32(d, p) == 1
    &&& 1 <= be64(d, p + 8) <= 15
}

pub open spec fn hdr_len(size: u64) -> u64 {
    if size > 0xffff_ffff { 16 } else { 8 }
}

/// bytes of a header announcing `size` total bytes for box type code `ty`
pub open spec fn hdr_bytes(size: u64, ty: u32) -> Seq<u8> {
    if size > 0xffff_ffff {
        be_bytes(1, 4) + be_bytes(ty as nat, 4) + be_bytes(size as nat, 8)
    } else {
        be_bytes(size as nat, 4) + be_bytes(ty as nat, 4)
    }
}

// ---------------------------------------------------------------- lemmas about wr / be_bytes (all proved, no admits)

pub broadcast proof fn lemma_wr_empty(d: Seq<u8>, p: int)
    ensures #[trigger] wr(d, p, Seq::<u8>::empty()) == d
{
    assert(wr(d, p, Seq::<u8>::empty()) =~= d);
}

/// two consecutive writes are one write of the concatenation
pub broadcast proof fn lemma_wr_wr(d: Seq<u8>, p: int, a: Seq<u8>, b: Seq<u8>)
    requires 0 <= p
    ensures #[trigger] wr(wr(d, p, a), p + a.len(), b) == wr(d, p, a + b)
{
    assert(wr(wr(d, p, a), p + a.len(), b) =~= wr(d, p, a + b));
}

pub broadcast proof fn lemma_wr_len(d: Seq<u8>, p: int, a: Seq<u8>)
    requires 0 <= p
    ensures (#[trigger] wr(d, p, a)).len() == (if a.len() == 0 || d.len() >= p + a.len() { d.len() } else { (p + a.len()) as nat })
{
}

pub broadcast proof fn lemma_be_bytes_len(v: nat, k: nat)
    ensures (#[trigger] be_bytes(v, k)).len() == k
    decreases k
{
    if k > 0 { lemma_be_bytes_len(v / 256, (k - 1) as nat); }
}

pub broadcast group group_stream {
    lemma_wr_empty,
    lemma_wr_wr,
    lemma_wr_len,
    lemma_be_bytes_len,
}

/// compact box header announcing `total` bytes of type `ty` at position p
pub open spec fn hdr_at(d: Seq<u8>, p: int, total: u64, ty: u32) -> bool {
    if total > 0xffff_ffff {
        be32(d, p) == 1 && be32(d, p + 4) == ty && be64(d, p + 8) == total
    } else {
        be32(d, p) == total && be32(d, p + 4) == ty
    }
}

/// a write of n bytes at p changed nothing else: earlier bytes are kept, the container only grew to p + n
pub open spec fn frame_outside(o: Seq<u8>, n: Seq<u8>, p: int, len: int) -> bool {
    &&& n.len() == (if o.len() >= p + len { o.len() } else { (p + len) as nat })
    &&& forall|i: int| 0 <= i < o.len() && !(p <= i < p + len) ==> n[i] == o[i]
}

// ---- explicit forms of be_bytes for the widths the format uses (recursion unfolded once and for all)
pub open spec fn byte_of(v: nat, k: nat) -> u8 { ((v / pow256(k)) % 256) as u8 }

pub open spec fn pow256(k: nat) -> nat {
    if k == 0 { 1 } else if k == 1 { 0x100 } else if k == 2 { 0x10000 } else if k == 3 { 0x1000000 }
    else if k == 4 { 0x100000000 } else if k == 5 { 0x10000000000 } else if k == 6 { 0x1000000000000 }
    else { 0x100000000000000 }
}

pub broadcast proof fn lemma_be_bytes_1(v: nat)
    ensures #[trigger] be_bytes(v, 1) == seq![byte_of(v, 0)]
{
    reveal_with_fuel(be_bytes, 2);
    assert(be_bytes(v, 1) =~= seq![byte_of(v, 0)]);
}

pub broadcast proof fn lemma_be_bytes_2(v: nat)
    ensures #[trigger] be_bytes(v, 2) == seq![byte_of(v, 1), byte_of(v, 0)]
{
    reveal_with_fuel(be_bytes, 3);
    assert(be_bytes(v, 2) =~= seq![byte_of(v, 1), byte_of(v, 0)]);
}

pub broadcast proof fn lemma_be_bytes_3(v: nat)
    ensures #[trigger] be_bytes(v, 3) == seq![byte_of(v, 2), byte_of(v, 1), byte_of(v, 0)]
{
    reveal_with_fuel(be_bytes, 4);
    assert(v / 256 / 256 == v / 0x10000) by(nonlinear_arith);
    assert(be_bytes(v, 3) =~= seq![byte_of(v, 2), byte_of(v, 1), byte_of(v, 0)]);
}

pub broadcast proof fn lemma_be_bytes_4(v: nat)
    ensures #[trigger] be_bytes(v, 4) == seq![byte_of(v, 3), byte_of(v, 2), byte_of(v, 1), byte_of(v, 0)]
{
    reveal_with_fuel(be_bytes, 5);
    assert(v / 256 / 256 == v / 0x10000) by(nonlinear_arith);
    assert(v / 256 / 256 / 256 == v / 0x1000000) by(nonlinear_arith);
    assert(be_bytes(v, 4) =~= seq![byte_of(v, 3), byte_of(v, 2), byte_of(v, 1), byte_of(v, 0)]);
}

pub broadcast proof fn lemma_be_bytes_8(v: nat)
    ensures #[trigger] be_bytes(v, 8) == seq![byte_of(v, 7), byte_of(v, 6), byte_of(v, 5), byte_of(v, 4),
                                             byte_of(v, 3), byte_of(v, 2), byte_of(v, 1), byte_of(v, 0)]
{
    reveal_with_fuel(be_bytes, 9);
    assert(v / 256 / 256 == v / 0x10000) by(nonlinear_arith);
    assert(v / 256 / 256 / 256 == v / 0x1000000) by(nonlinear_arith);
    assert(v / 256 / 256 / 256 / 256 == v / 0x100000000) by(nonlinear_arith);
    assert(v / 256 / 256 / 256 / 256 / 256 == v / 0x10000000000) by(nonlinear_arith);
    assert(v / 256 / 256 / 256 / 256 / 256 / 256 == v / 0x1000000000000) by(nonlinear_arith);
    assert(v / 256 / 256 / 256 / 256 / 256 / 256 / 256 == v / 0x100000000000000) by(nonlinear_arith);
    assert(be_bytes(v, 8) =~= seq![byte_of(v, 7), byte_of(v, 6), byte_of(v, 5), byte_of(v, 4),
                                   byte_of(v, 3), byte_of(v, 2), byte_of(v, 1), byte_of(v, 0)]);
}

/// reading back what a big-endian write put there
pub broadcast proof fn lemma_be16_of_bytes(d: Seq<u8>, p: int, v: nat)
    requires 0 <= p, p + 2 <= d.len(), v < 0x10000, d[p] == byte_of(v, 1), d[p + 1] == byte_of(v, 0)
    ensures #[trigger] be16(d, p) == v, #[trigger] byte_of(v, 1) == d[p]
{
}

pub broadcast group group_be_bytes {
    lemma_be_bytes_1,
    lemma_be_bytes_2,
    lemma_be_bytes_3,
    lemma_be_bytes_4,
    lemma_be_bytes_8,
}

/// b occurs in d at offset off
pub open spec fn bytes_at(d: Seq<u8>, off: int, b: Seq<u8>) -> bool {
    0 <= off && off + b.len() <= d.len() && b == d.subrange(off, off + b.len())
}

/// F5: an allocation request of n elements is acceptable when it is bounded by the declared size of the enclosing box
/// (itself bounded by the input length through the chain of `s > size` guards) or by a 16-bit field
pub open spec fn alloc_bounded(n: int, size: int) -> bool { n <= size || n <= 0x1_0000 }
