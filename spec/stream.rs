// SPEC LIBRARY: big-endian decoding / encoding over byte sequences, stream overwrite.
// Written from ISO/IEC 14496-12 section 4.2 ("all integer fields are big-endian"); shares no text with /repo.

pub open spec fn be16(s: Seq<u8>, p: int) -> u16 {
    ((s[p] as u16) * 0x100 + s[p + 1] as u16) as u16
}

pub open spec fn be24(s: Seq<u8>, p: int) -> u32 {
    ((s[p] as u32) * 0x10000 + (s[p + 1] as u32) * 0x100 + s[p + 2] as u32) as u32
}

pub open spec fn be32(s: Seq<u8>, p: int) -> u32 {
    ((s[p] as u32) * 0x1000000 + (s[p + 1] as u32) * 0x10000 + (s[p + 2] as u32) * 0x100 + s[p + 3] as u32) as u32
}

pub open spec fn be48(s: Seq<u8>, p: int) -> u64 {
    ((be16(s, p) as u64) * 0x100000000 + be32(s, p + 2) as u64) as u64
}

pub open spec fn be64(s: Seq<u8>, p: int) -> u64 {
    ((be32(s, p) as u64) * 0x100000000 + be32(s, p + 4) as u64) as u64
}

/// big-endian rendering of v in k bytes (v < 256^k)
pub open spec fn be_bytes(v: nat, k: nat) -> Seq<u8>
    decreases k
{
    if k == 0 { Seq::<u8>::empty() } else { be_bytes(v / 256, (k - 1) as nat).push((v % 256) as u8) }
}

/// effect of writing `bytes` at position p of a growable byte container (std::io::Cursor<Vec<u8>> semantics:
/// the gap between the old end and p, if any, is zero filled)
pub open spec fn wr(d: Seq<u8>, p: int, bytes: Seq<u8>) -> Seq<u8> {
    Seq::new(
        (if d.len() >= p + bytes.len() { d.len() } else { (p + bytes.len()) as nat }),
        |i: int| if p <= i < p + bytes.len() { bytes[i - p] } else if i < d.len() { d[i] } else { 0u8 },
    )
}

// ---------------------------------------------------------------- box header (ISO/IEC 14496-12 section 4.2)
//   aligned(8) class Box (unsigned int(32) boxtype) {
//       unsigned int(32) size; unsigned int(32) type = boxtype;
//       if (size==1) { unsigned int(64) largesize; } else if (size==0) { /* box extends to end of file */ } }
//
// The crate's convention (BoxHeader::size for the 64-bit form is largesize-8 so that callers can keep assuming an
// 8-byte header) is pinned here as `start + size == header_start + total_size` with start = pos_after_header - 8.

/// what a successful header read must have seen: p = position of the header, q = position after it
pub open spec fn hdr_read_ok(d: Seq<u8>, p: int, name: BoxType, size: u64, q: int) -> bool {
    let sz = be32(d, p);
    let ty = be32(d, p + 4);
    &&& 0 <= p
    &&& name == spec_boxtype_of_u32(ty)
    &&& if sz == 1 {
            let large = be64(d, p + 8);
            &&& p + 16 <= d.len()
            &&& q == p + 16
            &&& (large == 0 || large >= 16)
            &&& size == (if large == 0 { 0 } else { (large - 8) as u64 })
            // same payload range as the compact form would give: (q - 8) + size == p + large
        } else {
            &&& p + 8 <= d.len()
            &&& q == p + 8
            &&& size == sz as u64
        }
}

/// the only non-I/O rejection: 64-bit form with 1 <= largesize <= 15
pub open spec fn hdr_read_rejects(d: Seq<u8>, p: int) -> bool {
    &&& 0 <= p && p + 16 <= d.len()
    &&& be32(d, p) == 1
    &&& 1 <= be64(d, p + 8) <= 15
}

pub open spec fn hdr_len(size: u64) -> u64 {
    if size > 0xffff_ffff { 16 } else { 8 }
}

/// bytes of a header announcing `size` total bytes for box type code `ty`
pub open spec fn hdr_bytes(size: u64, ty: u32) -> Seq<u8> {
    if size > 0xffff_ffff {
        be_bytes(1, 4) + be_bytes(ty as nat, 4) + be_bytes(size as nat, 8)
    } else {
        be_bytes(size as nat, 4) + be_bytes(ty as nat, 4)
    }
}
