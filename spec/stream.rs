// SPEC LIBRARY: big-endian decoding / encoding over byte sequences, stream overwrite.
// Written from ISO/IEC 14496-12 section 4.2 ("all integer fields are big-endian"); shares no text with /repo.

pub open spec fn be16(s: Seq<u8>, p: int) -> u16 {
    ((s[p] as u16) * 0x100 + s[p + 1] as u16) as u16
}

pub open spec fn be24(s: Seq<u8>, p: int) -> u32 {
    ((s[p] as u32) * 0x10000 + (s[p + 1] as u32) * 0x100 + s[p + 2] as u32) as u32
}

pub open spec fn be32(s: Seq<u8>, p: int) -> u32 {
    ((s[p] as u32) * 0x1000000 + (s[p + 1] as u32) * 0x10000 + (s[p + 2] as u32) * 0x100 + s[p + 3] as u32) as u32
}

pub open spec fn be48(s: Seq<u8>, p: int) -> u64 {
    ((be16(s, p) as u64) * 0x100000000 + be32(s, p + 2) as u64) as u64
}

pub open spec fn be64(s: Seq<u8>, p: int) -> u64 {
    ((be32(s, p) as u64) * 0x100000000 + be32(s, p + 4) as u64) as u64
}

/// big-endian rendering of v in k bytes (v < 256^k)
pub open spec fn be_bytes(v: nat, k: nat) -> Seq<u8>
    decreases k
{
    if k == 0 { Seq::<u8>::empty() } else { be_bytes(v / 256, (k - 1) as nat).push((v % 256) as u8) }
}

/// effect of writing `bytes` at position p of a growable byte container (std::io::Cursor<Vec<u8>> semantics:
/// the gap between the old end and p, if any, is zero filled)
pub open spec fn wr(d: Seq<u8>, p: int, bytes: Seq<u8>) -> Seq<u8> {
    Seq::new(
        (if d.len() >= p + bytes.len() { d.len() } else { (p + bytes.len()) as nat }),
        |i: int| if p <= i < p + bytes.len() { bytes[i - p] } else if i < d.len() { d[i] } else { 0u8 },
    )
}
