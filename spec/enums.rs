// Defining tables of the numeric <-> enumeration mappings (C16). Written from ISO/IEC 14496-3 (Table 1.17 audio object
// types, Table 1.18 sampling frequency index, Table 1.19 channel configuration), ISO/IEC 14496-10 Annex A (profile_idc,
// constraint_set1_flag = bit 6 of the compatibility byte) and the iTunes well-known data types -- not from the code.
// The executable conversions are proved equal to these tables for every input value.
use vstd::prelude::*;
verus! {
pub open spec fn aot_code(a: AudioObjectType) -> u8 {
    match a {
        AudioObjectType::AacMain => 1,
        AudioObjectType::AacLowComplexity => 2,
        AudioObjectType::AacScalableSampleRate => 3,
        AudioObjectType::AacLongTermPrediction => 4,
        AudioObjectType::SpectralBandReplication => 5,
        AudioObjectType::AACScalable => 6,
        AudioObjectType::TwinVQ => 7,
        AudioObjectType::CodeExcitedLinearPrediction => 8,
        AudioObjectType::HarmonicVectorExcitationCoding => 9,
        AudioObjectType::TextToSpeechtInterface => 12,
        AudioObjectType::MainSynthetic => 13,
        AudioObjectType::WavetableSynthesis => 14,
        AudioObjectType::GeneralMIDI => 15,
        AudioObjectType::AlgorithmicSynthesis => 16,
        AudioObjectType::ErrorResilientAacLowComplexity => 17,
        AudioObjectType::ErrorResilientAacLongTermPrediction => 19,
        AudioObjectType::ErrorResilientAacScalable => 20,
        AudioObjectType::ErrorResilientAacTwinVQ => 21,
        AudioObjectType::ErrorResilientAacBitSlicedArithmeticCoding => 22,
        AudioObjectType::ErrorResilientAacLowDelay => 23,
        AudioObjectType::ErrorResilientCodeExcitedLinearPrediction => 24,
        AudioObjectType::ErrorResilientHarmonicVectorExcitationCoding => 25,
        AudioObjectType::ErrorResilientHarmonicIndividualLinesNoise => 26,
        AudioObjectType::ErrorResilientParametric => 27,
        AudioObjectType::SinuSoidalCoding => 28,
        AudioObjectType::ParametricStereo => 29,
        AudioObjectType::MpegSurround => 30,
        AudioObjectType::MpegLayer1 => 32,
        AudioObjectType::MpegLayer2 => 33,
        AudioObjectType::MpegLayer3 => 34,
        AudioObjectType::DirectStreamTransfer => 35,
        AudioObjectType::AudioLosslessCoding => 36,
        AudioObjectType::ScalableLosslessCoding => 37,
        AudioObjectType::ScalableLosslessCodingNoneCore => 38,
        AudioObjectType::ErrorResilientAacEnhancedLowDelay => 39,
        AudioObjectType::SymbolicMusicRepresentationSimple => 40,
        AudioObjectType::SymbolicMusicRepresentationMain => 41,
        AudioObjectType::UnifiedSpeechAudioCoding => 42,
        AudioObjectType::SpatialAudioObjectCoding => 43,
        AudioObjectType::LowDelayMpegSurround => 44,
        AudioObjectType::SpatialAudioObjectCodingDialogueEnhancement => 45,
        AudioObjectType::AudioSync => 46,
    }
}
pub open spec fn aot_code_valid(v: u8) -> bool { (1 <= v <= 9) || (12 <= v <= 17) || (19 <= v <= 30) || (32 <= v <= 46) }
pub open spec fn sfi_code(a: SampleFreqIndex) -> u8 {
    match a {
        SampleFreqIndex::Freq96000 => 0,
        SampleFreqIndex::Freq88200 => 1,
        SampleFreqIndex::Freq64000 => 2,
        SampleFreqIndex::Freq48000 => 3,
        SampleFreqIndex::Freq44100 => 4,
        SampleFreqIndex::Freq32000 => 5,
        SampleFreqIndex::Freq24000 => 6,
        SampleFreqIndex::Freq22050 => 7,
        SampleFreqIndex::Freq16000 => 8,
        SampleFreqIndex::Freq12000 => 9,
        SampleFreqIndex::Freq11025 => 10,
        SampleFreqIndex::Freq8000 => 11,
        SampleFreqIndex::Freq7350 => 12,
    }
}
pub open spec fn sfi_code_valid(v: u8) -> bool { v <= 12 }
pub open spec fn sfi_hz(c: u8) -> u32 {
    if c == 0 { 96000 } else if c == 1 { 88200 } else if c == 2 { 64000 } else if c == 3 { 48000 } else if c == 4 { 44100 } else if c == 5 { 32000 } else if c == 6 { 24000 } else if c == 7 { 22050 } else if c == 8 { 16000 } else if c == 9 { 12000 } else if c == 10 { 11025 } else if c == 11 { 8000 } else if c == 12 { 7350 } else { 0 }
}
pub open spec fn chan_code(a: ChannelConfig) -> u8 {
    match a {
        ChannelConfig::Mono => 1,
        ChannelConfig::Stereo => 2,
        ChannelConfig::Three => 3,
        ChannelConfig::Four => 4,
        ChannelConfig::Five => 5,
        ChannelConfig::FiveOne => 6,
        ChannelConfig::SevenOne => 7,
    }
}
pub open spec fn chan_code_valid(v: u8) -> bool { 1 <= v <= 7 }

// the tables are injective and their range is exactly the valid set: together with "Ok(a) ==> code(a) == v" and
// "Err <==> !valid(v)" this pins the conversion down completely
pub proof fn lemma_aot_table()
    ensures forall|a: AudioObjectType| aot_code_valid(#[trigger] aot_code(a)),
            forall|a: AudioObjectType, b: AudioObjectType| aot_code(a) == aot_code(b) ==> a == b,
{}
pub proof fn lemma_sfi_table()
    ensures forall|a: SampleFreqIndex| sfi_code_valid(#[trigger] sfi_code(a)),
            forall|a: SampleFreqIndex, b: SampleFreqIndex| sfi_code(a) == sfi_code(b) ==> a == b,
{}
pub proof fn lemma_chan_table()
    ensures forall|a: ChannelConfig| chan_code_valid(#[trigger] chan_code(a)),
            forall|a: ChannelConfig, b: ChannelConfig| chan_code(a) == chan_code(b) ==> a == b,
{}

pub open spec fn datatype_of_code(v: u32) -> Option<DataType> {
    if v == 0 { Some(DataType::Binary) } else if v == 1 { Some(DataType::Text) } else if v == 13 { Some(DataType::Image) }
    else if v == 21 { Some(DataType::TempoCpil) } else { None }
}

// H.264 Annex A: profile_idc 66 = Baseline (Constrained Baseline when constraint_set1_flag, bit 6 of the second byte, is set),
// 77 = Main, 88 = Extended, 100 = High
pub open spec fn avc_profile_of(p: u8, c: u8) -> Option<AvcProfile> {
    if p == 66 { if c & 0x40 != 0 { Some(AvcProfile::AvcConstrainedBaseline) } else { Some(AvcProfile::AvcBaseline) } }
    else if p == 77 { Some(AvcProfile::AvcMain) }
    else if p == 88 { Some(AvcProfile::AvcExtended) }
    else if p == 100 { Some(AvcProfile::AvcHigh) }
    else { None }
}

// handler types of ISO/IEC 14496-12 8.4.3 ('vide', 'soun') and the QuickTime subtitle handler 'sbtl'
pub open spec fn track_type_of_fourcc(v: [u8; 4]) -> Option<TrackType> {
    if v[0] == 0x76 && v[1] == 0x69 && v[2] == 0x64 && v[3] == 0x65 { Some(TrackType::Video) }
    else if v[0] == 0x73 && v[1] == 0x6f && v[2] == 0x75 && v[3] == 0x6e { Some(TrackType::Audio) }
    else if v[0] == 0x73 && v[1] == 0x62 && v[2] == 0x74 && v[3] == 0x6c { Some(TrackType::Subtitle) }
    else { None }
}
pub open spec fn fourcc_of_track_type(t: TrackType) -> [u8; 4] {
    match t {
        TrackType::Video => [0x76u8, 0x69u8, 0x64u8, 0x65u8],
        TrackType::Audio => [0x73u8, 0x6fu8, 0x75u8, 0x6eu8],
        TrackType::Subtitle => [0x73u8, 0x62u8, 0x74u8, 0x6cu8],
    }
}

// ISO/IEC 14496-3 1.6.2.1 GetAudioObjectType: 5 bits, escape value 31 -> 32 + 6 more bits
pub open spec fn aot_of_bits(a: u8, b: u8) -> u8 {
    if a >> 3 == 31 { (32 + (((a & 7) << 3) | (b >> 5))) as u8 } else { a >> 3 }
}
} // verus!
