// SPEC LIBRARY: container boxes, decode side (ISO/IEC 14496-12 8.x: a container is the sequence of its child boxes; where a
// child type may occur once, a later duplicate replaces an earlier one in this crate).  The value of a container is defined
// from the bytes by walking the sibling chain (child_next of spec/metadata.rs) and decoding the selected children with the
// layout predicates of spec/layouts_*.rs.

/// header position of the last child of type `ty` on the chain from p, starting from `acc`
pub open spec fn last_of(d: Seq<u8>, p: int, end: int, ty: BoxType, acc: Option<int>) -> Option<int>
    decreases (if p < end { end - p } else { 0 })
{
    if p >= end || child_next(d, p) <= p { acc }
    else if child_name(d, p) == ty { last_of(d, child_next(d, p), end, ty, Some(p)) }
    else { last_of(d, child_next(d, p), end, ty, acc) }
}
pub open spec fn child_at(d: Seq<u8>, q: int, size: u64, ty: BoxType) -> Option<int> { last_of(d, q, q - 8 + size, ty, None) }

// ---- relations "field x was decoded from the child whose body starts at g" (None <-> absent)
pub open spec fn rel_stts(d: Seq<u8>, x: Option<SttsBox>, g: Option<int>) -> bool { (x is Some <==> g is Some) && (x matches Some(b) ==> stts_at(d, child_q(d, g->Some_0) - 8, b)) }
pub open spec fn rel_ctts(d: Seq<u8>, x: Option<CttsBox>, g: Option<int>) -> bool { (x is Some <==> g is Some) && (x matches Some(b) ==> ctts_at(d, child_q(d, g->Some_0) - 8, b)) }
pub open spec fn rel_stss(d: Seq<u8>, x: Option<StssBox>, g: Option<int>) -> bool { (x is Some <==> g is Some) && (x matches Some(b) ==> stss_at(d, child_q(d, g->Some_0) - 8, b)) }
pub open spec fn rel_stsc(d: Seq<u8>, x: Option<StscBox>, g: Option<int>) -> bool { (x is Some <==> g is Some) && (x matches Some(b) ==> stsc_at(d, child_q(d, g->Some_0) - 8, b)) }
pub open spec fn rel_stsz(d: Seq<u8>, x: Option<StszBox>, g: Option<int>) -> bool { (x is Some <==> g is Some) && (x matches Some(b) ==> stsz_at(d, child_q(d, g->Some_0) - 8, b)) }
pub open spec fn rel_stco(d: Seq<u8>, x: Option<StcoBox>, g: Option<int>) -> bool { (x is Some <==> g is Some) && (x matches Some(b) ==> stco_at(d, child_q(d, g->Some_0) - 8, b)) }
pub open spec fn rel_co64(d: Seq<u8>, x: Option<Co64Box>, g: Option<int>) -> bool { (x is Some <==> g is Some) && (x matches Some(b) ==> co64_at(d, child_q(d, g->Some_0) - 8, b)) }
pub open spec fn rel_some<T>(x: Option<T>, g: Option<int>) -> bool { x is Some <==> g is Some }

/// sample table box whose body starts at q: every table is the decoding of the last child of its type
pub open spec fn rel_stsd(d: Seq<u8>, x: Option<StsdBox>, g: Option<int>) -> bool { (x is Some <==> g is Some) && (x matches Some(b) ==> stsd_at(d, child_q(d, g->Some_0), b)) }
pub open spec fn stbl_at(d: Seq<u8>, q: int, size: u64, b: StblBox) -> bool {
    &&& rel_stsd(d, Some(b.stsd), child_at(d, q, size, BoxType::StsdBox))
    &&& rel_stts(d, Some(b.stts), child_at(d, q, size, BoxType::SttsBox))
    &&& rel_ctts(d, b.ctts, child_at(d, q, size, BoxType::CttsBox))
    &&& rel_stss(d, b.stss, child_at(d, q, size, BoxType::StssBox))
    &&& rel_stsc(d, Some(b.stsc), child_at(d, q, size, BoxType::StscBox))
    &&& rel_stsz(d, Some(b.stsz), child_at(d, q, size, BoxType::StszBox))
    &&& rel_stco(d, b.stco, child_at(d, q, size, BoxType::StcoBox))
    &&& rel_co64(d, b.co64, child_at(d, q, size, BoxType::Co64Box))
}

// ---- containers that may hold a `meta` child (trak, moov): the crate's meta decoder stops where its own child walk stops
//      (meta_stop, spec/metadata.rs), which is the end of the meta box whenever its children fill it exactly
pub open spec fn child_next_m(d: Seq<u8>, p: int) -> int {
    if child_name(d, p) == BoxType::MetaBox { meta_stop(d, child_q(d, p), child_size(d, p)) } else { child_next(d, p) }
}
pub open spec fn last_of_m(d: Seq<u8>, p: int, end: int, ty: BoxType, acc: Option<int>) -> Option<int>
    decreases (if p < end { end - p } else { 0 })
{
    if p >= end || child_next_m(d, p) <= p { acc }
    else if child_name(d, p) == ty { last_of_m(d, child_next_m(d, p), end, ty, Some(p)) }
    else { last_of_m(d, child_next_m(d, p), end, ty, acc) }
}
pub open spec fn child_at_m(d: Seq<u8>, q: int, size: u64, ty: BoxType) -> Option<int> { last_of_m(d, q, q - 8 + size, ty, None) }
/// header positions of all children of type `ty`, in file order
pub open spec fn all_of_m(d: Seq<u8>, p: int, end: int, ty: BoxType, acc: Seq<int>) -> Seq<int>
    decreases (if p < end { end - p } else { 0 })
{
    if p >= end || child_next_m(d, p) <= p { acc }
    else if child_name(d, p) == ty { all_of_m(d, child_next_m(d, p), end, ty, acc.push(p)) }
    else { all_of_m(d, child_next_m(d, p), end, ty, acc) }
}

pub open spec fn rel_vmhd(d: Seq<u8>, x: Option<VmhdBox>, g: Option<int>) -> bool { (x is Some <==> g is Some) && (x matches Some(b) ==> vmhd_at(d, child_q(d, g->Some_0) - 8, b)) }
pub open spec fn rel_smhd(d: Seq<u8>, x: Option<SmhdBox>, g: Option<int>) -> bool { (x is Some <==> g is Some) && (x matches Some(b) ==> smhd_at(d, child_q(d, g->Some_0) - 8, b)) }
pub open spec fn rel_mdhd(d: Seq<u8>, x: Option<MdhdBox>, g: Option<int>) -> bool { (x is Some <==> g is Some) && (x matches Some(b) ==> mdhd_at(d, child_q(d, g->Some_0) - 8, b)) }
pub open spec fn rel_tkhd(d: Seq<u8>, x: Option<TkhdBox>, g: Option<int>) -> bool { (x is Some <==> g is Some) && (x matches Some(b) ==> tkhd_at(d, child_q(d, g->Some_0) - 8, b)) }
pub open spec fn rel_mvhd(d: Seq<u8>, x: Option<MvhdBox>, g: Option<int>) -> bool { (x is Some <==> g is Some) && (x matches Some(b) ==> mvhd_at(d, child_q(d, g->Some_0) - 8, b)) }
pub open spec fn hdlr_at(d: Seq<u8>, q: int, h: HdlrBox) -> bool {
    h.version == d[q] && h.flags == be24(d, q + 1) && h.handler_type == fourcc_of_u32(be32(d, q + 8))
}
pub open spec fn rel_hdlr(d: Seq<u8>, x: Option<HdlrBox>, g: Option<int>) -> bool { (x is Some <==> g is Some) && (x matches Some(b) ==> hdlr_at(d, child_q(d, g->Some_0), b)) }
pub open spec fn rel_stbl(d: Seq<u8>, x: Option<StblBox>, g: Option<int>) -> bool {
    (x is Some <==> g is Some) && (x matches Some(b) ==> stbl_at(d, child_q(d, g->Some_0), child_size(d, g->Some_0), b))
}

pub open spec fn minf_at(d: Seq<u8>, q: int, size: u64, b: MinfBox) -> bool {
    &&& rel_vmhd(d, b.vmhd, child_at(d, q, size, BoxType::VmhdBox))
    &&& rel_smhd(d, b.smhd, child_at(d, q, size, BoxType::SmhdBox))
    &&& child_at(d, q, size, BoxType::DinfBox) is Some
    &&& rel_stbl(d, Some(b.stbl), child_at(d, q, size, BoxType::StblBox))
}
pub open spec fn rel_minf(d: Seq<u8>, x: Option<MinfBox>, g: Option<int>) -> bool {
    (x is Some <==> g is Some) && (x matches Some(b) ==> minf_at(d, child_q(d, g->Some_0), child_size(d, g->Some_0), b))
}
pub open spec fn mdia_at(d: Seq<u8>, q: int, size: u64, b: MdiaBox) -> bool {
    &&& rel_mdhd(d, Some(b.mdhd), child_at(d, q, size, BoxType::MdhdBox))
    &&& rel_hdlr(d, Some(b.hdlr), child_at(d, q, size, BoxType::HdlrBox))
    &&& rel_minf(d, Some(b.minf), child_at(d, q, size, BoxType::MinfBox))
}
pub open spec fn rel_mdia(d: Seq<u8>, x: Option<MdiaBox>, g: Option<int>) -> bool {
    (x is Some <==> g is Some) && (x matches Some(b) ==> mdia_at(d, child_q(d, g->Some_0), child_size(d, g->Some_0), b))
}
pub open spec fn rel_edts(d: Seq<u8>, x: Option<EdtsBox>, g: Option<int>) -> bool { (x is Some <==> g is Some) && (x matches Some(b) ==> edts_at(d, child_q(d, g->Some_0), b)) }
pub open spec fn trak_at(d: Seq<u8>, q: int, size: u64, b: TrakBox) -> bool {
    &&& rel_tkhd(d, Some(b.tkhd), child_at_m(d, q, size, BoxType::TkhdBox))
    &&& rel_edts(d, b.edts, child_at_m(d, q, size, BoxType::EdtsBox))
    &&& rel_some(b.meta, child_at_m(d, q, size, BoxType::MetaBox))
    &&& rel_mdia(d, Some(b.mdia), child_at_m(d, q, size, BoxType::MdiaBox))
}
pub open spec fn traks_rel(d: Seq<u8>, v: Seq<TrakBox>, g: Seq<int>) -> bool {
    v.len() == g.len() && forall|i: int| 0 <= i < v.len() ==> trak_at(d, child_q(d, g[i]), child_size(d, g[i]), #[trigger] v[i])
}
pub open spec fn rel_udta(d: Seq<u8>, x: Option<UdtaBox>, g: Option<int>) -> bool {
    (x is Some <==> g is Some) && (x matches Some(u) ==> opt_meta_items(u.meta)
        == udta_fold(d, child_q(d, g->Some_0), child_q(d, g->Some_0) - 8 + child_size(d, g->Some_0), None))
}
pub open spec fn moov_at(d: Seq<u8>, q: int, size: u64, b: MoovBox) -> bool {
    &&& rel_mvhd(d, Some(b.mvhd), child_at_m(d, q, size, BoxType::MvhdBox))
    &&& traks_rel(d, b.traks@, all_of_m(d, q, q - 8 + size, BoxType::TrakBox, Seq::empty()))
    &&& rel_some(b.mvex, child_at_m(d, q, size, BoxType::MvexBox))
    &&& rel_some(b.meta, child_at_m(d, q, size, BoxType::MetaBox))
    &&& rel_udta(d, b.udta, child_at_m(d, q, size, BoxType::UdtaBox))
}

// ---- top level of the file: boxes follow each other from the start position; a box of size 0 ("to the end of the file") ends the scan
pub open spec fn top_last_of(d: Seq<u8>, p: int, end: int, ty: BoxType, acc: Option<int>) -> Option<int>
    decreases (if p < end { end - p } else { 0 })
{
    if p >= end || child_size(d, p) == 0 || child_next(d, p) <= p { acc }
    else if child_name(d, p) == ty { top_last_of(d, child_next(d, p), end, ty, Some(p)) }
    else { top_last_of(d, child_next(d, p), end, ty, acc) }
}
pub open spec fn rel_moov(d: Seq<u8>, x: Option<MoovBox>, g: Option<int>) -> bool {
    (x is Some <==> g is Some) && (x matches Some(b) ==> moov_at(d, child_q(d, g->Some_0), child_size(d, g->Some_0), b))
}
pub open spec fn rel_ftyp(d: Seq<u8>, x: Option<FtypBox>, g: Option<int>) -> bool {
    (x is Some <==> g is Some) && (x matches Some(b) ==> ftyp_at(d, child_q(d, g->Some_0) - 8, child_size(d, g->Some_0) as int, b))
}
/// what an opened reader holds: the movie box and the file-type box are the decodings of the last such boxes of the file
pub open spec fn file_parsed<R>(d: Seq<u8>, start: int, size: u64, m: Mp4Reader<R>) -> bool {
    &&& rel_moov(d, Some(m.moov), top_last_of(d, start, size as int, BoxType::MoovBox, None))
    &&& rel_ftyp(d, Some(m.ftyp), top_last_of(d, start, size as int, BoxType::FtypBox, None))
}

// ---- movie fragments, decode side (no meta children here: plain sibling chain)
pub open spec fn all_of(d: Seq<u8>, p: int, end: int, ty: BoxType, acc: Seq<int>) -> Seq<int>
    decreases (if p < end { end - p } else { 0 })
{
    if p >= end || child_next(d, p) <= p { acc }
    else if child_name(d, p) == ty { all_of(d, child_next(d, p), end, ty, acc.push(p)) }
    else { all_of(d, child_next(d, p), end, ty, acc) }
}
pub open spec fn rel_tfhd(d: Seq<u8>, x: Option<TfhdBox>, g: Option<int>) -> bool { (x is Some <==> g is Some) && (x matches Some(b) ==> tfhd_at(d, child_q(d, g->Some_0) - 8, b)) }
pub open spec fn rel_tfdt(d: Seq<u8>, x: Option<TfdtBox>, g: Option<int>) -> bool { (x is Some <==> g is Some) && (x matches Some(b) ==> tfdt_at(d, child_q(d, g->Some_0) - 8, b)) }
pub open spec fn rel_trun(d: Seq<u8>, x: Option<TrunBox>, g: Option<int>) -> bool { (x is Some <==> g is Some) && (x matches Some(b) ==> trun_at(d, child_q(d, g->Some_0) - 8, b)) }
pub open spec fn rel_mfhd(d: Seq<u8>, x: Option<MfhdBox>, g: Option<int>) -> bool { (x is Some <==> g is Some) && (x matches Some(b) ==> mfhd_at(d, child_q(d, g->Some_0) - 8, b)) }
pub open spec fn traf_at(d: Seq<u8>, q: int, size: u64, b: TrafBox) -> bool {
    &&& rel_tfhd(d, Some(b.tfhd), child_at(d, q, size, BoxType::TfhdBox))
    &&& rel_tfdt(d, b.tfdt, child_at(d, q, size, BoxType::TfdtBox))
    &&& rel_trun(d, b.trun, child_at(d, q, size, BoxType::TrunBox))
}
pub open spec fn trafs_rel(d: Seq<u8>, v: Seq<TrafBox>, g: Seq<int>) -> bool {
    v.len() == g.len() && forall|i: int| 0 <= i < v.len() ==> traf_at(d, child_q(d, g[i]), child_size(d, g[i]), #[trigger] v[i])
}
pub open spec fn moof_at(d: Seq<u8>, q: int, size: u64, b: MoofBox) -> bool {
    &&& rel_mfhd(d, Some(b.mfhd), child_at(d, q, size, BoxType::MfhdBox))
    &&& trafs_rel(d, b.trafs@, all_of(d, q, q - 8 + size, BoxType::TrafBox, Seq::empty()))
}

pub open spec fn top_all_of(d: Seq<u8>, p: int, end: int, ty: BoxType, acc: Seq<int>) -> Seq<int>
    decreases (if p < end { end - p } else { 0 })
{
    if p >= end || child_size(d, p) == 0 || child_next(d, p) <= p { acc }
    else if child_name(d, p) == ty { top_all_of(d, child_next(d, p), end, ty, acc.push(p)) }
    else { top_all_of(d, child_next(d, p), end, ty, acc) }
}
/// the fragments collected while opening a file: in file order, each with the position of the first byte of its moof box
/// (the base of default data offsets, ISO/IEC 14496-12 8.8.7 default-base-is-moof / 8.8.8)
pub open spec fn moofs_rel(d: Seq<u8>, v: Seq<MoofBox>, offs: Seq<u64>, g: Seq<int>) -> bool {
    &&& v.len() == g.len() && offs.len() == g.len()
    &&& forall|i: int| 0 <= i < g.len() ==> (#[trigger] offs[i]) == g[i]
    &&& forall|i: int| 0 <= i < g.len() ==> moof_at(d, child_q(d, g[i]), child_size(d, g[i]), #[trigger] v[i])
}
