// SPEC LIBRARY: iTunes-style metadata (C18).  Written from the QuickTime File Format / iTunes metadata layout:
//   moov.udta.meta (FullBox in ISO files, plain box in QuickTime files) { hdlr(handler 'mdir'), ilst { item* } }
//   item  = box typed (c)nam | (c)day | covr | desc | ...  { data }
//   data  = box 'data' { type indicator(4): 0 binary, 1 UTF-8, 13 JPEG, 21 integer; locale(4); payload to the end of the box }
// Child boxes are walked with the box-header rules of spec/stream.rs.  No code of the crate is shared.

/// payload of a data box seen through its view (Vec equality is not structural)
pub struct DataV { pub ty: DataType, pub bytes: Seq<u8> }
pub open spec fn data_view(b: DataBox) -> DataV { DataV { ty: b.data_type, bytes: b.data@ } }

// ---- walking child boxes: header at p
pub open spec fn child_q(d: Seq<u8>, p: int) -> int { if be32(d, p) == 1 { p + 16 } else { p + 8 } }
pub open spec fn child_size(d: Seq<u8>, p: int) -> u64 {
    if be32(d, p) == 1 { let l = be64(d, p + 8); if l == 0 { 0 } else { (l - 8) as u64 } } else { be32(d, p) as u64 }
}
pub open spec fn child_name(d: Seq<u8>, p: int) -> BoxType { spec_boxtype_of_u32(be32(d, p + 4)) }
/// position of the next sibling
pub open spec fn child_next(d: Seq<u8>, p: int) -> int { child_q(d, p) - 8 + child_size(d, p) }

/// a data box whose body starts at q (just after its header) and whose declared size is s
pub open spec fn data_of(d: Seq<u8>, q: int, s: u64) -> DataV {
    DataV { ty: datatype_of_code(be32(d, q))->Some_0, bytes: d.subrange(q + 8, q - 8 + s) }
}
pub open spec fn data_ok(d: Seq<u8>, q: int, s: u64) -> bool {
    s >= 16 && 0 <= q && q - 8 + s <= d.len() && datatype_of_code(be32(d, q)) is Some
}

/// value of an item: the (last) data child found between p and end
pub open spec fn item_fold(d: Seq<u8>, p: int, end: int, acc: Option<DataV>) -> Option<DataV>
    decreases (if p < end { end - p } else { 0 })
{
    if p >= end || child_next(d, p) <= p { acc }
    else if child_name(d, p) == BoxType::DataBox { item_fold(d, child_next(d, p), end, Some(data_of(d, child_q(d, p), child_size(d, p)))) }
    else { item_fold(d, child_next(d, p), end, acc) }
}
/// item box whose body starts at q with declared size s
pub open spec fn item_value(d: Seq<u8>, q: int, s: u64) -> Option<DataV> { item_fold(d, q, q - 8 + s, None) }

pub open spec fn key_of_type(t: BoxType) -> Option<MetadataKey> {
    match t {
        BoxType::NameBox => Some(MetadataKey::Title),
        BoxType::DayBox => Some(MetadataKey::Year),
        BoxType::CovrBox => Some(MetadataKey::Poster),
        BoxType::DescBox => Some(MetadataKey::Summary),
        _ => None,
    }
}

/// the item list: known item types map to their value (a later duplicate replaces an earlier one), everything else is ignored
pub open spec fn ilst_fold(d: Seq<u8>, p: int, end: int, acc: Map<MetadataKey, DataV>) -> Map<MetadataKey, DataV>
    decreases (if p < end { end - p } else { 0 })
{
    if p >= end || child_next(d, p) <= p { acc }
    else {
        match key_of_type(child_name(d, p)) {
            Some(k) => ilst_fold(d, child_next(d, p), end, acc.insert(k, item_value(d, child_q(d, p), child_size(d, p))->Some_0)),
            None => ilst_fold(d, child_next(d, p), end, acc),
        }
    }
}
pub open spec fn ilst_value(d: Seq<u8>, q: int, s: u64) -> Map<MetadataKey, DataV> { ilst_fold(d, q, q - 8 + s, Map::empty()) }

pub open spec fn items_dv(m: Map<MetadataKey, IlstItemBox>) -> Map<MetadataKey, DataV> {
    Map::new(m.dom(), |k: MetadataKey| data_view(m[k].data))
}
pub proof fn lemma_items_dv_insert(m: Map<MetadataKey, IlstItemBox>, k: MetadataKey, it: IlstItemBox)
    ensures items_dv(m.insert(k, it)) == items_dv(m).insert(k, data_view(it.data))
{
    assert(items_dv(m.insert(k, it)) =~= items_dv(m).insert(k, data_view(it.data)));
}

pub open spec fn opt_dv(o: Option<DataBox>) -> Option<DataV> { match o { Some(b) => Some(data_view(b)), None => None } }

/// ASSUMED: derive(Hash, PartialEq, Eq) on the field-less enum MetadataKey is a lawful key (deterministic hash, structural equality)
#[verifier::external_body]
pub proof fn axiom_metadata_key_model()
    ensures vstd::std_specs::hash::obeys_key_model::<MetadataKey>()
{}

// ---- meta box: body starts at q (after its header); ISO form carries version/flags == 0, QuickTime form starts with hdlr directly
pub open spec fn meta_form_ok(d: Seq<u8>, q: int) -> bool { be32(d, q) == 0 || child_name(d, q) == BoxType::HdlrBox }
pub open spec fn meta_content_start(d: Seq<u8>, q: int) -> int { if be32(d, q) == 0 { q + 4 } else { q } }

/// handler type of the (last) hdlr child: FullBox header (4) + pre_defined (4) + handler_type (4)
pub open spec fn meta_hdlr_fold(d: Seq<u8>, p: int, end: int, acc: Option<u32>) -> Option<u32>
    decreases (if p < end { end - p } else { 0 })
{
    if p >= end || child_next(d, p) <= p { acc }
    else if child_name(d, p) == BoxType::HdlrBox { meta_hdlr_fold(d, child_next(d, p), end, Some(be32(d, child_q(d, p) + 8))) }
    else { meta_hdlr_fold(d, child_next(d, p), end, acc) }
}
/// item list of the (last) ilst child
pub open spec fn meta_ilst_fold(d: Seq<u8>, p: int, end: int, acc: Option<Map<MetadataKey, DataV>>) -> Option<Map<MetadataKey, DataV>>
    decreases (if p < end { end - p } else { 0 })
{
    if p >= end || child_next(d, p) <= p { acc }
    else if child_name(d, p) == BoxType::IlstBox { meta_ilst_fold(d, child_next(d, p), end, Some(ilst_value(d, child_q(d, p), child_size(d, p)))) }
    else { meta_ilst_fold(d, child_next(d, p), end, acc) }
}
/// 'mdir'
pub open spec fn mdir_code() -> u32 { 0x6d646972 }
pub open spec fn opt_hdlr_code(o: Option<HdlrBox>) -> Option<u32> { match o { Some(h) => Some(u32_of_fourcc(h.handler_type)), None => None } }
pub open spec fn opt_items(o: Option<IlstBox>) -> Option<Map<MetadataKey, DataV>> { match o { Some(b) => Some(items_dv(b.items@)), None => None } }

/// what the metadata accessors must see for a meta box at q with size s: Some(items) iff the handler is 'mdir' and an ilst exists
pub open spec fn meta_items(d: Seq<u8>, q: int, s: u64) -> Option<Map<MetadataKey, DataV>> {
    let cs = meta_content_start(d, q);
    let end = q - 8 + s;
    if meta_hdlr_fold(d, cs, end, None) == Some(mdir_code()) { meta_ilst_fold(d, cs, end, None) } else { None }
}

/// a four-character code is determined by its numeric value
#[verifier::spinoff_prover]
#[verifier::rlimit(200)]
pub proof fn lemma_fourcc_injective(f: FourCC, g: FourCC)
    requires u32_of_fourcc(f) == u32_of_fourcc(g)
    ensures f == g
{
    reveal(u32_of_fourcc);
    assert(f.value[0] == g.value[0] && f.value[1] == g.value[1] && f.value[2] == g.value[2] && f.value[3] == g.value[3]);
    assert(f.value =~= g.value);
}

/// where a walk over the children starting at p stops: the first sibling position at or beyond `end`
pub open spec fn walk_end(d: Seq<u8>, p: int, end: int) -> int
    decreases (if p < end { end - p } else { 0 })
{
    if p >= end || child_next(d, p) <= p { p } else { walk_end(d, child_next(d, p), end) }
}
/// position after a meta box whose body starts at q (the decoder stops where its child walk stops; for a meta box
/// whose children fill it exactly this is the end of the box)
pub open spec fn meta_stop(d: Seq<u8>, q: int, s: u64) -> int { walk_end(d, meta_content_start(d, q), q - 8 + s) }

pub open spec fn opt_meta_items(o: Option<MetaBox>) -> Option<Option<Map<MetadataKey, DataV>>> {
    match o {
        Some(MetaBox::Mdir { ilst }) => Some(opt_items(ilst)),
        Some(MetaBox::Unknown { hdlr, data }) => Some(None),
        None => None,
    }
}
/// user data box: the (last) meta child
pub open spec fn udta_fold(d: Seq<u8>, p: int, end: int, acc: Option<Option<Map<MetadataKey, DataV>>>) -> Option<Option<Map<MetadataKey, DataV>>>
    decreases (if p < end { end - p } else { 0 })
{
    if p >= end || child_next(d, p) <= p { acc }
    else if child_name(d, p) == BoxType::MetaBox {
        let nx = meta_stop(d, child_q(d, p), child_size(d, p));
        if nx <= p { acc } else { udta_fold(d, nx, end, Some(meta_items(d, child_q(d, p), child_size(d, p)))) }
    }
    else { udta_fold(d, child_next(d, p), end, acc) }
}
