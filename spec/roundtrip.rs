// SPEC LIBRARY: encoder spec and decoder spec agree (C04 round trip at the level of the specifications):
// writing the reference bytes X_bytes(b) at p yields a stream on which the layout predicate X_at(_, p, b) holds.
// Generic read-back lemmas first, then one generated lemma per fixed-layout box (tool/gen_layouts.py).

pub open spec fn is_prefix(a: Seq<u8>, b: Seq<u8>) -> bool { a.len() <= b.len() && forall|i: int| 0 <= i < a.len() ==> a[i] == b[i] }

pub proof fn lemma_prefix_refl(a: Seq<u8>) ensures is_prefix(a, a) {}
pub proof fn lemma_prefix_app(a: Seq<u8>, x: Seq<u8>, b: Seq<u8>)
    requires is_prefix(a + x, b)
    ensures is_prefix(a, b)
{
    assert forall|i: int| 0 <= i < a.len() implies a[i] == b[i] by { assert((a + x)[i] == a[i]); }
}

/// the bytes of `all` written at p are what the stream holds there
pub proof fn lemma_wr_index(d: Seq<u8>, p: int, all: Seq<u8>, j: int)
    requires 0 <= p, 0 <= j < all.len()
    ensures wr(d, p, all)[p + j] == all[j], p + j < wr(d, p, all).len()
{}

pub proof fn lemma_rd1(d: Seq<u8>, p: int, pre: Seq<u8>, v: nat, all: Seq<u8>)
    requires 0 <= p, v < 0x100, is_prefix(pre + be_bytes(v, 1), all)
    ensures wr(d, p, all)[p + pre.len()] == v
{
    broadcast use group_be_bytes;
    let x = pre + be_bytes(v, 1);
    assert(x[pre.len() as int] == byte_of(v, 0));
    lemma_wr_index(d, p, all, pre.len() as int);
}
pub proof fn lemma_rd1s(d: Seq<u8>, p: int, pre: Seq<u8>, v: u8, all: Seq<u8>)
    requires 0 <= p, is_prefix(pre + seq![v], all)
    ensures wr(d, p, all)[p + pre.len()] == v
{
    let x = pre + seq![v];
    assert(x[pre.len() as int] == v);
    lemma_wr_index(d, p, all, pre.len() as int);
}
pub proof fn lemma_rd2(d: Seq<u8>, p: int, pre: Seq<u8>, v: nat, all: Seq<u8>)
    requires 0 <= p, v < 0x10000, is_prefix(pre + be_bytes(v, 2), all)
    ensures be16(wr(d, p, all), p + pre.len()) == v
{
    broadcast use group_be_bytes;
    let x = pre + be_bytes(v, 2); let n = pre.len() as int;
    assert(x[n] == byte_of(v, 1) && x[n + 1] == byte_of(v, 0));
    lemma_wr_index(d, p, all, n); lemma_wr_index(d, p, all, n + 1);
}
pub proof fn lemma_rd3(d: Seq<u8>, p: int, pre: Seq<u8>, v: nat, all: Seq<u8>)
    requires 0 <= p, v < 0x1000000, is_prefix(pre + be_bytes(v, 3), all)
    ensures be24(wr(d, p, all), p + pre.len()) == v
{
    broadcast use group_be_bytes;
    let x = pre + be_bytes(v, 3); let n = pre.len() as int;
    assert(x[n] == byte_of(v, 2) && x[n + 1] == byte_of(v, 1) && x[n + 2] == byte_of(v, 0));
    lemma_wr_index(d, p, all, n); lemma_wr_index(d, p, all, n + 1); lemma_wr_index(d, p, all, n + 2);
}
pub proof fn lemma_rd4(d: Seq<u8>, p: int, pre: Seq<u8>, v: nat, all: Seq<u8>)
    requires 0 <= p, v < 0x100000000, is_prefix(pre + be_bytes(v, 4), all)
    ensures be32(wr(d, p, all), p + pre.len()) == v
{
    broadcast use group_be_bytes;
    let x = pre + be_bytes(v, 4); let n = pre.len() as int;
    assert(x[n] == byte_of(v, 3) && x[n + 1] == byte_of(v, 2) && x[n + 2] == byte_of(v, 1) && x[n + 3] == byte_of(v, 0));
    lemma_wr_index(d, p, all, n); lemma_wr_index(d, p, all, n + 1); lemma_wr_index(d, p, all, n + 2); lemma_wr_index(d, p, all, n + 3);
}
/// an 8-byte big-endian value is its high word followed by its low word
pub proof fn lemma_be_bytes_8_split(v: nat)
    requires v < 0x10000000000000000
    ensures be_bytes(v, 8) == be_bytes(v / 0x100000000, 4) + be_bytes(v % 0x100000000, 4)
{
    broadcast use group_be_bytes;
    let w = v as u64;
    assert((w / 0x100000000u64 / 0x1000000u64) % 256u64 == (w / 0x100000000000000u64) % 256u64) by(bit_vector);
    assert((w / 0x100000000u64 / 0x10000u64) % 256u64 == (w / 0x1000000000000u64) % 256u64) by(bit_vector);
    assert((w / 0x100000000u64 / 0x100u64) % 256u64 == (w / 0x10000000000u64) % 256u64) by(bit_vector);
    assert((w / 0x100000000u64 / 1u64) % 256u64 == (w / 0x100000000u64) % 256u64) by(bit_vector);
    assert((w % 0x100000000u64 / 0x1000000u64) % 256u64 == (w / 0x1000000u64) % 256u64) by(bit_vector);
    assert((w % 0x100000000u64 / 0x10000u64) % 256u64 == (w / 0x10000u64) % 256u64) by(bit_vector);
    assert((w % 0x100000000u64 / 0x100u64) % 256u64 == (w / 0x100u64) % 256u64) by(bit_vector);
    assert((w % 0x100000000u64 / 1u64) % 256u64 == (w / 1u64) % 256u64) by(bit_vector);
    assert(be_bytes(v, 8) =~= be_bytes(v / 0x100000000, 4) + be_bytes(v % 0x100000000, 4));
}
pub proof fn lemma_rd8(d: Seq<u8>, p: int, pre: Seq<u8>, v: nat, all: Seq<u8>)
    requires 0 <= p, v < 0x10000000000000000, is_prefix(pre + be_bytes(v, 8), all)
    ensures be64(wr(d, p, all), p + pre.len()) == v
{
    broadcast use lemma_be_bytes_len;
    let hi = v / 0x100000000; let lo = v % 0x100000000;
    lemma_be_bytes_8_split(v);
    assert(pre + be_bytes(v, 8) =~= (pre + be_bytes(hi, 4)) + be_bytes(lo, 4));
    lemma_rd4(d, p, pre + be_bytes(hi, 4), lo, all);
    lemma_prefix_app(pre + be_bytes(hi, 4), be_bytes(lo, 4), all);
    lemma_rd4(d, p, pre, hi, all);
}


/// a 6-byte big-endian value is its high 16 bits followed by its low 32 bits
pub proof fn lemma_be_bytes_6_split(v: nat)
    requires v < 0x1000000000000
    ensures be_bytes(v, 6) == be_bytes(v / 0x100000000, 2) + be_bytes(v % 0x100000000, 4)
{
    broadcast use group_be_bytes;
    reveal_with_fuel(be_bytes, 7);
    assert(v / 256 / 256 == v / 0x10000) by(nonlinear_arith);
    assert(v / 256 / 256 / 256 == v / 0x1000000) by(nonlinear_arith);
    assert(v / 256 / 256 / 256 / 256 == v / 0x100000000) by(nonlinear_arith);
    assert(v / 256 / 256 / 256 / 256 / 256 == v / 0x10000000000) by(nonlinear_arith);
    assert(be_bytes(v, 6) =~= seq![byte_of(v, 5), byte_of(v, 4), byte_of(v, 3), byte_of(v, 2), byte_of(v, 1), byte_of(v, 0)]);
    let w = v as u64;
    assert((w / 0x100000000u64 / 0x100u64) % 256u64 == (w / 0x10000000000u64) % 256u64) by(bit_vector);
    assert((w / 0x100000000u64 / 1u64) % 256u64 == (w / 0x100000000u64) % 256u64) by(bit_vector);
    assert((w % 0x100000000u64 / 0x1000000u64) % 256u64 == (w / 0x1000000u64) % 256u64) by(bit_vector);
    assert((w % 0x100000000u64 / 0x10000u64) % 256u64 == (w / 0x10000u64) % 256u64) by(bit_vector);
    assert((w % 0x100000000u64 / 0x100u64) % 256u64 == (w / 0x100u64) % 256u64) by(bit_vector);
    assert((w % 0x100000000u64 / 1u64) % 256u64 == (w / 1u64) % 256u64) by(bit_vector);
    assert(be_bytes(v, 6) =~= be_bytes(v / 0x100000000, 2) + be_bytes(v % 0x100000000, 4));
}
pub proof fn lemma_rd6(d: Seq<u8>, p: int, pre: Seq<u8>, v: nat, all: Seq<u8>)
    requires 0 <= p, v < 0x1000000000000, is_prefix(pre + be_bytes(v, 6), all)
    ensures be48(wr(d, p, all), p + pre.len()) == v
{
    broadcast use lemma_be_bytes_len;
    let hi = v / 0x100000000; let lo = v % 0x100000000;
    lemma_be_bytes_6_split(v);
    assert(pre + be_bytes(v, 6) =~= (pre + be_bytes(hi, 2)) + be_bytes(lo, 4));
    lemma_rd4(d, p, pre + be_bytes(hi, 2), lo, all);
    lemma_prefix_app(pre + be_bytes(hi, 2), be_bytes(lo, 4), all);
    lemma_rd2(d, p, pre, hi, all);
}

// ---- stsz (hand written like its layout): header fields sample_size / sample_count, then the per-sample sizes
pub proof fn lemma_stsz_prefix_mono(b: StszBox, n: int, m: int)
    requires 0 <= n <= m
    ensures is_prefix(stsz_prefix(b, n), stsz_prefix(b, m))
    decreases m
{
    if n < m {
        lemma_stsz_prefix_mono(b, n, m - 1);
        let a = stsz_prefix(b, n); let x = stsz_prefix(b, m - 1); let y = stsz_prefix(b, m);
        assert forall|i: int| 0 <= i < a.len() implies a[i] == y[i] by { assert(x[i] == y[i]); }
    }
}
pub proof fn lemma_stsz_roundtrip(d: Seq<u8>, p: int, b: StszBox)
    requires 0 <= p, stsz_wire(b)
    ensures stsz_at(wr(d, p, stsz_bytes(b)), p, b)
{
    broadcast use lemma_be_bytes_len;
    let all = stsz_bytes(b); let n = b.sample_sizes@.len() as int; let s = wr(d, p, all);
    lemma_stsz_prefix_mono(b, 0, n);
    let h = hdr_bytes(stsz_len(b) as u64, 0x7374737a);
    let fb = (h + seq![b.version]) + be_bytes(b.flags as nat, 3);
    assert(stsz_prefix(b, 0) == (fb + be_bytes(b.sample_size as nat, 4)) + be_bytes(b.sample_count as nat, 4)) by {
        assert(h + (seq![b.version] + be_bytes(b.flags as nat, 3)) + be_bytes(b.sample_size as nat, 4) + be_bytes(b.sample_count as nat, 4)
               =~= (fb + be_bytes(b.sample_size as nat, 4)) + be_bytes(b.sample_count as nat, 4));
    }
    lemma_rd4(d, p, fb + be_bytes(b.sample_size as nat, 4), b.sample_count as nat, all);
    lemma_prefix_app(fb + be_bytes(b.sample_size as nat, 4), be_bytes(b.sample_count as nat, 4), all);
    lemma_rd4(d, p, fb, b.sample_size as nat, all);
    lemma_prefix_app(fb, be_bytes(b.sample_size as nat, 4), all);
    lemma_rd3(d, p, h + seq![b.version], b.flags as nat, all);
    lemma_prefix_app(h + seq![b.version], be_bytes(b.flags as nat, 3), all);
    assert((h + seq![b.version])[8] == b.version);
    lemma_wr_index(d, p, all, 8);
    assert forall|j: int| 0 <= j < n implies be32(s, p + 20 + 4 * j) == #[trigger] b.sample_sizes@[j] by {
        lemma_stsz_prefix_mono(b, j + 1, n);
        lemma_stsz_prefix_len(b, j);
        let pj = stsz_prefix(b, j);
        assert(stsz_prefix(b, j + 1) == pj + be_bytes(b.sample_sizes@[j] as nat, 4));
        lemma_rd4(d, p, pj, b.sample_sizes@[j] as nat, all);
    }
}

// ---- ftyp (hand written): major brand, minor version, compatible brands to the end of the box
pub proof fn lemma_ftyp_prefix_mono(b: FtypBox, n: int, m: int)
    requires 0 <= n <= m
    ensures is_prefix(ftyp_prefix(b, n), ftyp_prefix(b, m))
    decreases m
{
    if n < m {
        lemma_ftyp_prefix_mono(b, n, m - 1);
        let a = ftyp_prefix(b, n); let x = ftyp_prefix(b, m - 1); let y = ftyp_prefix(b, m);
        assert forall|i: int| 0 <= i < a.len() implies a[i] == y[i] by { assert(x[i] == y[i]); }
    }
}
pub proof fn lemma_ftyp_roundtrip(d: Seq<u8>, p: int, b: FtypBox)
    requires 0 <= p, ftyp_wire(b)
    ensures ftyp_at(wr(d, p, ftyp_bytes(b)), p, ftyp_len(b), b)
{
    broadcast use lemma_be_bytes_len;
    let all = ftyp_bytes(b); let n = b.compatible_brands@.len() as int; let s = wr(d, p, all);
    lemma_ftyp_prefix_mono(b, 0, n);
    let h = hdr_bytes(ftyp_len(b) as u64, 0x66747970);
    lemma_rd4(d, p, h + be_bytes(u32_of_fourcc(b.major_brand) as nat, 4), b.minor_version as nat, all);
    lemma_prefix_app(h + be_bytes(u32_of_fourcc(b.major_brand) as nat, 4), be_bytes(b.minor_version as nat, 4), all);
    lemma_rd4(d, p, h, u32_of_fourcc(b.major_brand) as nat, all);
    assert forall|j: int| 0 <= j < n implies be32(s, p + 16 + 4 * j) == u32_of_fourcc(#[trigger] b.compatible_brands@[j]) by {
        lemma_ftyp_prefix_mono(b, j + 1, n);
        lemma_ftyp_prefix_len(b, j);
        let pj = ftyp_prefix(b, j);
        assert(ftyp_prefix(b, j + 1) == pj + be_bytes(u32_of_fourcc(b.compatible_brands@[j]) as nat, 4));
        lemma_rd4(d, p, pj, u32_of_fourcc(b.compatible_brands@[j]) as nat, all);
    }
}

// ---- avcC: the configuration record written by the reference encoder decodes (avcc_at) to the same record
/// a list of NAL units whose reference bytes sit in `all` at offset `off` is what the decoder's walk finds in wr(d, p, all)
pub proof fn lemma_nals_embedded(d: Seq<u8>, p: int, all: Seq<u8>, off: int, v: Seq<NalUnit>, n: int)
    requires 0 <= p, 0 <= off, nals_wire(v), 0 <= n <= v.len(), off + nals_bytes(v, n).len() <= all.len(),
             forall|k: int| 0 <= k < nals_bytes(v, n).len() ==> all[off + k] == nals_bytes(v, n)[k]
    ensures nals_end(wr(d, p, all), p + off, n) == p + off + nal_sum(v, n), nals_match(wr(d, p, all), p + off, v, n)
    decreases n
{
    broadcast use lemma_be_bytes_len, group_be_bytes;
    let s = wr(d, p, all);
    if n > 0 {
        let pre = nals_bytes(v, n - 1); let x = v[n - 1]; let nb = nal_bytes(x);
        lemma_nals_bytes_len(v, n - 1); lemma_nals_bytes_len(v, n);
        assert(nals_bytes(v, n) == pre + nb);
        assert forall|k: int| 0 <= k < pre.len() implies all[off + k] == pre[k] by { assert((pre + nb)[k] == pre[k]); }
        lemma_nals_embedded(d, p, all, off, v, n - 1);
        let e = p + off + nal_sum(v, n - 1);
        assert(nals_end(s, p + off, n - 1) == e);
        let len = x.bytes@.len();
        // the two length bytes and the payload, read back
        assert forall|k: int| 0 <= k < nb.len() implies s[e + k] == nb[k] by {
            assert((pre + nb)[pre.len() + k] == nb[k]);
            lemma_wr_index(d, p, all, off + pre.len() + k);
        }
        assert(nb[0] == byte_of(len, 1) && nb[1] == byte_of(len, 0));
        assert(s[e] == nb[0] && s[e + 1] == nb[1]);
        lemma_wr_index(d, p, all, off + pre.len() + 1);
        lemma_be16_of_bytes(s, e, len);
        assert(be16(s, e) == len);
        assert(nal_bytes_at(s, e) =~= x.bytes@) by {
            assert forall|k: int| 0 <= k < len implies s.subrange(e + 2, e + 2 + len)[k] == x.bytes@[k] by { assert(nb[2 + k] == x.bytes@[k]); }
        }
        assert(nals_end(s, p + off, n) == nal_end(s, e));
        assert forall|i: int| 0 <= i < n implies (#[trigger] v[i]).bytes@ == nal_bytes_at(s, nals_end(s, p + off, i)) by {
            if i < n - 1 { assert(nals_match(s, p + off, v, n - 1)); }
        }
    }
}

pub proof fn lemma_avcc_roundtrip(d: Seq<u8>, p: int, b: AvcCBox)
    requires 0 <= p, avcc_wire(b), b.length_size_minus_one <= 3
    ensures avcc_at(wr(d, p, avcc_bytes(b)), p + 8, b)
{
    broadcast use lemma_be_bytes_len, group_be_bytes;
    let all = avcc_bytes(b); let s = wr(d, p, all);
    let ns = b.sequence_parameter_sets@.len() as int; let np = b.picture_parameter_sets@.len() as int;
    let hd = avcc_head(b); let sb = nals_bytes(b.sequence_parameter_sets@, ns); let pb = nals_bytes(b.picture_parameter_sets@, np);
    lemma_nals_bytes_len(b.sequence_parameter_sets@, ns); lemma_nals_bytes_len(b.picture_parameter_sets@, np);
    assert(hd.len() == 14);
    assert(all == ((hd + sb) + seq![np as u8]) + pb);
    // the six fixed bytes
    assert forall|k: int| 0 <= k < 14 implies s[p + k] == hd[k] by { assert(all[k] == hd[k]); lemma_wr_index(d, p, all, k); }
    let l = b.length_size_minus_one; let c = ns as u8;
    assert((l | 0xFC) & 0x3 == l) by(bit_vector) requires l <= 3;
    assert((c | 0xE0) & 0x1f == c) by(bit_vector) requires c <= 31;
    // sequence parameter sets at offset 14
    assert forall|k: int| 0 <= k < sb.len() implies all[14 + k] == sb[k] by { assert((hd + sb)[14 + k] == sb[k]); }
    lemma_nals_embedded(d, p, all, 14, b.sequence_parameter_sets@, ns);
    // count byte of the picture parameter sets, then the sets
    let o2 = 14 + sb.len() as int;
    assert(all[o2] == np as u8) by { assert(((hd + sb) + seq![np as u8])[o2] == np as u8); }
    lemma_wr_index(d, p, all, o2);
    assert forall|k: int| 0 <= k < pb.len() implies all[o2 + 1 + k] == pb[k] by { assert((((hd + sb) + seq![np as u8]) + pb)[o2 + 1 + k] == pb[k]); }
    lemma_nals_embedded(d, p, all, o2 + 1, b.picture_parameter_sets@, np);
}
