// SPEC LIBRARY: encoder spec and decoder spec agree (C04 round trip at the level of the specifications):
// writing the reference bytes X_bytes(b) at p yields a stream on which the layout predicate X_at(_, p, b) holds.
// Generic read-back lemmas first, then one generated lemma per fixed-layout box (tool/gen_layouts.py).

pub open spec fn is_prefix(a: Seq<u8>, b: Seq<u8>) -> bool { a.len() <= b.len() && forall|i: int| 0 <= i < a.len() ==> a[i] == b[i] }

pub proof fn lemma_prefix_refl(a: Seq<u8>) ensures is_prefix(a, a) {}
pub proof fn lemma_prefix_app(a: Seq<u8>, x: Seq<u8>, b: Seq<u8>)
    requires is_prefix(a + x, b)
    ensures is_prefix(a, b)
{
    assert forall|i: int| 0 <= i < a.len() implies a[i] == b[i] by { assert((a + x)[i] == a[i]); }
}

/// the bytes of `all` written at p are what the stream holds there
pub proof fn lemma_wr_index(d: Seq<u8>, p: int, all: Seq<u8>, j: int)
    requires 0 <= p, 0 <= j < all.len()
    ensures wr(d, p, all)[p + j] == all[j], p + j < wr(d, p, all).len()
{}

pub proof fn lemma_rd1(d: Seq<u8>, p: int, pre: Seq<u8>, v: nat, all: Seq<u8>)
    requires 0 <= p, v < 0x100, is_prefix(pre + be_bytes(v, 1), all)
    ensures wr(d, p, all)[p + pre.len()] == v
{
    broadcast use group_be_bytes;
    let x = pre + be_bytes(v, 1);
    assert(x[pre.len() as int] == byte_of(v, 0));
    lemma_wr_index(d, p, all, pre.len() as int);
}
pub proof fn lemma_rd2(d: Seq<u8>, p: int, pre: Seq<u8>, v: nat, all: Seq<u8>)
    requires 0 <= p, v < 0x10000, is_prefix(pre + be_bytes(v, 2), all)
    ensures be16(wr(d, p, all), p + pre.len()) == v
{
    broadcast use group_be_bytes;
    let x = pre + be_bytes(v, 2); let n = pre.len() as int;
    assert(x[n] == byte_of(v, 1) && x[n + 1] == byte_of(v, 0));
    lemma_wr_index(d, p, all, n); lemma_wr_index(d, p, all, n + 1);
}
pub proof fn lemma_rd3(d: Seq<u8>, p: int, pre: Seq<u8>, v: nat, all: Seq<u8>)
    requires 0 <= p, v < 0x1000000, is_prefix(pre + be_bytes(v, 3), all)
    ensures be24(wr(d, p, all), p + pre.len()) == v
{
    broadcast use group_be_bytes;
    let x = pre + be_bytes(v, 3); let n = pre.len() as int;
    assert(x[n] == byte_of(v, 2) && x[n + 1] == byte_of(v, 1) && x[n + 2] == byte_of(v, 0));
    lemma_wr_index(d, p, all, n); lemma_wr_index(d, p, all, n + 1); lemma_wr_index(d, p, all, n + 2);
}
pub proof fn lemma_rd4(d: Seq<u8>, p: int, pre: Seq<u8>, v: nat, all: Seq<u8>)
    requires 0 <= p, v < 0x100000000, is_prefix(pre + be_bytes(v, 4), all)
    ensures be32(wr(d, p, all), p + pre.len()) == v
{
    broadcast use group_be_bytes;
    let x = pre + be_bytes(v, 4); let n = pre.len() as int;
    assert(x[n] == byte_of(v, 3) && x[n + 1] == byte_of(v, 2) && x[n + 2] == byte_of(v, 1) && x[n + 3] == byte_of(v, 0));
    lemma_wr_index(d, p, all, n); lemma_wr_index(d, p, all, n + 1); lemma_wr_index(d, p, all, n + 2); lemma_wr_index(d, p, all, n + 3);
}
/// an 8-byte big-endian value is its high word followed by its low word
pub proof fn lemma_be_bytes_8_split(v: nat)
    requires v < 0x10000000000000000
    ensures be_bytes(v, 8) == be_bytes(v / 0x100000000, 4) + be_bytes(v % 0x100000000, 4)
{
    broadcast use group_be_bytes;
    let w = v as u64;
    assert((w / 0x100000000u64 / 0x1000000u64) % 256u64 == (w / 0x100000000000000u64) % 256u64) by(bit_vector);
    assert((w / 0x100000000u64 / 0x10000u64) % 256u64 == (w / 0x1000000000000u64) % 256u64) by(bit_vector);
    assert((w / 0x100000000u64 / 0x100u64) % 256u64 == (w / 0x10000000000u64) % 256u64) by(bit_vector);
    assert((w / 0x100000000u64 / 1u64) % 256u64 == (w / 0x100000000u64) % 256u64) by(bit_vector);
    assert((w % 0x100000000u64 / 0x1000000u64) % 256u64 == (w / 0x1000000u64) % 256u64) by(bit_vector);
    assert((w % 0x100000000u64 / 0x10000u64) % 256u64 == (w / 0x10000u64) % 256u64) by(bit_vector);
    assert((w % 0x100000000u64 / 0x100u64) % 256u64 == (w / 0x100u64) % 256u64) by(bit_vector);
    assert((w % 0x100000000u64 / 1u64) % 256u64 == (w / 1u64) % 256u64) by(bit_vector);
    assert(be_bytes(v, 8) =~= be_bytes(v / 0x100000000, 4) + be_bytes(v % 0x100000000, 4));
}
pub proof fn lemma_rd8(d: Seq<u8>, p: int, pre: Seq<u8>, v: nat, all: Seq<u8>)
    requires 0 <= p, v < 0x10000000000000000, is_prefix(pre + be_bytes(v, 8), all)
    ensures be64(wr(d, p, all), p + pre.len()) == v
{
    broadcast use lemma_be_bytes_len;
    let hi = v / 0x100000000; let lo = v % 0x100000000;
    lemma_be_bytes_8_split(v);
    assert(pre + be_bytes(v, 8) =~= (pre + be_bytes(hi, 4)) + be_bytes(lo, 4));
    lemma_rd4(d, p, pre + be_bytes(hi, 4), lo, all);
    lemma_prefix_app(pre + be_bytes(hi, 4), be_bytes(lo, 4), all);
    lemma_rd4(d, p, pre, hi, all);
}


// ---- stsz (hand written like its layout): header fields sample_size / sample_count, then the per-sample sizes
pub proof fn lemma_stsz_prefix_mono(b: StszBox, n: int, m: int)
    requires 0 <= n <= m
    ensures is_prefix(stsz_prefix(b, n), stsz_prefix(b, m))
    decreases m
{
    if n < m {
        lemma_stsz_prefix_mono(b, n, m - 1);
        let a = stsz_prefix(b, n); let x = stsz_prefix(b, m - 1); let y = stsz_prefix(b, m);
        assert forall|i: int| 0 <= i < a.len() implies a[i] == y[i] by { assert(x[i] == y[i]); }
    }
}
pub proof fn lemma_stsz_roundtrip(d: Seq<u8>, p: int, b: StszBox)
    requires 0 <= p, stsz_wire(b)
    ensures stsz_at(wr(d, p, stsz_bytes(b)), p, b)
{
    broadcast use lemma_be_bytes_len;
    let all = stsz_bytes(b); let n = b.sample_sizes@.len() as int; let s = wr(d, p, all);
    lemma_stsz_prefix_mono(b, 0, n);
    let h = hdr_bytes(stsz_len(b) as u64, 0x7374737a);
    let fb = (h + seq![b.version]) + be_bytes(b.flags as nat, 3);
    assert(stsz_prefix(b, 0) == (fb + be_bytes(b.sample_size as nat, 4)) + be_bytes(b.sample_count as nat, 4)) by {
        assert(h + (seq![b.version] + be_bytes(b.flags as nat, 3)) + be_bytes(b.sample_size as nat, 4) + be_bytes(b.sample_count as nat, 4)
               =~= (fb + be_bytes(b.sample_size as nat, 4)) + be_bytes(b.sample_count as nat, 4));
    }
    lemma_rd4(d, p, fb + be_bytes(b.sample_size as nat, 4), b.sample_count as nat, all);
    lemma_prefix_app(fb + be_bytes(b.sample_size as nat, 4), be_bytes(b.sample_count as nat, 4), all);
    lemma_rd4(d, p, fb, b.sample_size as nat, all);
    lemma_prefix_app(fb, be_bytes(b.sample_size as nat, 4), all);
    lemma_rd3(d, p, h + seq![b.version], b.flags as nat, all);
    lemma_prefix_app(h + seq![b.version], be_bytes(b.flags as nat, 3), all);
    assert((h + seq![b.version])[8] == b.version);
    lemma_wr_index(d, p, all, 8);
    assert forall|j: int| 0 <= j < n implies be32(s, p + 20 + 4 * j) == #[trigger] b.sample_sizes@[j] by {
        lemma_stsz_prefix_mono(b, j + 1, n);
        lemma_stsz_prefix_len(b, j);
        let pj = stsz_prefix(b, j);
        assert(stsz_prefix(b, j + 1) == pj + be_bytes(b.sample_sizes@[j] as nat, 4));
        lemma_rd4(d, p, pj, b.sample_sizes@[j] as nat, all);
    }
}

// ---- ftyp (hand written): major brand, minor version, compatible brands to the end of the box
pub proof fn lemma_ftyp_prefix_mono(b: FtypBox, n: int, m: int)
    requires 0 <= n <= m
    ensures is_prefix(ftyp_prefix(b, n), ftyp_prefix(b, m))
    decreases m
{
    if n < m {
        lemma_ftyp_prefix_mono(b, n, m - 1);
        let a = ftyp_prefix(b, n); let x = ftyp_prefix(b, m - 1); let y = ftyp_prefix(b, m);
        assert forall|i: int| 0 <= i < a.len() implies a[i] == y[i] by { assert(x[i] == y[i]); }
    }
}
pub proof fn lemma_ftyp_roundtrip(d: Seq<u8>, p: int, b: FtypBox)
    requires 0 <= p, ftyp_wire(b)
    ensures ftyp_at(wr(d, p, ftyp_bytes(b)), p, ftyp_len(b), b)
{
    broadcast use lemma_be_bytes_len;
    let all = ftyp_bytes(b); let n = b.compatible_brands@.len() as int; let s = wr(d, p, all);
    lemma_ftyp_prefix_mono(b, 0, n);
    let h = hdr_bytes(ftyp_len(b) as u64, 0x66747970);
    lemma_rd4(d, p, h + be_bytes(u32_of_fourcc(b.major_brand) as nat, 4), b.minor_version as nat, all);
    lemma_prefix_app(h + be_bytes(u32_of_fourcc(b.major_brand) as nat, 4), be_bytes(b.minor_version as nat, 4), all);
    lemma_rd4(d, p, h, u32_of_fourcc(b.major_brand) as nat, all);
    assert forall|j: int| 0 <= j < n implies be32(s, p + 16 + 4 * j) == u32_of_fourcc(#[trigger] b.compatible_brands@[j]) by {
        lemma_ftyp_prefix_mono(b, j + 1, n);
        lemma_ftyp_prefix_len(b, j);
        let pj = ftyp_prefix(b, j);
        assert(ftyp_prefix(b, j + 1) == pj + be_bytes(u32_of_fourcc(b.compatible_brands@[j]) as nat, 4));
        lemma_rd4(d, p, pj, u32_of_fourcc(b.compatible_brands@[j]) as nat, all);
    }
}
