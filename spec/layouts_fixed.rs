// SPEC LIBRARY: fixed-layout boxes (emitted once by tool/gen_layouts.py from the ISO syntax tables; committed text)
// ---- mvhd: ISO/IEC 14496-12 section 8.2.2 MovieHeaderBox extends FullBox('mvhd', version, flags)
pub open spec fn mvhd_off_0(b: MvhdBox) -> int { 12 }
pub open spec fn mvhd_off_1(b: MvhdBox) -> int { mvhd_off_0(b) + (if b.version == 1 { 8int } else { 0int }) }
pub open spec fn mvhd_off_2(b: MvhdBox) -> int { mvhd_off_1(b) + (if b.version == 1 { 8int } else { 0int }) }
pub open spec fn mvhd_off_3(b: MvhdBox) -> int { mvhd_off_2(b) + (if b.version == 1 { 4int } else { 0int }) }
pub open spec fn mvhd_off_4(b: MvhdBox) -> int { mvhd_off_3(b) + (if b.version == 1 { 8int } else { 0int }) }
pub open spec fn mvhd_off_5(b: MvhdBox) -> int { mvhd_off_4(b) + (if b.version == 0 { 4int } else { 0int }) }
pub open spec fn mvhd_off_6(b: MvhdBox) -> int { mvhd_off_5(b) + (if b.version == 0 { 4int } else { 0int }) }
pub open spec fn mvhd_off_7(b: MvhdBox) -> int { mvhd_off_6(b) + (if b.version == 0 { 4int } else { 0int }) }
pub open spec fn mvhd_off_8(b: MvhdBox) -> int { mvhd_off_7(b) + (if b.version == 0 { 4int } else { 0int }) }
pub open spec fn mvhd_off_9(b: MvhdBox) -> int { mvhd_off_8(b) + 4 }
pub open spec fn mvhd_off_10(b: MvhdBox) -> int { mvhd_off_9(b) + 2 }
pub open spec fn mvhd_off_11(b: MvhdBox) -> int { mvhd_off_10(b) + 2 }
pub open spec fn mvhd_off_12(b: MvhdBox) -> int { mvhd_off_11(b) + 8 }
pub open spec fn mvhd_off_13(b: MvhdBox) -> int { mvhd_off_12(b) + 4 }
pub open spec fn mvhd_off_14(b: MvhdBox) -> int { mvhd_off_13(b) + 4 }
pub open spec fn mvhd_off_15(b: MvhdBox) -> int { mvhd_off_14(b) + 4 }
pub open spec fn mvhd_off_16(b: MvhdBox) -> int { mvhd_off_15(b) + 4 }
pub open spec fn mvhd_off_17(b: MvhdBox) -> int { mvhd_off_16(b) + 4 }
pub open spec fn mvhd_off_18(b: MvhdBox) -> int { mvhd_off_17(b) + 4 }
pub open spec fn mvhd_off_19(b: MvhdBox) -> int { mvhd_off_18(b) + 4 }
pub open spec fn mvhd_off_20(b: MvhdBox) -> int { mvhd_off_19(b) + 4 }
pub open spec fn mvhd_off_21(b: MvhdBox) -> int { mvhd_off_20(b) + 4 }
pub open spec fn mvhd_off_22(b: MvhdBox) -> int { mvhd_off_21(b) + 24 }
pub open spec fn mvhd_off_23(b: MvhdBox) -> int { mvhd_off_22(b) + 4 }
pub open spec fn mvhd_len(b: MvhdBox) -> int { mvhd_off_23(b) }

pub open spec fn mvhd_rd_wire(b: MvhdBox) -> bool { flags_wire(b.flags) && b.version <= 1 && (b.rate.0.denom == 0x10000 && b.volume.0.denom == 0x100 && (b.version == 0 ==> b.creation_time <= 0xffff_ffff && b.modification_time <= 0xffff_ffff && b.duration <= 0xffff_ffff)) }
pub open spec fn mvhd_wire(b: MvhdBox) -> bool { flags_wire(b.flags) && b.version <= 1 && (b.rate.0.denom == 0x10000 && b.volume.0.denom == 0x100 && (b.version == 0 ==> b.creation_time <= 0xffff_ffff && b.modification_time <= 0xffff_ffff && b.duration <= 0xffff_ffff)) }

/// layout: what the decoder must have seen (reserved fields are not constrained on input)
pub open spec fn mvhd_at(d: Seq<u8>, p: int, b: MvhdBox) -> bool {
    &&& fullbox_at(d, p, b.version, b.flags)
    &&& ((b.version == 1) ==> be64(d, p + mvhd_off_0(b)) == b.creation_time)
    &&& ((b.version == 1) ==> be64(d, p + mvhd_off_1(b)) == b.modification_time)
    &&& ((b.version == 1) ==> be32(d, p + mvhd_off_2(b)) == b.timescale)
    &&& ((b.version == 1) ==> be64(d, p + mvhd_off_3(b)) == b.duration)
    &&& ((b.version == 0) ==> be32(d, p + mvhd_off_4(b)) == (b.creation_time as u32))
    &&& ((b.version == 0) ==> be32(d, p + mvhd_off_5(b)) == (b.modification_time as u32))
    &&& ((b.version == 0) ==> be32(d, p + mvhd_off_6(b)) == b.timescale)
    &&& ((b.version == 0) ==> be32(d, p + mvhd_off_7(b)) == (b.duration as u32))
    &&& (be32(d, p + mvhd_off_8(b)) == b.rate.0.numer)
    &&& (be16(d, p + mvhd_off_9(b)) == b.volume.0.numer)
    &&& ((be32(d, p + mvhd_off_12(b)) as i32) == b.matrix.a)
    &&& ((be32(d, p + mvhd_off_13(b)) as i32) == b.matrix.b)
    &&& ((be32(d, p + mvhd_off_14(b)) as i32) == b.matrix.u)
    &&& ((be32(d, p + mvhd_off_15(b)) as i32) == b.matrix.c)
    &&& ((be32(d, p + mvhd_off_16(b)) as i32) == b.matrix.d)
    &&& ((be32(d, p + mvhd_off_17(b)) as i32) == b.matrix.v)
    &&& ((be32(d, p + mvhd_off_18(b)) as i32) == b.matrix.x)
    &&& ((be32(d, p + mvhd_off_19(b)) as i32) == b.matrix.y)
    &&& ((be32(d, p + mvhd_off_20(b)) as i32) == b.matrix.w)
    &&& (be32(d, p + mvhd_off_22(b)) == b.next_track_id)
}

/// reference encoder, field by field
pub open spec fn mvhd_pre_0(b: MvhdBox) -> Seq<u8> { hdr_bytes(mvhd_len(b) as u64, 0x6d766864) + fullbox_bytes(b.version, b.flags) }
pub open spec fn mvhd_pre_1(b: MvhdBox) -> Seq<u8> { if b.version == 1 { mvhd_pre_0(b) + be_bytes(b.creation_time as nat, 8) } else { mvhd_pre_0(b) } }
pub open spec fn mvhd_pre_2(b: MvhdBox) -> Seq<u8> { if b.version == 1 { mvhd_pre_1(b) + be_bytes(b.modification_time as nat, 8) } else { mvhd_pre_1(b) } }
pub open spec fn mvhd_pre_3(b: MvhdBox) -> Seq<u8> { if b.version == 1 { mvhd_pre_2(b) + be_bytes(b.timescale as nat, 4) } else { mvhd_pre_2(b) } }
pub open spec fn mvhd_pre_4(b: MvhdBox) -> Seq<u8> { if b.version == 1 { mvhd_pre_3(b) + be_bytes(b.duration as nat, 8) } else { mvhd_pre_3(b) } }
pub open spec fn mvhd_pre_5(b: MvhdBox) -> Seq<u8> { if b.version == 0 { mvhd_pre_4(b) + be_bytes((b.creation_time as u32) as nat, 4) } else { mvhd_pre_4(b) } }
pub open spec fn mvhd_pre_6(b: MvhdBox) -> Seq<u8> { if b.version == 0 { mvhd_pre_5(b) + be_bytes((b.modification_time as u32) as nat, 4) } else { mvhd_pre_5(b) } }
pub open spec fn mvhd_pre_7(b: MvhdBox) -> Seq<u8> { if b.version == 0 { mvhd_pre_6(b) + be_bytes(b.timescale as nat, 4) } else { mvhd_pre_6(b) } }
pub open spec fn mvhd_pre_8(b: MvhdBox) -> Seq<u8> { if b.version == 0 { mvhd_pre_7(b) + be_bytes((b.duration as u32) as nat, 4) } else { mvhd_pre_7(b) } }
pub open spec fn mvhd_pre_9(b: MvhdBox) -> Seq<u8> { mvhd_pre_8(b) + be_bytes(b.rate.0.numer as nat, 4) }
pub open spec fn mvhd_pre_10(b: MvhdBox) -> Seq<u8> { mvhd_pre_9(b) + be_bytes(b.volume.0.numer as nat, 2) }
pub open spec fn mvhd_pre_11(b: MvhdBox) -> Seq<u8> { mvhd_pre_10(b) + be_bytes(0, 2) }
pub open spec fn mvhd_pre_12(b: MvhdBox) -> Seq<u8> { mvhd_pre_11(b) + be_bytes(0, 8) }
pub open spec fn mvhd_pre_13(b: MvhdBox) -> Seq<u8> { mvhd_pre_12(b) + be_bytes((b.matrix.a as u32) as nat, 4) }
pub open spec fn mvhd_pre_14(b: MvhdBox) -> Seq<u8> { mvhd_pre_13(b) + be_bytes((b.matrix.b as u32) as nat, 4) }
pub open spec fn mvhd_pre_15(b: MvhdBox) -> Seq<u8> { mvhd_pre_14(b) + be_bytes((b.matrix.u as u32) as nat, 4) }
pub open spec fn mvhd_pre_16(b: MvhdBox) -> Seq<u8> { mvhd_pre_15(b) + be_bytes((b.matrix.c as u32) as nat, 4) }
pub open spec fn mvhd_pre_17(b: MvhdBox) -> Seq<u8> { mvhd_pre_16(b) + be_bytes((b.matrix.d as u32) as nat, 4) }
pub open spec fn mvhd_pre_18(b: MvhdBox) -> Seq<u8> { mvhd_pre_17(b) + be_bytes((b.matrix.v as u32) as nat, 4) }
pub open spec fn mvhd_pre_19(b: MvhdBox) -> Seq<u8> { mvhd_pre_18(b) + be_bytes((b.matrix.x as u32) as nat, 4) }
pub open spec fn mvhd_pre_20(b: MvhdBox) -> Seq<u8> { mvhd_pre_19(b) + be_bytes((b.matrix.y as u32) as nat, 4) }
pub open spec fn mvhd_pre_21(b: MvhdBox) -> Seq<u8> { mvhd_pre_20(b) + be_bytes((b.matrix.w as u32) as nat, 4) }
pub open spec fn mvhd_pre_22(b: MvhdBox) -> Seq<u8> { mvhd_pre_21(b) + Seq::new(24nat, |i: int| 0u8) }
pub open spec fn mvhd_pre_23(b: MvhdBox) -> Seq<u8> { mvhd_pre_22(b) + be_bytes(b.next_track_id as nat, 4) }
pub open spec fn mvhd_bytes(b: MvhdBox) -> Seq<u8> { mvhd_pre_23(b) }

pub proof fn lemma_mvhd_pre_len(b: MvhdBox)
    ensures mvhd_pre_0(b).len() == mvhd_off_0(b), mvhd_pre_1(b).len() == mvhd_off_1(b), mvhd_pre_2(b).len() == mvhd_off_2(b), mvhd_pre_3(b).len() == mvhd_off_3(b), mvhd_pre_4(b).len() == mvhd_off_4(b), mvhd_pre_5(b).len() == mvhd_off_5(b), mvhd_pre_6(b).len() == mvhd_off_6(b), mvhd_pre_7(b).len() == mvhd_off_7(b), mvhd_pre_8(b).len() == mvhd_off_8(b), mvhd_pre_9(b).len() == mvhd_off_9(b), mvhd_pre_10(b).len() == mvhd_off_10(b), mvhd_pre_11(b).len() == mvhd_off_11(b), mvhd_pre_12(b).len() == mvhd_off_12(b), mvhd_pre_13(b).len() == mvhd_off_13(b), mvhd_pre_14(b).len() == mvhd_off_14(b), mvhd_pre_15(b).len() == mvhd_off_15(b), mvhd_pre_16(b).len() == mvhd_off_16(b), mvhd_pre_17(b).len() == mvhd_off_17(b), mvhd_pre_18(b).len() == mvhd_off_18(b), mvhd_pre_19(b).len() == mvhd_off_19(b), mvhd_pre_20(b).len() == mvhd_off_20(b), mvhd_pre_21(b).len() == mvhd_off_21(b), mvhd_pre_22(b).len() == mvhd_off_22(b), mvhd_pre_23(b).len() == mvhd_off_23(b)
{
    broadcast use lemma_be_bytes_len;
}

// ---- tkhd: ISO/IEC 14496-12 section 8.3.2 TrackHeaderBox extends FullBox('tkhd', version, flags)
pub open spec fn tkhd_off_0(b: TkhdBox) -> int { 12 }
pub open spec fn tkhd_off_1(b: TkhdBox) -> int { tkhd_off_0(b) + (if b.version == 1 { 8int } else { 0int }) }
pub open spec fn tkhd_off_2(b: TkhdBox) -> int { tkhd_off_1(b) + (if b.version == 1 { 8int } else { 0int }) }
pub open spec fn tkhd_off_3(b: TkhdBox) -> int { tkhd_off_2(b) + (if b.version == 1 { 4int } else { 0int }) }
pub open spec fn tkhd_off_4(b: TkhdBox) -> int { tkhd_off_3(b) + (if b.version == 1 { 4int } else { 0int }) }
pub open spec fn tkhd_off_5(b: TkhdBox) -> int { tkhd_off_4(b) + (if b.version == 1 { 8int } else { 0int }) }
pub open spec fn tkhd_off_6(b: TkhdBox) -> int { tkhd_off_5(b) + (if b.version == 0 { 4int } else { 0int }) }
pub open spec fn tkhd_off_7(b: TkhdBox) -> int { tkhd_off_6(b) + (if b.version == 0 { 4int } else { 0int }) }
pub open spec fn tkhd_off_8(b: TkhdBox) -> int { tkhd_off_7(b) + (if b.version == 0 { 4int } else { 0int }) }
pub open spec fn tkhd_off_9(b: TkhdBox) -> int { tkhd_off_8(b) + (if b.version == 0 { 4int } else { 0int }) }
pub open spec fn tkhd_off_10(b: TkhdBox) -> int { tkhd_off_9(b) + (if b.version == 0 { 4int } else { 0int }) }
pub open spec fn tkhd_off_11(b: TkhdBox) -> int { tkhd_off_10(b) + 8 }
pub open spec fn tkhd_off_12(b: TkhdBox) -> int { tkhd_off_11(b) + 2 }
pub open spec fn tkhd_off_13(b: TkhdBox) -> int { tkhd_off_12(b) + 2 }
pub open spec fn tkhd_off_14(b: TkhdBox) -> int { tkhd_off_13(b) + 2 }
pub open spec fn tkhd_off_15(b: TkhdBox) -> int { tkhd_off_14(b) + 2 }
pub open spec fn tkhd_off_16(b: TkhdBox) -> int { tkhd_off_15(b) + 4 }
pub open spec fn tkhd_off_17(b: TkhdBox) -> int { tkhd_off_16(b) + 4 }
pub open spec fn tkhd_off_18(b: TkhdBox) -> int { tkhd_off_17(b) + 4 }
pub open spec fn tkhd_off_19(b: TkhdBox) -> int { tkhd_off_18(b) + 4 }
pub open spec fn tkhd_off_20(b: TkhdBox) -> int { tkhd_off_19(b) + 4 }
pub open spec fn tkhd_off_21(b: TkhdBox) -> int { tkhd_off_20(b) + 4 }
pub open spec fn tkhd_off_22(b: TkhdBox) -> int { tkhd_off_21(b) + 4 }
pub open spec fn tkhd_off_23(b: TkhdBox) -> int { tkhd_off_22(b) + 4 }
pub open spec fn tkhd_off_24(b: TkhdBox) -> int { tkhd_off_23(b) + 4 }
pub open spec fn tkhd_off_25(b: TkhdBox) -> int { tkhd_off_24(b) + 4 }
pub open spec fn tkhd_off_26(b: TkhdBox) -> int { tkhd_off_25(b) + 4 }
pub open spec fn tkhd_len(b: TkhdBox) -> int { tkhd_off_26(b) }

pub open spec fn tkhd_rd_wire(b: TkhdBox) -> bool { flags_wire(b.flags) && b.version <= 1 && (b.volume.0.denom == 0x100 && b.width.0.denom == 0x10000 && b.height.0.denom == 0x10000 && (b.version == 0 ==> b.creation_time <= 0xffff_ffff && b.modification_time <= 0xffff_ffff && b.duration <= 0xffff_ffff)) }
pub open spec fn tkhd_wire(b: TkhdBox) -> bool { flags_wire(b.flags) && b.version <= 1 && (b.volume.0.denom == 0x100 && b.width.0.denom == 0x10000 && b.height.0.denom == 0x10000 && (b.version == 0 ==> b.creation_time <= 0xffff_ffff && b.modification_time <= 0xffff_ffff && b.duration <= 0xffff_ffff)) }

/// layout: what the decoder must have seen (reserved fields are not constrained on input)
pub open spec fn tkhd_at(d: Seq<u8>, p: int, b: TkhdBox) -> bool {
    &&& fullbox_at(d, p, b.version, b.flags)
    &&& ((b.version == 1) ==> be64(d, p + tkhd_off_0(b)) == b.creation_time)
    &&& ((b.version == 1) ==> be64(d, p + tkhd_off_1(b)) == b.modification_time)
    &&& ((b.version == 1) ==> be32(d, p + tkhd_off_2(b)) == b.track_id)
    &&& ((b.version == 1) ==> be64(d, p + tkhd_off_4(b)) == b.duration)
    &&& ((b.version == 0) ==> be32(d, p + tkhd_off_5(b)) == (b.creation_time as u32))
    &&& ((b.version == 0) ==> be32(d, p + tkhd_off_6(b)) == (b.modification_time as u32))
    &&& ((b.version == 0) ==> be32(d, p + tkhd_off_7(b)) == b.track_id)
    &&& ((b.version == 0) ==> be32(d, p + tkhd_off_9(b)) == (b.duration as u32))
    &&& (be16(d, p + tkhd_off_11(b)) == b.layer)
    &&& (be16(d, p + tkhd_off_12(b)) == b.alternate_group)
    &&& (be16(d, p + tkhd_off_13(b)) == b.volume.0.numer)
    &&& ((be32(d, p + tkhd_off_15(b)) as i32) == b.matrix.a)
    &&& ((be32(d, p + tkhd_off_16(b)) as i32) == b.matrix.b)
    &&& ((be32(d, p + tkhd_off_17(b)) as i32) == b.matrix.u)
    &&& ((be32(d, p + tkhd_off_18(b)) as i32) == b.matrix.c)
    &&& ((be32(d, p + tkhd_off_19(b)) as i32) == b.matrix.d)
    &&& ((be32(d, p + tkhd_off_20(b)) as i32) == b.matrix.v)
    &&& ((be32(d, p + tkhd_off_21(b)) as i32) == b.matrix.x)
    &&& ((be32(d, p + tkhd_off_22(b)) as i32) == b.matrix.y)
    &&& ((be32(d, p + tkhd_off_23(b)) as i32) == b.matrix.w)
    &&& (be32(d, p + tkhd_off_24(b)) == b.width.0.numer)
    &&& (be32(d, p + tkhd_off_25(b)) == b.height.0.numer)
}

/// reference encoder, field by field
pub open spec fn tkhd_pre_0(b: TkhdBox) -> Seq<u8> { hdr_bytes(tkhd_len(b) as u64, 0x746b6864) + fullbox_bytes(b.version, b.flags) }
pub open spec fn tkhd_pre_1(b: TkhdBox) -> Seq<u8> { if b.version == 1 { tkhd_pre_0(b) + be_bytes(b.creation_time as nat, 8) } else { tkhd_pre_0(b) } }
pub open spec fn tkhd_pre_2(b: TkhdBox) -> Seq<u8> { if b.version == 1 { tkhd_pre_1(b) + be_bytes(b.modification_time as nat, 8) } else { tkhd_pre_1(b) } }
pub open spec fn tkhd_pre_3(b: TkhdBox) -> Seq<u8> { if b.version == 1 { tkhd_pre_2(b) + be_bytes(b.track_id as nat, 4) } else { tkhd_pre_2(b) } }
pub open spec fn tkhd_pre_4(b: TkhdBox) -> Seq<u8> { if b.version == 1 { tkhd_pre_3(b) + be_bytes(0, 4) } else { tkhd_pre_3(b) } }
pub open spec fn tkhd_pre_5(b: TkhdBox) -> Seq<u8> { if b.version == 1 { tkhd_pre_4(b) + be_bytes(b.duration as nat, 8) } else { tkhd_pre_4(b) } }
pub open spec fn tkhd_pre_6(b: TkhdBox) -> Seq<u8> { if b.version == 0 { tkhd_pre_5(b) + be_bytes((b.creation_time as u32) as nat, 4) } else { tkhd_pre_5(b) } }
pub open spec fn tkhd_pre_7(b: TkhdBox) -> Seq<u8> { if b.version == 0 { tkhd_pre_6(b) + be_bytes((b.modification_time as u32) as nat, 4) } else { tkhd_pre_6(b) } }
pub open spec fn tkhd_pre_8(b: TkhdBox) -> Seq<u8> { if b.version == 0 { tkhd_pre_7(b) + be_bytes(b.track_id as nat, 4) } else { tkhd_pre_7(b) } }
pub open spec fn tkhd_pre_9(b: TkhdBox) -> Seq<u8> { if b.version == 0 { tkhd_pre_8(b) + be_bytes(0, 4) } else { tkhd_pre_8(b) } }
pub open spec fn tkhd_pre_10(b: TkhdBox) -> Seq<u8> { if b.version == 0 { tkhd_pre_9(b) + be_bytes((b.duration as u32) as nat, 4) } else { tkhd_pre_9(b) } }
pub open spec fn tkhd_pre_11(b: TkhdBox) -> Seq<u8> { tkhd_pre_10(b) + be_bytes(0, 8) }
pub open spec fn tkhd_pre_12(b: TkhdBox) -> Seq<u8> { tkhd_pre_11(b) + be_bytes(b.layer as nat, 2) }
pub open spec fn tkhd_pre_13(b: TkhdBox) -> Seq<u8> { tkhd_pre_12(b) + be_bytes(b.alternate_group as nat, 2) }
pub open spec fn tkhd_pre_14(b: TkhdBox) -> Seq<u8> { tkhd_pre_13(b) + be_bytes(b.volume.0.numer as nat, 2) }
pub open spec fn tkhd_pre_15(b: TkhdBox) -> Seq<u8> { tkhd_pre_14(b) + be_bytes(0, 2) }
pub open spec fn tkhd_pre_16(b: TkhdBox) -> Seq<u8> { tkhd_pre_15(b) + be_bytes((b.matrix.a as u32) as nat, 4) }
pub open spec fn tkhd_pre_17(b: TkhdBox) -> Seq<u8> { tkhd_pre_16(b) + be_bytes((b.matrix.b as u32) as nat, 4) }
pub open spec fn tkhd_pre_18(b: TkhdBox) -> Seq<u8> { tkhd_pre_17(b) + be_bytes((b.matrix.u as u32) as nat, 4) }
pub open spec fn tkhd_pre_19(b: TkhdBox) -> Seq<u8> { tkhd_pre_18(b) + be_bytes((b.matrix.c as u32) as nat, 4) }
pub open spec fn tkhd_pre_20(b: TkhdBox) -> Seq<u8> { tkhd_pre_19(b) + be_bytes((b.matrix.d as u32) as nat, 4) }
pub open spec fn tkhd_pre_21(b: TkhdBox) -> Seq<u8> { tkhd_pre_20(b) + be_bytes((b.matrix.v as u32) as nat, 4) }
pub open spec fn tkhd_pre_22(b: TkhdBox) -> Seq<u8> { tkhd_pre_21(b) + be_bytes((b.matrix.x as u32) as nat, 4) }
pub open spec fn tkhd_pre_23(b: TkhdBox) -> Seq<u8> { tkhd_pre_22(b) + be_bytes((b.matrix.y as u32) as nat, 4) }
pub open spec fn tkhd_pre_24(b: TkhdBox) -> Seq<u8> { tkhd_pre_23(b) + be_bytes((b.matrix.w as u32) as nat, 4) }
pub open spec fn tkhd_pre_25(b: TkhdBox) -> Seq<u8> { tkhd_pre_24(b) + be_bytes(b.width.0.numer as nat, 4) }
pub open spec fn tkhd_pre_26(b: TkhdBox) -> Seq<u8> { tkhd_pre_25(b) + be_bytes(b.height.0.numer as nat, 4) }
pub open spec fn tkhd_bytes(b: TkhdBox) -> Seq<u8> { tkhd_pre_26(b) }

pub proof fn lemma_tkhd_pre_len(b: TkhdBox)
    ensures tkhd_pre_0(b).len() == tkhd_off_0(b), tkhd_pre_1(b).len() == tkhd_off_1(b), tkhd_pre_2(b).len() == tkhd_off_2(b), tkhd_pre_3(b).len() == tkhd_off_3(b), tkhd_pre_4(b).len() == tkhd_off_4(b), tkhd_pre_5(b).len() == tkhd_off_5(b), tkhd_pre_6(b).len() == tkhd_off_6(b), tkhd_pre_7(b).len() == tkhd_off_7(b), tkhd_pre_8(b).len() == tkhd_off_8(b), tkhd_pre_9(b).len() == tkhd_off_9(b), tkhd_pre_10(b).len() == tkhd_off_10(b), tkhd_pre_11(b).len() == tkhd_off_11(b), tkhd_pre_12(b).len() == tkhd_off_12(b), tkhd_pre_13(b).len() == tkhd_off_13(b), tkhd_pre_14(b).len() == tkhd_off_14(b), tkhd_pre_15(b).len() == tkhd_off_15(b), tkhd_pre_16(b).len() == tkhd_off_16(b), tkhd_pre_17(b).len() == tkhd_off_17(b), tkhd_pre_18(b).len() == tkhd_off_18(b), tkhd_pre_19(b).len() == tkhd_off_19(b), tkhd_pre_20(b).len() == tkhd_off_20(b), tkhd_pre_21(b).len() == tkhd_off_21(b), tkhd_pre_22(b).len() == tkhd_off_22(b), tkhd_pre_23(b).len() == tkhd_off_23(b), tkhd_pre_24(b).len() == tkhd_off_24(b), tkhd_pre_25(b).len() == tkhd_off_25(b), tkhd_pre_26(b).len() == tkhd_off_26(b)
{
    broadcast use lemma_be_bytes_len;
}

// ---- mdhd: ISO/IEC 14496-12 section 8.4.2 MediaHeaderBox extends FullBox('mdhd', version, flags)
pub open spec fn mdhd_off_0(b: MdhdBox) -> int { 12 }
pub open spec fn mdhd_off_1(b: MdhdBox) -> int { mdhd_off_0(b) + (if b.version == 1 { 8int } else { 0int }) }
pub open spec fn mdhd_off_2(b: MdhdBox) -> int { mdhd_off_1(b) + (if b.version == 1 { 8int } else { 0int }) }
pub open spec fn mdhd_off_3(b: MdhdBox) -> int { mdhd_off_2(b) + (if b.version == 1 { 4int } else { 0int }) }
pub open spec fn mdhd_off_4(b: MdhdBox) -> int { mdhd_off_3(b) + (if b.version == 1 { 8int } else { 0int }) }
pub open spec fn mdhd_off_5(b: MdhdBox) -> int { mdhd_off_4(b) + (if b.version == 0 { 4int } else { 0int }) }
pub open spec fn mdhd_off_6(b: MdhdBox) -> int { mdhd_off_5(b) + (if b.version == 0 { 4int } else { 0int }) }
pub open spec fn mdhd_off_7(b: MdhdBox) -> int { mdhd_off_6(b) + (if b.version == 0 { 4int } else { 0int }) }
pub open spec fn mdhd_off_8(b: MdhdBox) -> int { mdhd_off_7(b) + (if b.version == 0 { 4int } else { 0int }) }
pub open spec fn mdhd_off_9(b: MdhdBox) -> int { mdhd_off_8(b) + 2 }
pub open spec fn mdhd_off_10(b: MdhdBox) -> int { mdhd_off_9(b) + 2 }
pub open spec fn mdhd_len(b: MdhdBox) -> int { mdhd_off_10(b) }

pub open spec fn mdhd_rd_wire(b: MdhdBox) -> bool { flags_wire(b.flags) && b.version <= 1 && ((b.version == 0 ==> b.creation_time <= 0xffff_ffff && b.modification_time <= 0xffff_ffff && b.duration <= 0xffff_ffff)) }
pub open spec fn mdhd_wire(b: MdhdBox) -> bool { flags_wire(b.flags) && b.version <= 1 && ((b.version == 0 ==> b.creation_time <= 0xffff_ffff && b.modification_time <= 0xffff_ffff && b.duration <= 0xffff_ffff)) }

/// layout: what the decoder must have seen (reserved fields are not constrained on input)
pub open spec fn mdhd_at(d: Seq<u8>, p: int, b: MdhdBox) -> bool {
    &&& fullbox_at(d, p, b.version, b.flags)
    &&& ((b.version == 1) ==> be64(d, p + mdhd_off_0(b)) == b.creation_time)
    &&& ((b.version == 1) ==> be64(d, p + mdhd_off_1(b)) == b.modification_time)
    &&& ((b.version == 1) ==> be32(d, p + mdhd_off_2(b)) == b.timescale)
    &&& ((b.version == 1) ==> be64(d, p + mdhd_off_3(b)) == b.duration)
    &&& ((b.version == 0) ==> be32(d, p + mdhd_off_4(b)) == (b.creation_time as u32))
    &&& ((b.version == 0) ==> be32(d, p + mdhd_off_5(b)) == (b.modification_time as u32))
    &&& ((b.version == 0) ==> be32(d, p + mdhd_off_6(b)) == b.timescale)
    &&& ((b.version == 0) ==> be32(d, p + mdhd_off_7(b)) == (b.duration as u32))
    &&& (b.language@ == lang_string_spec(be16(d, p + mdhd_off_8(b))))
}

/// reference encoder, field by field
pub open spec fn mdhd_pre_0(b: MdhdBox) -> Seq<u8> { hdr_bytes(mdhd_len(b) as u64, 0x6d646864) + fullbox_bytes(b.version, b.flags) }
pub open spec fn mdhd_pre_1(b: MdhdBox) -> Seq<u8> { if b.version == 1 { mdhd_pre_0(b) + be_bytes(b.creation_time as nat, 8) } else { mdhd_pre_0(b) } }
pub open spec fn mdhd_pre_2(b: MdhdBox) -> Seq<u8> { if b.version == 1 { mdhd_pre_1(b) + be_bytes(b.modification_time as nat, 8) } else { mdhd_pre_1(b) } }
pub open spec fn mdhd_pre_3(b: MdhdBox) -> Seq<u8> { if b.version == 1 { mdhd_pre_2(b) + be_bytes(b.timescale as nat, 4) } else { mdhd_pre_2(b) } }
pub open spec fn mdhd_pre_4(b: MdhdBox) -> Seq<u8> { if b.version == 1 { mdhd_pre_3(b) + be_bytes(b.duration as nat, 8) } else { mdhd_pre_3(b) } }
pub open spec fn mdhd_pre_5(b: MdhdBox) -> Seq<u8> { if b.version == 0 { mdhd_pre_4(b) + be_bytes((b.creation_time as u32) as nat, 4) } else { mdhd_pre_4(b) } }
pub open spec fn mdhd_pre_6(b: MdhdBox) -> Seq<u8> { if b.version == 0 { mdhd_pre_5(b) + be_bytes((b.modification_time as u32) as nat, 4) } else { mdhd_pre_5(b) } }
pub open spec fn mdhd_pre_7(b: MdhdBox) -> Seq<u8> { if b.version == 0 { mdhd_pre_6(b) + be_bytes(b.timescale as nat, 4) } else { mdhd_pre_6(b) } }
pub open spec fn mdhd_pre_8(b: MdhdBox) -> Seq<u8> { if b.version == 0 { mdhd_pre_7(b) + be_bytes((b.duration as u32) as nat, 4) } else { mdhd_pre_7(b) } }
pub open spec fn mdhd_pre_9(b: MdhdBox) -> Seq<u8> { mdhd_pre_8(b) + be_bytes(lang_code_spec(b.language@) as nat, 2) }
pub open spec fn mdhd_pre_10(b: MdhdBox) -> Seq<u8> { mdhd_pre_9(b) + be_bytes(0, 2) }
pub open spec fn mdhd_bytes(b: MdhdBox) -> Seq<u8> { mdhd_pre_10(b) }

pub proof fn lemma_mdhd_pre_len(b: MdhdBox)
    ensures mdhd_pre_0(b).len() == mdhd_off_0(b), mdhd_pre_1(b).len() == mdhd_off_1(b), mdhd_pre_2(b).len() == mdhd_off_2(b), mdhd_pre_3(b).len() == mdhd_off_3(b), mdhd_pre_4(b).len() == mdhd_off_4(b), mdhd_pre_5(b).len() == mdhd_off_5(b), mdhd_pre_6(b).len() == mdhd_off_6(b), mdhd_pre_7(b).len() == mdhd_off_7(b), mdhd_pre_8(b).len() == mdhd_off_8(b), mdhd_pre_9(b).len() == mdhd_off_9(b), mdhd_pre_10(b).len() == mdhd_off_10(b)
{
    broadcast use lemma_be_bytes_len;
}

// ---- mfhd: ISO/IEC 14496-12 section 8.8.5 MovieFragmentHeaderBox extends FullBox('mfhd', version, flags)
pub open spec fn mfhd_off_0(b: MfhdBox) -> int { 12 }
pub open spec fn mfhd_off_1(b: MfhdBox) -> int { mfhd_off_0(b) + 4 }
pub open spec fn mfhd_len(b: MfhdBox) -> int { mfhd_off_1(b) }

pub open spec fn mfhd_rd_wire(b: MfhdBox) -> bool { flags_wire(b.flags) && (true) }
pub open spec fn mfhd_wire(b: MfhdBox) -> bool { flags_wire(b.flags) && (true) }

/// layout: what the decoder must have seen (reserved fields are not constrained on input)
pub open spec fn mfhd_at(d: Seq<u8>, p: int, b: MfhdBox) -> bool {
    &&& fullbox_at(d, p, b.version, b.flags)
    &&& (be32(d, p + mfhd_off_0(b)) == b.sequence_number)
}

/// reference encoder, field by field
pub open spec fn mfhd_pre_0(b: MfhdBox) -> Seq<u8> { hdr_bytes(mfhd_len(b) as u64, 0x6d666864) + fullbox_bytes(b.version, b.flags) }
pub open spec fn mfhd_pre_1(b: MfhdBox) -> Seq<u8> { mfhd_pre_0(b) + be_bytes(b.sequence_number as nat, 4) }
pub open spec fn mfhd_bytes(b: MfhdBox) -> Seq<u8> { mfhd_pre_1(b) }

pub proof fn lemma_mfhd_pre_len(b: MfhdBox)
    ensures mfhd_pre_0(b).len() == mfhd_off_0(b), mfhd_pre_1(b).len() == mfhd_off_1(b)
{
    broadcast use lemma_be_bytes_len;
}

// ---- mehd: ISO/IEC 14496-12 section 8.8.2 MovieExtendsHeaderBox extends FullBox('mehd', version, flags)
pub open spec fn mehd_off_0(b: MehdBox) -> int { 12 }
pub open spec fn mehd_off_1(b: MehdBox) -> int { mehd_off_0(b) + (if b.version == 1 { 8int } else { 0int }) }
pub open spec fn mehd_off_2(b: MehdBox) -> int { mehd_off_1(b) + (if b.version == 0 { 4int } else { 0int }) }
pub open spec fn mehd_len(b: MehdBox) -> int { mehd_off_2(b) }

pub open spec fn mehd_rd_wire(b: MehdBox) -> bool { flags_wire(b.flags) && b.version <= 1 && ((b.version == 0 ==> b.fragment_duration <= 0xffff_ffff)) }
pub open spec fn mehd_wire(b: MehdBox) -> bool { flags_wire(b.flags) && b.version <= 1 && ((b.version == 0 ==> b.fragment_duration <= 0xffff_ffff)) }

/// layout: what the decoder must have seen (reserved fields are not constrained on input)
pub open spec fn mehd_at(d: Seq<u8>, p: int, b: MehdBox) -> bool {
    &&& fullbox_at(d, p, b.version, b.flags)
    &&& ((b.version == 1) ==> be64(d, p + mehd_off_0(b)) == b.fragment_duration)
    &&& ((b.version == 0) ==> be32(d, p + mehd_off_1(b)) == (b.fragment_duration as u32))
}

/// reference encoder, field by field
pub open spec fn mehd_pre_0(b: MehdBox) -> Seq<u8> { hdr_bytes(mehd_len(b) as u64, 0x6d656864) + fullbox_bytes(b.version, b.flags) }
pub open spec fn mehd_pre_1(b: MehdBox) -> Seq<u8> { if b.version == 1 { mehd_pre_0(b) + be_bytes(b.fragment_duration as nat, 8) } else { mehd_pre_0(b) } }
pub open spec fn mehd_pre_2(b: MehdBox) -> Seq<u8> { if b.version == 0 { mehd_pre_1(b) + be_bytes((b.fragment_duration as u32) as nat, 4) } else { mehd_pre_1(b) } }
pub open spec fn mehd_bytes(b: MehdBox) -> Seq<u8> { mehd_pre_2(b) }

pub proof fn lemma_mehd_pre_len(b: MehdBox)
    ensures mehd_pre_0(b).len() == mehd_off_0(b), mehd_pre_1(b).len() == mehd_off_1(b), mehd_pre_2(b).len() == mehd_off_2(b)
{
    broadcast use lemma_be_bytes_len;
}

// ---- trex: ISO/IEC 14496-12 section 8.8.3 TrackExtendsBox extends FullBox('trex', version, flags)
pub open spec fn trex_off_0(b: TrexBox) -> int { 12 }
pub open spec fn trex_off_1(b: TrexBox) -> int { trex_off_0(b) + 4 }
pub open spec fn trex_off_2(b: TrexBox) -> int { trex_off_1(b) + 4 }
pub open spec fn trex_off_3(b: TrexBox) -> int { trex_off_2(b) + 4 }
pub open spec fn trex_off_4(b: TrexBox) -> int { trex_off_3(b) + 4 }
pub open spec fn trex_off_5(b: TrexBox) -> int { trex_off_4(b) + 4 }
pub open spec fn trex_len(b: TrexBox) -> int { trex_off_5(b) }

pub open spec fn trex_rd_wire(b: TrexBox) -> bool { flags_wire(b.flags) && (true) }
pub open spec fn trex_wire(b: TrexBox) -> bool { flags_wire(b.flags) && (true) }

/// layout: what the decoder must have seen (reserved fields are not constrained on input)
pub open spec fn trex_at(d: Seq<u8>, p: int, b: TrexBox) -> bool {
    &&& fullbox_at(d, p, b.version, b.flags)
    &&& (be32(d, p + trex_off_0(b)) == b.track_id)
    &&& (be32(d, p + trex_off_1(b)) == b.default_sample_description_index)
    &&& (be32(d, p + trex_off_2(b)) == b.default_sample_duration)
    &&& (be32(d, p + trex_off_3(b)) == b.default_sample_size)
    &&& (be32(d, p + trex_off_4(b)) == b.default_sample_flags)
}

/// reference encoder, field by field
pub open spec fn trex_pre_0(b: TrexBox) -> Seq<u8> { hdr_bytes(trex_len(b) as u64, 0x74726578) + fullbox_bytes(b.version, b.flags) }
pub open spec fn trex_pre_1(b: TrexBox) -> Seq<u8> { trex_pre_0(b) + be_bytes(b.track_id as nat, 4) }
pub open spec fn trex_pre_2(b: TrexBox) -> Seq<u8> { trex_pre_1(b) + be_bytes(b.default_sample_description_index as nat, 4) }
pub open spec fn trex_pre_3(b: TrexBox) -> Seq<u8> { trex_pre_2(b) + be_bytes(b.default_sample_duration as nat, 4) }
pub open spec fn trex_pre_4(b: TrexBox) -> Seq<u8> { trex_pre_3(b) + be_bytes(b.default_sample_size as nat, 4) }
pub open spec fn trex_pre_5(b: TrexBox) -> Seq<u8> { trex_pre_4(b) + be_bytes(b.default_sample_flags as nat, 4) }
pub open spec fn trex_bytes(b: TrexBox) -> Seq<u8> { trex_pre_5(b) }

pub proof fn lemma_trex_pre_len(b: TrexBox)
    ensures trex_pre_0(b).len() == trex_off_0(b), trex_pre_1(b).len() == trex_off_1(b), trex_pre_2(b).len() == trex_off_2(b), trex_pre_3(b).len() == trex_off_3(b), trex_pre_4(b).len() == trex_off_4(b), trex_pre_5(b).len() == trex_off_5(b)
{
    broadcast use lemma_be_bytes_len;
}

// ---- tfdt: ISO/IEC 14496-12 section 8.8.12 TrackFragmentBaseMediaDecodeTimeBox extends FullBox('tfdt', version, flags)
pub open spec fn tfdt_off_0(b: TfdtBox) -> int { 12 }
pub open spec fn tfdt_off_1(b: TfdtBox) -> int { tfdt_off_0(b) + (if b.version == 1 { 8int } else { 0int }) }
pub open spec fn tfdt_off_2(b: TfdtBox) -> int { tfdt_off_1(b) + (if b.version == 0 { 4int } else { 0int }) }
pub open spec fn tfdt_len(b: TfdtBox) -> int { tfdt_off_2(b) }

pub open spec fn tfdt_rd_wire(b: TfdtBox) -> bool { flags_wire(b.flags) && b.version <= 1 && ((b.version == 0 ==> b.base_media_decode_time <= 0xffff_ffff)) }
pub open spec fn tfdt_wire(b: TfdtBox) -> bool { flags_wire(b.flags) && b.version <= 1 && ((b.version == 0 ==> b.base_media_decode_time <= 0xffff_ffff)) }

/// layout: what the decoder must have seen (reserved fields are not constrained on input)
pub open spec fn tfdt_at(d: Seq<u8>, p: int, b: TfdtBox) -> bool {
    &&& fullbox_at(d, p, b.version, b.flags)
    &&& ((b.version == 1) ==> be64(d, p + tfdt_off_0(b)) == b.base_media_decode_time)
    &&& ((b.version == 0) ==> be32(d, p + tfdt_off_1(b)) == (b.base_media_decode_time as u32))
}

/// reference encoder, field by field
pub open spec fn tfdt_pre_0(b: TfdtBox) -> Seq<u8> { hdr_bytes(tfdt_len(b) as u64, 0x74666474) + fullbox_bytes(b.version, b.flags) }
pub open spec fn tfdt_pre_1(b: TfdtBox) -> Seq<u8> { if b.version == 1 { tfdt_pre_0(b) + be_bytes(b.base_media_decode_time as nat, 8) } else { tfdt_pre_0(b) } }
pub open spec fn tfdt_pre_2(b: TfdtBox) -> Seq<u8> { if b.version == 0 { tfdt_pre_1(b) + be_bytes((b.base_media_decode_time as u32) as nat, 4) } else { tfdt_pre_1(b) } }
pub open spec fn tfdt_bytes(b: TfdtBox) -> Seq<u8> { tfdt_pre_2(b) }

pub proof fn lemma_tfdt_pre_len(b: TfdtBox)
    ensures tfdt_pre_0(b).len() == tfdt_off_0(b), tfdt_pre_1(b).len() == tfdt_off_1(b), tfdt_pre_2(b).len() == tfdt_off_2(b)
{
    broadcast use lemma_be_bytes_len;
}

// ---- tfhd: ISO/IEC 14496-12 section 8.8.7 TrackFragmentHeaderBox extends FullBox('tfhd', version, flags)
pub open spec fn tfhd_off_0(b: TfhdBox) -> int { 12 }
pub open spec fn tfhd_off_1(b: TfhdBox) -> int { tfhd_off_0(b) + 4 }
pub open spec fn tfhd_off_2(b: TfhdBox) -> int { tfhd_off_1(b) + (if 0x01u32 & b.flags > 0 { 8int } else { 0int }) }
pub open spec fn tfhd_off_3(b: TfhdBox) -> int { tfhd_off_2(b) + (if 0x02u32 & b.flags > 0 { 4int } else { 0int }) }
pub open spec fn tfhd_off_4(b: TfhdBox) -> int { tfhd_off_3(b) + (if 0x08u32 & b.flags > 0 { 4int } else { 0int }) }
pub open spec fn tfhd_off_5(b: TfhdBox) -> int { tfhd_off_4(b) + (if 0x10u32 & b.flags > 0 { 4int } else { 0int }) }
pub open spec fn tfhd_off_6(b: TfhdBox) -> int { tfhd_off_5(b) + (if 0x20u32 & b.flags > 0 { 4int } else { 0int }) }
pub open spec fn tfhd_len(b: TfhdBox) -> int { tfhd_off_6(b) }

pub open spec fn tfhd_rd_wire(b: TfhdBox) -> bool { flags_wire(b.flags) && (((0x01u32 & b.flags > 0) <==> b.base_data_offset is Some) && ((0x02u32 & b.flags > 0) <==> b.sample_description_index is Some) && ((0x08u32 & b.flags > 0) <==> b.default_sample_duration is Some) && ((0x10u32 & b.flags > 0) <==> b.default_sample_size is Some) && ((0x20u32 & b.flags > 0) <==> b.default_sample_flags is Some)) }
pub open spec fn tfhd_wire(b: TfhdBox) -> bool { flags_wire(b.flags) && (((0x01u32 & b.flags > 0) <==> b.base_data_offset is Some) && ((0x02u32 & b.flags > 0) <==> b.sample_description_index is Some) && ((0x08u32 & b.flags > 0) <==> b.default_sample_duration is Some) && ((0x10u32 & b.flags > 0) <==> b.default_sample_size is Some) && ((0x20u32 & b.flags > 0) <==> b.default_sample_flags is Some)) }

/// layout: what the decoder must have seen (reserved fields are not constrained on input)
pub open spec fn tfhd_at(d: Seq<u8>, p: int, b: TfhdBox) -> bool {
    &&& fullbox_at(d, p, b.version, b.flags)
    &&& (be32(d, p + tfhd_off_0(b)) == b.track_id)
    &&& ((0x01u32 & b.flags > 0) ==> be64(d, p + tfhd_off_1(b)) == b.base_data_offset->Some_0)
    &&& ((0x02u32 & b.flags > 0) ==> be32(d, p + tfhd_off_2(b)) == b.sample_description_index->Some_0)
    &&& ((0x08u32 & b.flags > 0) ==> be32(d, p + tfhd_off_3(b)) == b.default_sample_duration->Some_0)
    &&& ((0x10u32 & b.flags > 0) ==> be32(d, p + tfhd_off_4(b)) == b.default_sample_size->Some_0)
    &&& ((0x20u32 & b.flags > 0) ==> be32(d, p + tfhd_off_5(b)) == b.default_sample_flags->Some_0)
}

/// reference encoder, field by field
pub open spec fn tfhd_pre_0(b: TfhdBox) -> Seq<u8> { hdr_bytes(tfhd_len(b) as u64, 0x74666864) + fullbox_bytes(b.version, b.flags) }
pub open spec fn tfhd_pre_1(b: TfhdBox) -> Seq<u8> { tfhd_pre_0(b) + be_bytes(b.track_id as nat, 4) }
pub open spec fn tfhd_pre_2(b: TfhdBox) -> Seq<u8> { if 0x01u32 & b.flags > 0 { tfhd_pre_1(b) + be_bytes(b.base_data_offset->Some_0 as nat, 8) } else { tfhd_pre_1(b) } }
pub open spec fn tfhd_pre_3(b: TfhdBox) -> Seq<u8> { if 0x02u32 & b.flags > 0 { tfhd_pre_2(b) + be_bytes(b.sample_description_index->Some_0 as nat, 4) } else { tfhd_pre_2(b) } }
pub open spec fn tfhd_pre_4(b: TfhdBox) -> Seq<u8> { if 0x08u32 & b.flags > 0 { tfhd_pre_3(b) + be_bytes(b.default_sample_duration->Some_0 as nat, 4) } else { tfhd_pre_3(b) } }
pub open spec fn tfhd_pre_5(b: TfhdBox) -> Seq<u8> { if 0x10u32 & b.flags > 0 { tfhd_pre_4(b) + be_bytes(b.default_sample_size->Some_0 as nat, 4) } else { tfhd_pre_4(b) } }
pub open spec fn tfhd_pre_6(b: TfhdBox) -> Seq<u8> { if 0x20u32 & b.flags > 0 { tfhd_pre_5(b) + be_bytes(b.default_sample_flags->Some_0 as nat, 4) } else { tfhd_pre_5(b) } }
pub open spec fn tfhd_bytes(b: TfhdBox) -> Seq<u8> { tfhd_pre_6(b) }

pub proof fn lemma_tfhd_pre_len(b: TfhdBox)
    ensures tfhd_pre_0(b).len() == tfhd_off_0(b), tfhd_pre_1(b).len() == tfhd_off_1(b), tfhd_pre_2(b).len() == tfhd_off_2(b), tfhd_pre_3(b).len() == tfhd_off_3(b), tfhd_pre_4(b).len() == tfhd_off_4(b), tfhd_pre_5(b).len() == tfhd_off_5(b), tfhd_pre_6(b).len() == tfhd_off_6(b)
{
    broadcast use lemma_be_bytes_len;
}

// ---- vmhd: ISO/IEC 14496-12 section 12.1.2 VideoMediaHeaderBox extends FullBox('vmhd', version, flags)
pub open spec fn vmhd_off_0(b: VmhdBox) -> int { 12 }
pub open spec fn vmhd_off_1(b: VmhdBox) -> int { vmhd_off_0(b) + 2 }
pub open spec fn vmhd_off_2(b: VmhdBox) -> int { vmhd_off_1(b) + 2 }
pub open spec fn vmhd_off_3(b: VmhdBox) -> int { vmhd_off_2(b) + 2 }
pub open spec fn vmhd_off_4(b: VmhdBox) -> int { vmhd_off_3(b) + 2 }
pub open spec fn vmhd_len(b: VmhdBox) -> int { vmhd_off_4(b) }

pub open spec fn vmhd_rd_wire(b: VmhdBox) -> bool { flags_wire(b.flags) && (true) }
pub open spec fn vmhd_wire(b: VmhdBox) -> bool { flags_wire(b.flags) && (true) }

/// layout: what the decoder must have seen (reserved fields are not constrained on input)
pub open spec fn vmhd_at(d: Seq<u8>, p: int, b: VmhdBox) -> bool {
    &&& fullbox_at(d, p, b.version, b.flags)
    &&& (be16(d, p + vmhd_off_0(b)) == b.graphics_mode)
    &&& (be16(d, p + vmhd_off_1(b)) == b.op_color.red)
    &&& (be16(d, p + vmhd_off_2(b)) == b.op_color.green)
    &&& (be16(d, p + vmhd_off_3(b)) == b.op_color.blue)
}

/// reference encoder, field by field
pub open spec fn vmhd_pre_0(b: VmhdBox) -> Seq<u8> { hdr_bytes(vmhd_len(b) as u64, 0x766d6864) + fullbox_bytes(b.version, b.flags) }
pub open spec fn vmhd_pre_1(b: VmhdBox) -> Seq<u8> { vmhd_pre_0(b) + be_bytes(b.graphics_mode as nat, 2) }
pub open spec fn vmhd_pre_2(b: VmhdBox) -> Seq<u8> { vmhd_pre_1(b) + be_bytes(b.op_color.red as nat, 2) }
pub open spec fn vmhd_pre_3(b: VmhdBox) -> Seq<u8> { vmhd_pre_2(b) + be_bytes(b.op_color.green as nat, 2) }
pub open spec fn vmhd_pre_4(b: VmhdBox) -> Seq<u8> { vmhd_pre_3(b) + be_bytes(b.op_color.blue as nat, 2) }
pub open spec fn vmhd_bytes(b: VmhdBox) -> Seq<u8> { vmhd_pre_4(b) }

pub proof fn lemma_vmhd_pre_len(b: VmhdBox)
    ensures vmhd_pre_0(b).len() == vmhd_off_0(b), vmhd_pre_1(b).len() == vmhd_off_1(b), vmhd_pre_2(b).len() == vmhd_off_2(b), vmhd_pre_3(b).len() == vmhd_off_3(b), vmhd_pre_4(b).len() == vmhd_off_4(b)
{
    broadcast use lemma_be_bytes_len;
}

// ---- smhd: ISO/IEC 14496-12 section 12.2.2 SoundMediaHeaderBox extends FullBox('smhd', version, flags)
pub open spec fn smhd_off_0(b: SmhdBox) -> int { 12 }
pub open spec fn smhd_off_1(b: SmhdBox) -> int { smhd_off_0(b) + 2 }
pub open spec fn smhd_off_2(b: SmhdBox) -> int { smhd_off_1(b) + 2 }
pub open spec fn smhd_len(b: SmhdBox) -> int { smhd_off_2(b) }

pub open spec fn smhd_rd_wire(b: SmhdBox) -> bool { flags_wire(b.flags) && (b.balance.0.denom == 0x100) }
pub open spec fn smhd_wire(b: SmhdBox) -> bool { flags_wire(b.flags) && (b.balance.0.denom == 0x100) }

/// layout: what the decoder must have seen (reserved fields are not constrained on input)
pub open spec fn smhd_at(d: Seq<u8>, p: int, b: SmhdBox) -> bool {
    &&& fullbox_at(d, p, b.version, b.flags)
    &&& ((be16(d, p + smhd_off_0(b)) as i16) == b.balance.0.numer)
}

/// reference encoder, field by field
pub open spec fn smhd_pre_0(b: SmhdBox) -> Seq<u8> { hdr_bytes(smhd_len(b) as u64, 0x736d6864) + fullbox_bytes(b.version, b.flags) }
pub open spec fn smhd_pre_1(b: SmhdBox) -> Seq<u8> { smhd_pre_0(b) + be_bytes((b.balance.0.numer as u16) as nat, 2) }
pub open spec fn smhd_pre_2(b: SmhdBox) -> Seq<u8> { smhd_pre_1(b) + be_bytes(0, 2) }
pub open spec fn smhd_bytes(b: SmhdBox) -> Seq<u8> { smhd_pre_2(b) }

pub proof fn lemma_smhd_pre_len(b: SmhdBox)
    ensures smhd_pre_0(b).len() == smhd_off_0(b), smhd_pre_1(b).len() == smhd_off_1(b), smhd_pre_2(b).len() == smhd_off_2(b)
{
    broadcast use lemma_be_bytes_len;
}

// ---- vpcc: ISO/IEC 14496-12 section VP Codec ISO Media File Format Binding 2.2 VPCodecConfigurationBox extends FullBox('vpcc', version, flags)
pub open spec fn vpcc_off_0(b: VpccBox) -> int { 12 }
pub open spec fn vpcc_off_1(b: VpccBox) -> int { vpcc_off_0(b) + 1 }
pub open spec fn vpcc_off_2(b: VpccBox) -> int { vpcc_off_1(b) + 1 }
pub open spec fn vpcc_off_3(b: VpccBox) -> int { vpcc_off_2(b) + 1 }
pub open spec fn vpcc_off_4(b: VpccBox) -> int { vpcc_off_3(b) + 1 }
pub open spec fn vpcc_off_5(b: VpccBox) -> int { vpcc_off_4(b) + 1 }
pub open spec fn vpcc_off_6(b: VpccBox) -> int { vpcc_off_5(b) + 1 }
pub open spec fn vpcc_off_7(b: VpccBox) -> int { vpcc_off_6(b) + 2 }
pub open spec fn vpcc_len(b: VpccBox) -> int { vpcc_off_7(b) }

pub open spec fn vpcc_rd_wire(b: VpccBox) -> bool { flags_wire(b.flags) && (true) }
pub open spec fn vpcc_wire(b: VpccBox) -> bool { flags_wire(b.flags) && (b.bit_depth < 16 && b.chroma_subsampling < 8) }

/// layout: what the decoder must have seen (reserved fields are not constrained on input)
pub open spec fn vpcc_at(d: Seq<u8>, p: int, b: VpccBox) -> bool {
    &&& fullbox_at(d, p, b.version, b.flags)
    &&& (d[p + vpcc_off_0(b)] == b.profile)
    &&& (d[p + vpcc_off_1(b)] == b.level)
    &&& (b.bit_depth == d[p + vpcc_off_2(b)] >> 4 && b.chroma_subsampling == (d[p + vpcc_off_2(b)] << 4) >> 5 && b.video_full_range_flag == (d[p + vpcc_off_2(b)] & 0x01 == 1))
    &&& (d[p + vpcc_off_3(b)] == b.color_primaries)
    &&& (d[p + vpcc_off_4(b)] == b.transfer_characteristics)
    &&& (d[p + vpcc_off_5(b)] == b.matrix_coefficients)
    &&& (be16(d, p + vpcc_off_6(b)) == b.codec_initialization_data_size)
}

/// reference encoder, field by field
pub open spec fn vpcc_pre_0(b: VpccBox) -> Seq<u8> { hdr_bytes(vpcc_len(b) as u64, 0x76706343) + fullbox_bytes(b.version, b.flags) }
pub open spec fn vpcc_pre_1(b: VpccBox) -> Seq<u8> { vpcc_pre_0(b) + seq![b.profile] }
pub open spec fn vpcc_pre_2(b: VpccBox) -> Seq<u8> { vpcc_pre_1(b) + seq![b.level] }
pub open spec fn vpcc_pre_3(b: VpccBox) -> Seq<u8> { vpcc_pre_2(b) + seq![((b.bit_depth << 4) | (b.chroma_subsampling << 1) | (b.video_full_range_flag as u8))] }
pub open spec fn vpcc_pre_4(b: VpccBox) -> Seq<u8> { vpcc_pre_3(b) + seq![b.color_primaries] }
pub open spec fn vpcc_pre_5(b: VpccBox) -> Seq<u8> { vpcc_pre_4(b) + seq![b.transfer_characteristics] }
pub open spec fn vpcc_pre_6(b: VpccBox) -> Seq<u8> { vpcc_pre_5(b) + seq![b.matrix_coefficients] }
pub open spec fn vpcc_pre_7(b: VpccBox) -> Seq<u8> { vpcc_pre_6(b) + be_bytes(b.codec_initialization_data_size as nat, 2) }
pub open spec fn vpcc_bytes(b: VpccBox) -> Seq<u8> { vpcc_pre_7(b) }

pub proof fn lemma_vpcc_pre_len(b: VpccBox)
    ensures vpcc_pre_0(b).len() == vpcc_off_0(b), vpcc_pre_1(b).len() == vpcc_off_1(b), vpcc_pre_2(b).len() == vpcc_off_2(b), vpcc_pre_3(b).len() == vpcc_off_3(b), vpcc_pre_4(b).len() == vpcc_off_4(b), vpcc_pre_5(b).len() == vpcc_off_5(b), vpcc_pre_6(b).len() == vpcc_off_6(b), vpcc_pre_7(b).len() == vpcc_off_7(b)
{
    broadcast use lemma_be_bytes_len;
}

