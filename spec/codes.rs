// SPEC LIBRARY: code tables (C16).  Four-character codes are derived here from their registered ASCII
// spelling (mp4ra.org / ISO/IEC 14496-12, -14, -15, QuickTime '\xA9nam' style keys), not from /repo.

pub open spec fn fourcc_code(a: u8, b: u8, c: u8, d: u8) -> u32 {
    ((a as u32) * 0x1000000 + (b as u32) * 0x10000 + (c as u32) * 0x100 + d as u32) as u32
}

/// registered code of every box type the crate names
pub open spec fn spec_u32_of_boxtype(b: BoxType) -> u32 {
    match b {
        BoxType::FtypBox => 0x66747970, // 'ftyp'
        BoxType::MvhdBox => 0x6d766864, // 'mvhd'
        BoxType::MfhdBox => 0x6d666864, // 'mfhd'
        BoxType::FreeBox => 0x66726565, // 'free'
        BoxType::MdatBox => 0x6d646174, // 'mdat'
        BoxType::MoovBox => 0x6d6f6f76, // 'moov'
        BoxType::MvexBox => 0x6d766578, // 'mvex'
        BoxType::MehdBox => 0x6d656864, // 'mehd'
        BoxType::TrexBox => 0x74726578, // 'trex'
        BoxType::EmsgBox => 0x656d7367, // 'emsg'
        BoxType::MoofBox => 0x6d6f6f66, // 'moof'
        BoxType::TkhdBox => 0x746b6864, // 'tkhd'
        BoxType::TfhdBox => 0x74666864, // 'tfhd'
        BoxType::TfdtBox => 0x74666474, // 'tfdt'
        BoxType::EdtsBox => 0x65647473, // 'edts'
        BoxType::MdiaBox => 0x6d646961, // 'mdia'
        BoxType::ElstBox => 0x656c7374, // 'elst'
        BoxType::MdhdBox => 0x6d646864, // 'mdhd'
        BoxType::HdlrBox => 0x68646c72, // 'hdlr'
        BoxType::MinfBox => 0x6d696e66, // 'minf'
        BoxType::VmhdBox => 0x766d6864, // 'vmhd'
        BoxType::StblBox => 0x7374626c, // 'stbl'
        BoxType::StsdBox => 0x73747364, // 'stsd'
        BoxType::SttsBox => 0x73747473, // 'stts'
        BoxType::CttsBox => 0x63747473, // 'ctts'
        BoxType::StssBox => 0x73747373, // 'stss'
        BoxType::StscBox => 0x73747363, // 'stsc'
        BoxType::StszBox => 0x7374737a, // 'stsz'
        BoxType::StcoBox => 0x7374636f, // 'stco'
        BoxType::Co64Box => 0x636f3634, // 'co64'
        BoxType::TrakBox => 0x7472616b, // 'trak'
        BoxType::TrafBox => 0x74726166, // 'traf'
        BoxType::TrunBox => 0x7472756e, // 'trun'
        BoxType::UdtaBox => 0x75647461, // 'udta'
        BoxType::MetaBox => 0x6d657461, // 'meta'
        BoxType::DinfBox => 0x64696e66, // 'dinf'
        BoxType::DrefBox => 0x64726566, // 'dref'
        BoxType::UrlBox => 0x75726c20, // 'url '
        BoxType::SmhdBox => 0x736d6864, // 'smhd'
        BoxType::Avc1Box => 0x61766331, // 'avc1'
        BoxType::AvcCBox => 0x61766343, // 'avcC'
        BoxType::Hev1Box => 0x68657631, // 'hev1'
        BoxType::HvcCBox => 0x68766343, // 'hvcC'
        BoxType::Mp4aBox => 0x6d703461, // 'mp4a'
        BoxType::EsdsBox => 0x65736473, // 'esds'
        BoxType::Tx3gBox => 0x74783367, // 'tx3g'
        BoxType::VpccBox => 0x76706343, // 'vpcC'
        BoxType::Vp09Box => 0x76703039, // 'vp09'
        BoxType::DataBox => 0x64617461, // 'data'
        BoxType::IlstBox => 0x696c7374, // 'ilst'
        BoxType::NameBox => 0xa96e616d, // '\xA9nam'
        BoxType::DayBox => 0xa9646179, // '\xA9day'
        BoxType::CovrBox => 0x636f7672, // 'covr'
        BoxType::DescBox => 0x64657363, // 'desc'
        BoxType::WideBox => 0x77696465, // 'wide'
        BoxType::WaveBox => 0x77617665, // 'wave'
        BoxType::UnknownBox(t) => t,
    }
}

pub open spec fn spec_boxtype_of_u32(t: u32) -> BoxType {
    if t == 0x66747970 { BoxType::FtypBox }
    else if t == 0x6d766864 { BoxType::MvhdBox }
    else if t == 0x6d666864 { BoxType::MfhdBox }
    else if t == 0x66726565 { BoxType::FreeBox }
    else if t == 0x6d646174 { BoxType::MdatBox }
    else if t == 0x6d6f6f76 { BoxType::MoovBox }
    else if t == 0x6d766578 { BoxType::MvexBox }
    else if t == 0x6d656864 { BoxType::MehdBox }
    else if t == 0x74726578 { BoxType::TrexBox }
    else if t == 0x656d7367 { BoxType::EmsgBox }
    else if t == 0x6d6f6f66 { BoxType::MoofBox }
    else if t == 0x746b6864 { BoxType::TkhdBox }
    else if t == 0x74666864 { BoxType::TfhdBox }
    else if t == 0x74666474 { BoxType::TfdtBox }
    else if t == 0x65647473 { BoxType::EdtsBox }
    else if t == 0x6d646961 { BoxType::MdiaBox }
    else if t == 0x656c7374 { BoxType::ElstBox }
    else if t == 0x6d646864 { BoxType::MdhdBox }
    else if t == 0x68646c72 { BoxType::HdlrBox }
    else if t == 0x6d696e66 { BoxType::MinfBox }
    else if t == 0x766d6864 { BoxType::VmhdBox }
    else if t == 0x7374626c { BoxType::StblBox }
    else if t == 0x73747364 { BoxType::StsdBox }
    else if t == 0x73747473 { BoxType::SttsBox }
    else if t == 0x63747473 { BoxType::CttsBox }
    else if t == 0x73747373 { BoxType::StssBox }
    else if t == 0x73747363 { BoxType::StscBox }
    else if t == 0x7374737a { BoxType::StszBox }
    else if t == 0x7374636f { BoxType::StcoBox }
    else if t == 0x636f3634 { BoxType::Co64Box }
    else if t == 0x7472616b { BoxType::TrakBox }
    else if t == 0x74726166 { BoxType::TrafBox }
    else if t == 0x7472756e { BoxType::TrunBox }
    else if t == 0x75647461 { BoxType::UdtaBox }
    else if t == 0x6d657461 { BoxType::MetaBox }
    else if t == 0x64696e66 { BoxType::DinfBox }
    else if t == 0x64726566 { BoxType::DrefBox }
    else if t == 0x75726c20 { BoxType::UrlBox }
    else if t == 0x736d6864 { BoxType::SmhdBox }
    else if t == 0x61766331 { BoxType::Avc1Box }
    else if t == 0x61766343 { BoxType::AvcCBox }
    else if t == 0x68657631 { BoxType::Hev1Box }
    else if t == 0x68766343 { BoxType::HvcCBox }
    else if t == 0x6d703461 { BoxType::Mp4aBox }
    else if t == 0x65736473 { BoxType::EsdsBox }
    else if t == 0x74783367 { BoxType::Tx3gBox }
    else if t == 0x76706343 { BoxType::VpccBox }
    else if t == 0x76703039 { BoxType::Vp09Box }
    else if t == 0x64617461 { BoxType::DataBox }
    else if t == 0x696c7374 { BoxType::IlstBox }
    else if t == 0xa96e616d { BoxType::NameBox }
    else if t == 0xa9646179 { BoxType::DayBox }
    else if t == 0x636f7672 { BoxType::CovrBox }
    else if t == 0x64657363 { BoxType::DescBox }
    else if t == 0x77696465 { BoxType::WideBox }
    else if t == 0x77617665 { BoxType::WaveBox }
    else { BoxType::UnknownBox(t) }
}

/// a code is `known` iff it is one of the registered codes above
pub open spec fn boxtype_known(t: u32) -> bool { !(spec_boxtype_of_u32(t) is UnknownBox) }

// ---- FourCC <-> u32: the four characters are the big-endian bytes of the code (14496-12 4.2 `unsigned int(32) boxtype`)
#[verifier::opaque]
pub open spec fn fourcc_of_u32(v: u32) -> FourCC {
    FourCC { value: [ (v / 0x1000000) as u8, ((v / 0x10000) % 256) as u8, ((v / 0x100) % 256) as u8, (v % 256) as u8 ] }
}

#[verifier::opaque]
pub open spec fn u32_of_fourcc(f: FourCC) -> u32 {
    ((f.value[0] as u32) * 0x1000000 + (f.value[1] as u32) * 0x10000 + (f.value[2] as u32) * 0x100 + f.value[3] as u32) as u32
}

/// decoding the encoding of a code gives the code back (used wherever a brand / handler code is read from the file)
#[verifier::spinoff_prover]
#[verifier::rlimit(200)]
pub broadcast proof fn lemma_fourcc_roundtrip(v: u32)
    ensures u32_of_fourcc(#[trigger] fourcc_of_u32(v)) == v
{
    reveal(fourcc_of_u32);
    reveal(u32_of_fourcc);
}

/// and the other way round: encoding the decoding of four characters gives the characters back
#[verifier::spinoff_prover]
#[verifier::rlimit(200)]
pub proof fn lemma_fourcc_of_u32_of(f: FourCC)
    ensures fourcc_of_u32(u32_of_fourcc(f)) == f
{
    reveal(fourcc_of_u32);
    reveal(u32_of_fourcc);
    let a = f.value[0] as u32; let b = f.value[1] as u32; let c = f.value[2] as u32; let e = f.value[3] as u32;
    let v = (a * 0x1000000 + b * 0x10000 + c * 0x100 + e) as u32;
    assert(v == u32_of_fourcc(f));
    assert(v / 0x1000000 == a && (v / 0x10000) % 256 == b && (v / 0x100) % 256 == c && v % 256 == e);
    assert(fourcc_of_u32(v).value =~= f.value);
}

// ---- ISO 639-2/T language packing (14496-12 8.4.2.3): pad bit + three 5-bit values, each = (letter - 0x60).
// Written from the standard: the code packs the low five bits of the first three UTF-16 units of the string (missing
// units count as 0); the string of a code is the three characters 0x60 + field.  The real language_code / language_string
// are proved against these (Verus, all strings / all 2^16 codes) and cross-checked on the compiled code by Kani (C16).
pub open spec fn unit_at(u: Seq<u16>, i: int) -> u16 { if i < u.len() { u[i] } else { 0u16 } }
pub open spec fn lang_code_spec(s: Seq<char>) -> u16 {
    let u = utf16_units(s);
    (((unit_at(u, 0) & 0x1f) << 10) + ((unit_at(u, 1) & 0x1f) << 5) + (unit_at(u, 2) & 0x1f)) as u16
}
pub open spec fn ascii_char(u: u16) -> char { (u as u8) as char }
pub open spec fn lang_string_spec(c: u16) -> Seq<char> {
    seq![ascii_char((((c >> 10) & 0x1f) + 0x60) as u16), ascii_char((((c >> 5) & 0x1f) + 0x60) as u16), ascii_char(((c & 0x1f) + 0x60) as u16)]
}
/// decode . encode is the identity on every 15-bit code (the pad bit is dropped by the decoder)
pub proof fn lemma_lang_roundtrip(c: u16)
    requires c < 0x8000
    ensures lang_code_spec(lang_string_spec(c)) == c
{
    let s = lang_string_spec(c);
    let a = (((c >> 10) & 0x1f) + 0x60) as u16; let b = (((c >> 5) & 0x1f) + 0x60) as u16; let d = ((c & 0x1f) + 0x60) as u16;
    assert(((c >> 10) & 0x1f) <= 0x1f && ((c >> 5) & 0x1f) <= 0x1f && (c & 0x1f) <= 0x1f) by(bit_vector);
    assert forall|i: int| 0 <= i < s.len() implies (#[trigger] s[i] as u32) < 0x80 by {}
    axiom_utf16_ascii(s);
    let u = utf16_units(s);
    assert(u.len() == 3 && u[0] == a && u[1] == b && u[2] == d);
    assert(c < 0x8000 ==> ((((((c >> 10) & 0x1f) + 0x60) as u16) & 0x1f) << 10) + ((((((c >> 5) & 0x1f) + 0x60) as u16) & 0x1f) << 5)
             + ((((c & 0x1f) + 0x60) as u16) & 0x1f) == c) by(bit_vector);
}
