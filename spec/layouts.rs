// SPEC LIBRARY: box layouts, written from the syntax tables of ISO/IEC 14496-12 (and -14, -15 where noted).
// `X_at(d, p, b)`: the payload of a box whose (8-byte-convention) start is p -- i.e. whose first payload byte is
// d[p + 8] -- encodes the value b.  Reader AND writer are each proved against the same predicate.

/// FullBox(version, flags): 14496-12 section 4.2:  unsigned int(8) version; bit(24) flags
pub open spec fn fullbox_at(d: Seq<u8>, p: int, version: u8, flags: u32) -> bool {
    &&& d[p + 8] == version
    &&& be24(d, p + 9) == flags
}

pub open spec fn flags_wire(flags: u32) -> bool { flags < 0x1000000 }

// ---- stts: 14496-12 section 8.6.1.2   TimeToSampleBox extends FullBox('stts', 0, 0)
//   unsigned int(32) entry_count; { unsigned int(32) sample_count; unsigned int(32) sample_delta; } [entry_count]
pub open spec fn stts_len(b: SttsBox) -> int { 16 + 8 * (b.entries@.len() as int) }

/// every field fits the width the format gives it
pub open spec fn stts_fields_wire(b: SttsBox) -> bool {
    flags_wire(b.flags) && b.entries@.len() <= 0xffff_ffff
}

/// ... and the whole box uses the compact header form (boxes over 4 GiB: see DESIGN D-20)
pub open spec fn stts_wire(b: SttsBox) -> bool {
    stts_fields_wire(b) && stts_len(b) <= 0xffff_ffff
}

pub open spec fn stts_entries_at(d: Seq<u8>, p: int, e: Seq<SttsEntry>, n: int) -> bool {
    forall|j: int| 0 <= j < n ==> be32(d, p + 16 + 8 * j) == (#[trigger] e[j]).sample_count
                               && be32(d, p + 20 + 8 * j) == e[j].sample_delta
}

pub open spec fn stts_at(d: Seq<u8>, p: int, b: SttsBox) -> bool {
    &&& fullbox_at(d, p, b.version, b.flags)
    &&& be32(d, p + 12) == b.entries@.len()
    &&& stts_entries_at(d, p, b.entries@, b.entries@.len() as int)
}

pub proof fn lemma_stts_functional(d: Seq<u8>, p: int, a: SttsBox, b: SttsBox)
    requires stts_at(d, p, a), stts_at(d, p, b), stts_fields_wire(a), stts_fields_wire(b)
    ensures a.version == b.version, a.flags == b.flags, a.entries@ == b.entries@
{
    assert(a.entries@.len() == b.entries@.len());
    assert forall|j: int| 0 <= j < a.entries@.len() implies a.entries@[j] == b.entries@[j] by {
        assert(a.entries@[j].sample_count == b.entries@[j].sample_count);
    }
    assert(a.entries@ =~= b.entries@);
}

// reference encoder (same standard, other direction): the bytes of a whole stts box
pub open spec fn fullbox_bytes(version: u8, flags: u32) -> Seq<u8> { seq![version] + be_bytes(flags as nat, 3) }

pub open spec fn stts_prefix(b: SttsBox, n: int) -> Seq<u8>
    decreases n
{
    if n <= 0 {
        hdr_bytes(stts_len(b) as u64, 0x73747473) + fullbox_bytes(b.version, b.flags) + be_bytes(b.entries@.len(), 4)
    } else {
        stts_prefix(b, n - 1) + be_bytes(b.entries@[n - 1].sample_count as nat, 4) + be_bytes(b.entries@[n - 1].sample_delta as nat, 4)
    }
}

pub open spec fn stts_bytes(b: SttsBox) -> Seq<u8> { stts_prefix(b, b.entries@.len() as int) }

pub broadcast proof fn lemma_stts_prefix_len(b: SttsBox, n: int)
    requires stts_wire(b), 0 <= n
    ensures (#[trigger] stts_prefix(b, n)).len() == 16 + 8 * n
    decreases n
{
    broadcast use group_stream;
    if n > 0 { lemma_stts_prefix_len(b, n - 1); }
}
