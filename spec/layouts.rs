// SPEC LIBRARY: box layouts, written from the syntax tables of ISO/IEC 14496-12 (and -14, -15 where noted).
// `X_at(d, p, b)`: the payload of a box whose (8-byte-convention) start is p -- i.e. whose first payload byte is
// d[p + 8] -- encodes the value b.  Reader AND writer are each proved against the same predicate.

/// FullBox(version, flags): 14496-12 section 4.2:  unsigned int(8) version; bit(24) flags
pub open spec fn fullbox_at(d: Seq<u8>, p: int, version: u8, flags: u32) -> bool {
    &&& d[p + 8] == version
    &&& be24(d, p + 9) == flags
}

pub open spec fn flags_wire(flags: u32) -> bool { flags < 0x1000000 }

/// reference encoder of the FullBox header
pub open spec fn fullbox_bytes(version: u8, flags: u32) -> Seq<u8> { seq![version] + be_bytes(flags as nat, 3) }
