// SPEC LIBRARY: box layouts, written from the syntax tables of ISO/IEC 14496-12 (and -14, -15 where noted).
// `X_at(d, p, b)`: the payload of a box whose (8-byte-convention) start is p -- i.e. whose first payload byte is
// d[p + 8] -- encodes the value b.  Reader AND writer are each proved against the same predicate.

/// FullBox(version, flags): 14496-12 section 4.2:  unsigned int(8) version; bit(24) flags
pub open spec fn fullbox_at(d: Seq<u8>, p: int, version: u8, flags: u32) -> bool {
    &&& d[p + 8] == version
    &&& be24(d, p + 9) == flags
}

pub open spec fn flags_wire(flags: u32) -> bool { flags < 0x1000000 }

/// reference encoder of the FullBox header
pub open spec fn fullbox_bytes(version: u8, flags: u32) -> Seq<u8> { seq![version] + be_bytes(flags as nat, 3) }

// ---- ftyp: ISO/IEC 14496-12 section 4.3  FileTypeBox extends Box('ftyp')
//   unsigned int(32) major_brand; unsigned int(32) minor_version; unsigned int(32) compatible_brands[]; // to end of the box
pub open spec fn ftyp_len(b: FtypBox) -> int { 16 + 4 * (b.compatible_brands@.len() as int) }

pub open spec fn ftyp_wire(b: FtypBox) -> bool { ftyp_len(b) <= 0xffff_ffff }

pub open spec fn ftyp_brands_at(d: Seq<u8>, p: int, e: Seq<FourCC>, n: int) -> bool {
    forall|j: int| 0 <= j < n ==> be32(d, p + 16 + 4 * j) == u32_of_fourcc(#[trigger] e[j])
}

pub open spec fn ftyp_at(d: Seq<u8>, p: int, size: int, b: FtypBox) -> bool {
    &&& be32(d, p + 8) == u32_of_fourcc(b.major_brand)
    &&& be32(d, p + 12) == b.minor_version
    &&& size == ftyp_len(b)
    &&& ftyp_brands_at(d, p, b.compatible_brands@, b.compatible_brands@.len() as int)
}

pub open spec fn ftyp_prefix(b: FtypBox, n: int) -> Seq<u8>
    decreases n
{
    if n <= 0 {
        hdr_bytes(ftyp_len(b) as u64, 0x66747970) + be_bytes(u32_of_fourcc(b.major_brand) as nat, 4) + be_bytes(b.minor_version as nat, 4)
    } else {
        ftyp_prefix(b, n - 1) + be_bytes(u32_of_fourcc(b.compatible_brands@[n - 1]) as nat, 4)
    }
}

pub open spec fn ftyp_bytes(b: FtypBox) -> Seq<u8> { ftyp_prefix(b, b.compatible_brands@.len() as int) }

pub broadcast proof fn lemma_ftyp_prefix_len(b: FtypBox, n: int)
    requires ftyp_wire(b), 0 <= n
    ensures (#[trigger] ftyp_prefix(b, n)).len() == 16 + 4 * n
    decreases n
{
    broadcast use group_stream;
    if n > 0 { lemma_ftyp_prefix_len(b, n - 1); }
}
