// SPEC LIBRARY: table boxes of the sample table (emitted once by tool/gen_tables.py from the ISO syntax tables; committed text)
// ---- stts: ISO/IEC 14496-12 section 8.6.1.2 TimeToSampleBox extends FullBox('stts', version, flags)
//   unsigned int(32) entry_count; { unsigned int(32) sample_count; unsigned int(32) sample_delta; } [entry_count]
pub open spec fn stts_len(b: SttsBox) -> int { 16 + 8 * (b.entries@.len() as int) }

/// every field fits the width the format gives it
pub open spec fn stts_fields_wire(b: SttsBox) -> bool {
    flags_wire(b.flags) && b.entries@.len() <= 0xffff_ffff
}

/// ... and the whole box uses the compact header form (boxes over 4 GiB: DESIGN D-20)
pub open spec fn stts_wire(b: SttsBox) -> bool { stts_fields_wire(b) && stts_len(b) <= 0xffff_ffff }

pub open spec fn stts_entries_at(d: Seq<u8>, p: int, e: Seq<SttsEntry>, n: int) -> bool {
    forall|j: int| 0 <= j < n ==> be32(d, p + 16 + 8 * j) == (#[trigger] e[j]).sample_count
                               && be32(d, p + 20 + 8 * j) == e[j].sample_delta
}

pub open spec fn stts_at(d: Seq<u8>, p: int, b: SttsBox) -> bool {
    &&& fullbox_at(d, p, b.version, b.flags)
    &&& be32(d, p + 12) == b.entries@.len()
    &&& stts_entries_at(d, p, b.entries@, b.entries@.len() as int)
}

/// the layout determines the value (decode is a function): used for the round trip and for C15
pub proof fn lemma_stts_functional(d: Seq<u8>, p: int, a: SttsBox, b: SttsBox)
    requires stts_at(d, p, a), stts_at(d, p, b), stts_fields_wire(a), stts_fields_wire(b)
    ensures a.version == b.version, a.flags == b.flags, a.entries@ == b.entries@
{
    assert(a.entries@.len() == b.entries@.len());
    assert forall|j: int| 0 <= j < a.entries@.len() implies a.entries@[j] == b.entries@[j] by {
            assert(a.entries@[j].sample_count == b.entries@[j].sample_count);
        }
        assert(a.entries@ =~= b.entries@);
    }

/// reference encoder: bytes of the box up to and including entry n-1
pub open spec fn stts_prefix(b: SttsBox, n: int) -> Seq<u8>
    decreases n
{
    if n <= 0 {
        hdr_bytes(stts_len(b) as u64, 0x73747473) + fullbox_bytes(b.version, b.flags) + be_bytes(b.entries@.len(), 4)
    } else {
        stts_prefix(b, n - 1) + be_bytes(b.entries@[n - 1].sample_count as nat, 4) + be_bytes(b.entries@[n - 1].sample_delta as nat, 4)
    }
}

pub open spec fn stts_bytes(b: SttsBox) -> Seq<u8> { stts_prefix(b, b.entries@.len() as int) }

pub broadcast proof fn lemma_stts_prefix_len(b: SttsBox, n: int)
    requires stts_wire(b), 0 <= n
    ensures (#[trigger] stts_prefix(b, n)).len() == 16 + 8 * n
    decreases n
{
    broadcast use group_stream;
    if n > 0 { lemma_stts_prefix_len(b, n - 1); }
}

// ---- ctts: ISO/IEC 14496-12 section 8.6.1.3 CompositionOffsetBox extends FullBox('ctts', version, flags)
//   unsigned int(32) entry_count; { unsigned int(32) sample_count; signed int(32) sample_offset; } [entry_count]
pub open spec fn ctts_len(b: CttsBox) -> int { 16 + 8 * (b.entries@.len() as int) }

/// every field fits the width the format gives it
pub open spec fn ctts_fields_wire(b: CttsBox) -> bool {
    flags_wire(b.flags) && b.entries@.len() <= 0xffff_ffff
}

/// ... and the whole box uses the compact header form (boxes over 4 GiB: DESIGN D-20)
pub open spec fn ctts_wire(b: CttsBox) -> bool { ctts_fields_wire(b) && ctts_len(b) <= 0xffff_ffff }

pub open spec fn ctts_entries_at(d: Seq<u8>, p: int, e: Seq<CttsEntry>, n: int) -> bool {
    forall|j: int| 0 <= j < n ==> be32(d, p + 16 + 8 * j) == (#[trigger] e[j]).sample_count
                               && (be32(d, p + 20 + 8 * j) as i32) == e[j].sample_offset
}

pub open spec fn ctts_at(d: Seq<u8>, p: int, b: CttsBox) -> bool {
    &&& fullbox_at(d, p, b.version, b.flags)
    &&& be32(d, p + 12) == b.entries@.len()
    &&& ctts_entries_at(d, p, b.entries@, b.entries@.len() as int)
}

/// the layout determines the value (decode is a function): used for the round trip and for C15
pub proof fn lemma_ctts_functional(d: Seq<u8>, p: int, a: CttsBox, b: CttsBox)
    requires ctts_at(d, p, a), ctts_at(d, p, b), ctts_fields_wire(a), ctts_fields_wire(b)
    ensures a.version == b.version, a.flags == b.flags, a.entries@ == b.entries@
{
    assert(a.entries@.len() == b.entries@.len());
    assert forall|j: int| 0 <= j < a.entries@.len() implies a.entries@[j] == b.entries@[j] by {
            assert(a.entries@[j].sample_count == b.entries@[j].sample_count);
        }
        assert(a.entries@ =~= b.entries@);
    }

/// reference encoder: bytes of the box up to and including entry n-1
pub open spec fn ctts_prefix(b: CttsBox, n: int) -> Seq<u8>
    decreases n
{
    if n <= 0 {
        hdr_bytes(ctts_len(b) as u64, 0x63747473) + fullbox_bytes(b.version, b.flags) + be_bytes(b.entries@.len(), 4)
    } else {
        ctts_prefix(b, n - 1) + be_bytes(b.entries@[n - 1].sample_count as nat, 4) + be_bytes((b.entries@[n - 1].sample_offset as u32) as nat, 4)
    }
}

pub open spec fn ctts_bytes(b: CttsBox) -> Seq<u8> { ctts_prefix(b, b.entries@.len() as int) }

pub broadcast proof fn lemma_ctts_prefix_len(b: CttsBox, n: int)
    requires ctts_wire(b), 0 <= n
    ensures (#[trigger] ctts_prefix(b, n)).len() == 16 + 8 * n
    decreases n
{
    broadcast use group_stream;
    if n > 0 { lemma_ctts_prefix_len(b, n - 1); }
}

// ---- stss: ISO/IEC 14496-12 section 8.6.2 SyncSampleBox extends FullBox('stss', version, flags)
//   unsigned int(32) entry_count; { unsigned int(32) sample_number; } [entry_count]
pub open spec fn stss_len(b: StssBox) -> int { 16 + 4 * (b.entries@.len() as int) }

/// every field fits the width the format gives it
pub open spec fn stss_fields_wire(b: StssBox) -> bool {
    flags_wire(b.flags) && b.entries@.len() <= 0xffff_ffff
}

/// ... and the whole box uses the compact header form (boxes over 4 GiB: DESIGN D-20)
pub open spec fn stss_wire(b: StssBox) -> bool { stss_fields_wire(b) && stss_len(b) <= 0xffff_ffff }

pub open spec fn stss_entries_at(d: Seq<u8>, p: int, e: Seq<u32>, n: int) -> bool {
    forall|j: int| 0 <= j < n ==> be32(d, p + 16 + 4 * j) == (#[trigger] e[j])
}

pub open spec fn stss_at(d: Seq<u8>, p: int, b: StssBox) -> bool {
    &&& fullbox_at(d, p, b.version, b.flags)
    &&& be32(d, p + 12) == b.entries@.len()
    &&& stss_entries_at(d, p, b.entries@, b.entries@.len() as int)
}

/// the layout determines the value (decode is a function): used for the round trip and for C15
pub proof fn lemma_stss_functional(d: Seq<u8>, p: int, a: StssBox, b: StssBox)
    requires stss_at(d, p, a), stss_at(d, p, b), stss_fields_wire(a), stss_fields_wire(b)
    ensures a.version == b.version, a.flags == b.flags, a.entries@ == b.entries@
{
    assert(a.entries@.len() == b.entries@.len());
    assert forall|j: int| 0 <= j < a.entries@.len() implies a.entries@[j] == b.entries@[j] by {
            assert(be32(d, p + 16 + 4 * j) == a.entries@[j]);
        }
        assert(a.entries@ =~= b.entries@);
    }

/// reference encoder: bytes of the box up to and including entry n-1
pub open spec fn stss_prefix(b: StssBox, n: int) -> Seq<u8>
    decreases n
{
    if n <= 0 {
        hdr_bytes(stss_len(b) as u64, 0x73747373) + fullbox_bytes(b.version, b.flags) + be_bytes(b.entries@.len(), 4)
    } else {
        stss_prefix(b, n - 1) + be_bytes(b.entries@[n - 1] as nat, 4)
    }
}

pub open spec fn stss_bytes(b: StssBox) -> Seq<u8> { stss_prefix(b, b.entries@.len() as int) }

pub broadcast proof fn lemma_stss_prefix_len(b: StssBox, n: int)
    requires stss_wire(b), 0 <= n
    ensures (#[trigger] stss_prefix(b, n)).len() == 16 + 4 * n
    decreases n
{
    broadcast use group_stream;
    if n > 0 { lemma_stss_prefix_len(b, n - 1); }
}

// ---- stco: ISO/IEC 14496-12 section 8.7.5 ChunkOffsetBox extends FullBox('stco', version, flags)
//   unsigned int(32) entry_count; { unsigned int(32) chunk_offset; } [entry_count]
pub open spec fn stco_len(b: StcoBox) -> int { 16 + 4 * (b.entries@.len() as int) }

/// every field fits the width the format gives it
pub open spec fn stco_fields_wire(b: StcoBox) -> bool {
    flags_wire(b.flags) && b.entries@.len() <= 0xffff_ffff
}

/// ... and the whole box uses the compact header form (boxes over 4 GiB: DESIGN D-20)
pub open spec fn stco_wire(b: StcoBox) -> bool { stco_fields_wire(b) && stco_len(b) <= 0xffff_ffff }

pub open spec fn stco_entries_at(d: Seq<u8>, p: int, e: Seq<u32>, n: int) -> bool {
    forall|j: int| 0 <= j < n ==> be32(d, p + 16 + 4 * j) == (#[trigger] e[j])
}

pub open spec fn stco_at(d: Seq<u8>, p: int, b: StcoBox) -> bool {
    &&& fullbox_at(d, p, b.version, b.flags)
    &&& be32(d, p + 12) == b.entries@.len()
    &&& stco_entries_at(d, p, b.entries@, b.entries@.len() as int)
}

/// the layout determines the value (decode is a function): used for the round trip and for C15
pub proof fn lemma_stco_functional(d: Seq<u8>, p: int, a: StcoBox, b: StcoBox)
    requires stco_at(d, p, a), stco_at(d, p, b), stco_fields_wire(a), stco_fields_wire(b)
    ensures a.version == b.version, a.flags == b.flags, a.entries@ == b.entries@
{
    assert(a.entries@.len() == b.entries@.len());
    assert forall|j: int| 0 <= j < a.entries@.len() implies a.entries@[j] == b.entries@[j] by {
            assert(be32(d, p + 16 + 4 * j) == a.entries@[j]);
        }
        assert(a.entries@ =~= b.entries@);
    }

/// reference encoder: bytes of the box up to and including entry n-1
pub open spec fn stco_prefix(b: StcoBox, n: int) -> Seq<u8>
    decreases n
{
    if n <= 0 {
        hdr_bytes(stco_len(b) as u64, 0x7374636f) + fullbox_bytes(b.version, b.flags) + be_bytes(b.entries@.len(), 4)
    } else {
        stco_prefix(b, n - 1) + be_bytes(b.entries@[n - 1] as nat, 4)
    }
}

pub open spec fn stco_bytes(b: StcoBox) -> Seq<u8> { stco_prefix(b, b.entries@.len() as int) }

pub broadcast proof fn lemma_stco_prefix_len(b: StcoBox, n: int)
    requires stco_wire(b), 0 <= n
    ensures (#[trigger] stco_prefix(b, n)).len() == 16 + 4 * n
    decreases n
{
    broadcast use group_stream;
    if n > 0 { lemma_stco_prefix_len(b, n - 1); }
}

// ---- co64: ISO/IEC 14496-12 section 8.7.5 ChunkLargeOffsetBox extends FullBox('co64', version, flags)
//   unsigned int(32) entry_count; { unsigned int(64) chunk_offset; } [entry_count]
pub open spec fn co64_len(b: Co64Box) -> int { 16 + 8 * (b.entries@.len() as int) }

/// every field fits the width the format gives it
pub open spec fn co64_fields_wire(b: Co64Box) -> bool {
    flags_wire(b.flags) && b.entries@.len() <= 0xffff_ffff
}

/// ... and the whole box uses the compact header form (boxes over 4 GiB: DESIGN D-20)
pub open spec fn co64_wire(b: Co64Box) -> bool { co64_fields_wire(b) && co64_len(b) <= 0xffff_ffff }

pub open spec fn co64_entries_at(d: Seq<u8>, p: int, e: Seq<u64>, n: int) -> bool {
    forall|j: int| 0 <= j < n ==> be64(d, p + 16 + 8 * j) == (#[trigger] e[j])
}

pub open spec fn co64_at(d: Seq<u8>, p: int, b: Co64Box) -> bool {
    &&& fullbox_at(d, p, b.version, b.flags)
    &&& be32(d, p + 12) == b.entries@.len()
    &&& co64_entries_at(d, p, b.entries@, b.entries@.len() as int)
}

/// the layout determines the value (decode is a function): used for the round trip and for C15
pub proof fn lemma_co64_functional(d: Seq<u8>, p: int, a: Co64Box, b: Co64Box)
    requires co64_at(d, p, a), co64_at(d, p, b), co64_fields_wire(a), co64_fields_wire(b)
    ensures a.version == b.version, a.flags == b.flags, a.entries@ == b.entries@
{
    assert(a.entries@.len() == b.entries@.len());
    assert forall|j: int| 0 <= j < a.entries@.len() implies a.entries@[j] == b.entries@[j] by {
            assert(be64(d, p + 16 + 8 * j) == a.entries@[j]);
        }
        assert(a.entries@ =~= b.entries@);
    }

/// reference encoder: bytes of the box up to and including entry n-1
pub open spec fn co64_prefix(b: Co64Box, n: int) -> Seq<u8>
    decreases n
{
    if n <= 0 {
        hdr_bytes(co64_len(b) as u64, 0x636f3634) + fullbox_bytes(b.version, b.flags) + be_bytes(b.entries@.len(), 4)
    } else {
        co64_prefix(b, n - 1) + be_bytes(b.entries@[n - 1] as nat, 8)
    }
}

pub open spec fn co64_bytes(b: Co64Box) -> Seq<u8> { co64_prefix(b, b.entries@.len() as int) }

pub broadcast proof fn lemma_co64_prefix_len(b: Co64Box, n: int)
    requires co64_wire(b), 0 <= n
    ensures (#[trigger] co64_prefix(b, n)).len() == 16 + 8 * n
    decreases n
{
    broadcast use group_stream;
    if n > 0 { lemma_co64_prefix_len(b, n - 1); }
}

// ---- stsc: ISO/IEC 14496-12 section 8.7.4 SampleToChunkBox extends FullBox('stsc', version, flags)
//   unsigned int(32) entry_count; { unsigned int(32) first_chunk; unsigned int(32) samples_per_chunk; unsigned int(32) sample_description_index; } [entry_count]
pub open spec fn stsc_len(b: StscBox) -> int { 16 + 12 * (b.entries@.len() as int) }

/// every field fits the width the format gives it
pub open spec fn stsc_fields_wire(b: StscBox) -> bool {
    flags_wire(b.flags) && b.entries@.len() <= 0xffff_ffff
}

/// ... and the whole box uses the compact header form (boxes over 4 GiB: DESIGN D-20)
pub open spec fn stsc_wire(b: StscBox) -> bool { stsc_fields_wire(b) && stsc_len(b) <= 0xffff_ffff }

pub open spec fn stsc_entries_at(d: Seq<u8>, p: int, e: Seq<StscEntry>, n: int) -> bool {
    forall|j: int| 0 <= j < n ==> be32(d, p + 16 + 12 * j) == (#[trigger] e[j]).first_chunk
                               && be32(d, p + 20 + 12 * j) == e[j].samples_per_chunk
                               && be32(d, p + 24 + 12 * j) == e[j].sample_description_index
}

pub open spec fn stsc_at(d: Seq<u8>, p: int, b: StscBox) -> bool {
    &&& fullbox_at(d, p, b.version, b.flags)
    &&& be32(d, p + 12) == b.entries@.len()
    &&& stsc_entries_at(d, p, b.entries@, b.entries@.len() as int)
}

/// the layout determines the value (decode is a function): used for the round trip and for C15
pub proof fn lemma_stsc_functional(d: Seq<u8>, p: int, a: StscBox, b: StscBox)
    requires stsc_at(d, p, a), stsc_at(d, p, b), stsc_fields_wire(a), stsc_fields_wire(b)
    ensures a.version == b.version, a.flags == b.flags, a.entries@.len() == b.entries@.len(),
        forall|j: int| 0 <= j < a.entries@.len() ==> stsc_entry_wire_eq(#[trigger] a.entries@[j], b.entries@[j])
{
    assert(a.entries@.len() == b.entries@.len());
    assert forall|j: int| 0 <= j < a.entries@.len() implies stsc_entry_wire_eq(#[trigger] a.entries@[j], b.entries@[j]) by {
        assert(a.entries@[j].first_chunk == b.entries@[j].first_chunk);
    }
}

pub open spec fn stsc_entry_wire_eq(x: StscEntry, y: StscEntry) -> bool {
    x.first_chunk == y.first_chunk && x.samples_per_chunk == y.samples_per_chunk && x.sample_description_index == y.sample_description_index
}

/// reference encoder: bytes of the box up to and including entry n-1
pub open spec fn stsc_prefix(b: StscBox, n: int) -> Seq<u8>
    decreases n
{
    if n <= 0 {
        hdr_bytes(stsc_len(b) as u64, 0x73747363) + fullbox_bytes(b.version, b.flags) + be_bytes(b.entries@.len(), 4)
    } else {
        stsc_prefix(b, n - 1) + be_bytes(b.entries@[n - 1].first_chunk as nat, 4) + be_bytes(b.entries@[n - 1].samples_per_chunk as nat, 4) + be_bytes(b.entries@[n - 1].sample_description_index as nat, 4)
    }
}

pub open spec fn stsc_bytes(b: StscBox) -> Seq<u8> { stsc_prefix(b, b.entries@.len() as int) }

pub broadcast proof fn lemma_stsc_prefix_len(b: StscBox, n: int)
    requires stsc_wire(b), 0 <= n
    ensures (#[trigger] stsc_prefix(b, n)).len() == 16 + 12 * n
    decreases n
{
    broadcast use group_stream;
    if n > 0 { lemma_stsc_prefix_len(b, n - 1); }
}


// ---- stsz: ISO/IEC 14496-12 section 8.7.3.2 SampleSizeBox extends FullBox('stsz', 0, 0)   (hand written)
//   unsigned int(32) sample_size; unsigned int(32) sample_count;
//   if (sample_size==0) { unsigned int(32) entry_size; } [sample_count]
pub open spec fn stsz_len(b: StszBox) -> int { 20 + 4 * (b.sample_sizes@.len() as int) }

/// the per-sample table is present exactly when sample_size == 0, with sample_count entries
pub open spec fn stsz_fields_wire(b: StszBox) -> bool {
    &&& flags_wire(b.flags)
    &&& (b.sample_size == 0 ==> b.sample_sizes@.len() == b.sample_count)
    &&& (b.sample_size != 0 ==> b.sample_sizes@.len() == 0)
}

pub open spec fn stsz_wire(b: StszBox) -> bool { stsz_fields_wire(b) && stsz_len(b) <= 0xffff_ffff }

pub open spec fn stsz_entries_at(d: Seq<u8>, p: int, e: Seq<u32>, n: int) -> bool {
    forall|j: int| 0 <= j < n ==> be32(d, p + 20 + 4 * j) == #[trigger] e[j]
}

pub open spec fn stsz_at(d: Seq<u8>, p: int, b: StszBox) -> bool {
    &&& fullbox_at(d, p, b.version, b.flags)
    &&& be32(d, p + 12) == b.sample_size
    &&& be32(d, p + 16) == b.sample_count
    &&& stsz_entries_at(d, p, b.sample_sizes@, b.sample_sizes@.len() as int)
}

pub proof fn lemma_stsz_functional(d: Seq<u8>, p: int, a: StszBox, b: StszBox)
    requires stsz_at(d, p, a), stsz_at(d, p, b), stsz_fields_wire(a), stsz_fields_wire(b)
    ensures a.version == b.version, a.flags == b.flags, a.sample_size == b.sample_size, a.sample_count == b.sample_count,
        a.sample_sizes@ == b.sample_sizes@
{
    assert(a.sample_sizes@.len() == b.sample_sizes@.len());
    assert forall|j: int| 0 <= j < a.sample_sizes@.len() implies a.sample_sizes@[j] == b.sample_sizes@[j] by {
        assert(be32(d, p + 20 + 4 * j) == a.sample_sizes@[j]);
    }
    assert(a.sample_sizes@ =~= b.sample_sizes@);
}

pub open spec fn stsz_prefix(b: StszBox, n: int) -> Seq<u8>
    decreases n
{
    if n <= 0 {
        hdr_bytes(stsz_len(b) as u64, 0x7374737a) + fullbox_bytes(b.version, b.flags) + be_bytes(b.sample_size as nat, 4) + be_bytes(b.sample_count as nat, 4)
    } else {
        stsz_prefix(b, n - 1) + be_bytes(b.sample_sizes@[n - 1] as nat, 4)
    }
}

pub open spec fn stsz_bytes(b: StszBox) -> Seq<u8> { stsz_prefix(b, b.sample_sizes@.len() as int) }

pub broadcast proof fn lemma_stsz_prefix_len(b: StszBox, n: int)
    requires stsz_wire(b), 0 <= n
    ensures (#[trigger] stsz_prefix(b, n)).len() == 20 + 4 * n
    decreases n
{
    broadcast use group_stream;
    if n > 0 { lemma_stsz_prefix_len(b, n - 1); }
}
