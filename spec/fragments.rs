// SPEC LIBRARY: movie-fragment semantics, ISO/IEC 14496-12 section 8.8 (tfhd 8.8.7, trun 8.8.8, tfdt 8.8.12, trex 8.8.3).
// Samples of a track are numbered across its track fragments in file order; a traf without a run holds none.

pub open spec fn traf_count(t: TrafBox) -> int {
    match t.trun { Some(r) => r.sample_count as int, None => 0 }
}

/// samples held by the first n track fragments
pub open spec fn frag_total(ts: Seq<TrafBox>, n: int) -> int
    decreases n
{
    if n <= 0 { 0 } else { frag_total(ts, n - 1) + traf_count(ts[n - 1]) }
}

/// sample k (1-based, global) is sample j (0-based) of the run of track fragment t
pub open spec fn frag_locates(ts: Seq<TrafBox>, k: int, t: int, j: int) -> bool {
    &&& 0 <= t < ts.len()
    &&& ts[t].trun is Some
    &&& frag_total(ts, t) + j == k - 1
    &&& 0 <= j < traf_count(ts[t])
}

pub proof fn lemma_frag_total_mono(ts: Seq<TrafBox>, a: int, b: int)
    requires 0 <= a <= b
    ensures frag_total(ts, a) <= frag_total(ts, b)
    decreases b - a
{
    if a < b { lemma_frag_total_mono(ts, a, b - 1); }
}

pub proof fn lemma_frag_locates_unique(ts: Seq<TrafBox>, k: int, t1: int, j1: int, t2: int, j2: int)
    requires frag_locates(ts, k, t1, j1), frag_locates(ts, k, t2, j2)
    ensures t1 == t2 && j1 == j2
{
    if t1 < t2 { lemma_frag_total_mono(ts, t1 + 1, t2); }
    if t2 < t1 { lemma_frag_total_mono(ts, t2 + 1, t1); }
}

/// what TrunBox::read_box guarantees: each per-sample table is present, with sample_count entries, exactly when its flag is set
pub open spec fn trun_parsed(r: TrunBox) -> bool {
    &&& r.sample_durations@.len() == (if 0x100u32 & r.flags > 0 { r.sample_count as nat } else { 0 })
    &&& r.sample_sizes@.len() == (if 0x200u32 & r.flags > 0 { r.sample_count as nat } else { 0 })
    &&& r.sample_flags@.len() == (if 0x400u32 & r.flags > 0 { r.sample_count as nat } else { 0 })
    &&& r.sample_cts@.len() == (if 0x800u32 & r.flags > 0 { r.sample_count as nat } else { 0 })
}

pub open spec fn trafs_parsed(ts: Seq<TrafBox>) -> bool {
    forall|t: int| 0 <= t < ts.len() ==> ((#[trigger] ts[t]).trun matches Some(r) ==> trun_parsed(r))
}

/// sum of the first j entries of a u32 table
pub open spec fn sum_u32(s: Seq<u32>, j: int) -> int
    decreases j
{
    if j <= 0 { 0 } else { sum_u32(s, j - 1) + s[j - 1] }
}

/// data position of the run of fragment t: explicit base data offset, else the start of the enclosing moof; plus the run's data offset
pub open spec fn frag_run_base(tr: Mp4Track, t: int) -> int {
    let f = tr.trafs@[t];
    let base = match f.tfhd.base_data_offset { Some(b) => b as int, None => tr.moof_offsets@[t] as int };
    match f.trun->Some_0.data_offset { Some(d) => base + d, None => base }
}

pub open spec fn frag_offset_iso(tr: Mp4Track, t: int, j: int) -> int {
    frag_run_base(tr, t) + sum_u32(tr.trafs@[t].trun->Some_0.sample_sizes@, j)
}

/// duration of sample j of fragment t: per-sample, else the fragment default, else the movie-level default
pub open spec fn frag_default_duration(tr: Mp4Track, t: int) -> int {
    match tr.trafs@[t].tfhd.default_sample_duration { Some(d) => d as int, None => tr.default_sample_duration as int }
}

pub open spec fn frag_has_durations(tr: Mp4Track, t: int) -> bool {
    0x100u32 & tr.trafs@[t].trun->Some_0.flags != 0
}

pub open spec fn frag_duration_iso(tr: Mp4Track, t: int, j: int) -> int {
    if frag_has_durations(tr, t) { tr.trafs@[t].trun->Some_0.sample_durations@[j] as int } else { frag_default_duration(tr, t) }
}

pub open spec fn frag_base_time(tr: Mp4Track, t: int) -> int {
    match tr.trafs@[t].tfdt { Some(d) => d.base_media_decode_time as int, None => 0 }
}

pub open spec fn frag_time_iso(tr: Mp4Track, t: int, j: int) -> int {
    frag_base_time(tr, t) + (if frag_has_durations(tr, t) { sum_u32(tr.trafs@[t].trun->Some_0.sample_durations@, j) }
                             else { j * frag_default_duration(tr, t) })
}

pub proof fn lemma_sum_u32_mono(s: Seq<u32>, a: int, b: int)
    requires 0 <= a <= b
    ensures 0 <= sum_u32(s, a) <= sum_u32(s, b), sum_u32(s, b) <= b * 0xffff_ffff
    decreases b
{
    if b > 0 {
        if a < b { lemma_sum_u32_mono(s, a, b - 1); } else { lemma_sum_u32_mono(s, a - 1, b - 1); }
    }
}
