// SPEC LIBRARY: sample entries and their configuration records, decode side (C14 "configuration survives", C12 child walks).
// Written from ISO/IEC 14496-12 12.1.3 (VisualSampleEntry), 12.2.3 (AudioSampleEntry) and ISO/IEC 14496-15 5.3.3.1
// (AVCDecoderConfigurationRecord).

// ---- length-prefixed NAL units: unsigned int(16) length; bit(8*length) nalUnit
pub open spec fn nal_end(d: Seq<u8>, p: int) -> int { p + 2 + be16(d, p) }
pub open spec fn nal_bytes_at(d: Seq<u8>, p: int) -> Seq<u8> { d.subrange(p + 2, nal_end(d, p)) }
/// position after n consecutive NAL units starting at p
pub open spec fn nals_end(d: Seq<u8>, p: int, n: int) -> int
    decreases n
{
    if n <= 0 { p } else { nal_end(d, nals_end(d, p, n - 1)) }
}
pub open spec fn nals_match(d: Seq<u8>, p: int, v: Seq<NalUnit>, n: int) -> bool {
    forall|i: int| 0 <= i < n ==> (#[trigger] v[i]).bytes@ == nal_bytes_at(d, nals_end(d, p, i))
}

/// AVCDecoderConfigurationRecord whose first byte is at q:
///   configurationVersion(8) AVCProfileIndication(8) profile_compatibility(8) AVCLevelIndication(8)
///   reserved(6) lengthSizeMinusOne(2)  reserved(3) numOfSequenceParameterSets(5) { length(16) sps }*
///   numOfPictureParameterSets(8) { length(16) pps }*
pub open spec fn avcc_at(d: Seq<u8>, q: int, b: AvcCBox) -> bool {
    let ns = (d[q + 5] & 0x1f) as int;
    let p2 = nals_end(d, q + 6, ns);
    &&& b.configuration_version == d[q] && b.avc_profile_indication == d[q + 1]
    &&& b.profile_compatibility == d[q + 2] && b.avc_level_indication == d[q + 3]
    &&& b.length_size_minus_one == d[q + 4] & 0x3
    &&& b.sequence_parameter_sets@.len() == ns && nals_match(d, q + 6, b.sequence_parameter_sets@, ns)
    &&& b.picture_parameter_sets@.len() == d[p2] as int && nals_match(d, p2 + 1, b.picture_parameter_sets@, d[p2] as int)
}

/// first child of type `ty` on the chain of sibling boxes from p (None if the walk reaches `end` first)
pub open spec fn first_child(d: Seq<u8>, p: int, end: int, ty: BoxType) -> Option<int>
    decreases (if p < end { end - p } else { 0 })
{
    if p >= end || child_next(d, p) <= p { None }
    else if child_name(d, p) == ty { Some(p) }
    else { first_child(d, child_next(d, p), end, ty) }
}

/// VisualSampleEntry 'avc1' whose body starts at q (78 bytes of fixed fields, then child boxes among which avcC)
pub open spec fn avc1_at(d: Seq<u8>, q: int, size: u64, b: Avc1Box) -> bool {
    &&& b.data_reference_index == be16(d, q + 6)
    &&& b.width == be16(d, q + 24) && b.height == be16(d, q + 26)
    &&& b.horizresolution.0.numer == be32(d, q + 28) && b.vertresolution.0.numer == be32(d, q + 32)
    &&& b.frame_count == be16(d, q + 40) && b.depth == be16(d, q + 74)
    &&& (first_child(d, q + 78, q - 8 + size, BoxType::AvcCBox) matches Some(p) && avcc_at(d, child_q(d, p), b.avcc))
}

/// AudioSampleEntry children walk of the crate: a 'wave' box is descended into (QuickTime), everything else is a sibling
pub open spec fn mp4a_next(d: Seq<u8>, p: int) -> int { if child_name(d, p) == BoxType::WaveBox { child_q(d, p) } else { child_next(d, p) } }
pub open spec fn first_esds(d: Seq<u8>, p: int, end: int) -> Option<int>
    decreases (if p < end { end - p } else { 0 })
{
    if p >= end || mp4a_next(d, p) <= p { None }
    else if child_name(d, p) == BoxType::EsdsBox { Some(p) }
    else { first_esds(d, mp4a_next(d, p), end) }
}

/// AudioSampleEntry body at q: 28 bytes of fixed fields, 16 more when the QuickTime sound-description version is 1
pub open spec fn mp4a_children_start(d: Seq<u8>, q: int) -> int { if be16(d, q + 8) == 1 { q + 44 } else { q + 28 } }
pub open spec fn mp4a_at(d: Seq<u8>, q: int, size: u64, b: Mp4aBox) -> bool {
    &&& b.data_reference_index == be16(d, q + 6)
    &&& b.channelcount == be16(d, q + 16) && b.samplesize == be16(d, q + 18) && b.samplerate.0.numer == be32(d, q + 24)
    &&& (b.esds is Some <==> first_esds(d, mp4a_children_start(d, q), q - 8 + size) is Some)
    &&& (b.esds matches Some(e) ==> (first_esds(d, mp4a_children_start(d, q), q - 8 + size) matches Some(p)
            && esds_at(d, child_q(d, p), child_size(d, p), e)))
}

// ---- AudioSpecificConfig (ISO/IEC 14496-3 1.6.2.1), the two-byte form the muxer writes:
//      audioObjectType(5) samplingFrequencyIndex(4) channelConfiguration(4) GASpecificConfig flags(3) = 0
pub open spec fn asc_byte0(profile: u8, freq: u8) -> u8 { ((profile << 3) | (freq >> 1)) as u8 }
pub open spec fn asc_byte1(freq: u8, chan: u8) -> u8 { (((freq & 1) << 7) | (chan << 3)) as u8 }
pub open spec fn asc_freq(a: u8, b: u8) -> u8 { (((a & 7) << 1) | (b >> 7)) as u8 }
pub open spec fn asc_chan(b: u8) -> u8 { ((b >> 3) & 0xf) as u8 }
/// decode . encode = identity on the encodable domain (object types 1..30, frequency index below the escape value 15)
pub proof fn lemma_asc_roundtrip(p: u8, f: u8, c: u8)
    requires 1 <= p < 31, f < 15, c < 16
    ensures aot_of_bits(asc_byte0(p, f), asc_byte1(f, c)) == p, asc_freq(asc_byte0(p, f), asc_byte1(f, c)) == f, asc_chan(asc_byte1(f, c)) == c
{
    assert(((((p << 3) | (f >> 1)) as u8) >> 3) == p) by(bit_vector) requires p < 31, f < 15;
    assert((((((p << 3) | (f >> 1)) as u8) & 7) << 1) | ((((f & 1) << 7) | (c << 3)) as u8 >> 7) == f) by(bit_vector) requires p < 31, f < 15, c < 16;
    assert((((((f & 1) << 7) | (c << 3)) as u8) >> 3) & 0xf == c) by(bit_vector) requires f < 15, c < 16;
}

/// stsd (8.5.2) whose body starts at q: FullBox, entry_count(4), then the first sample entry (the only one this crate reads), at q + 8
pub open spec fn stsd_at(d: Seq<u8>, q: int, b: StsdBox) -> bool {
    let p = q + 8;
    let n = child_name(d, p);
    &&& b.version == d[q] && b.flags == be24(d, q + 1)
    &&& (b.avc1 is Some <==> n == BoxType::Avc1Box) && (b.hev1 is Some <==> n == BoxType::Hev1Box) && (b.vp09 is Some <==> n == BoxType::Vp09Box)
    &&& (b.mp4a is Some <==> n == BoxType::Mp4aBox) && (b.tx3g is Some <==> n == BoxType::Tx3gBox)
    &&& (b.avc1 matches Some(x) ==> avc1_at(d, child_q(d, p), child_size(d, p), x))
    &&& (b.mp4a matches Some(x) ==> mp4a_at(d, child_q(d, p), child_size(d, p), x))
    &&& (b.vp09 matches Some(x) ==> vp09_at(d, child_q(d, p), x))
    &&& (b.hev1 matches Some(x) ==> hev1_at(d, child_q(d, p), x))
    &&& (b.tx3g matches Some(x) ==> tx3g_at(d, child_q(d, p), x))
}

// ---- avcC, encode side: reference bytes (ISO/IEC 14496-15 5.3.3.1; reserved bits are ones)
pub open spec fn nal_bytes(n: NalUnit) -> Seq<u8> { be_bytes(n.bytes@.len(), 2) + n.bytes@ }
pub open spec fn nals_bytes(v: Seq<NalUnit>, n: int) -> Seq<u8>
    decreases n
{
    if n <= 0 { Seq::<u8>::empty() } else { nals_bytes(v, n - 1) + nal_bytes(v[n - 1]) }
}
pub open spec fn avcc_head(b: AvcCBox) -> Seq<u8> {
    hdr_bytes(avcc_len(b) as u64, 0x61766343) + seq![b.configuration_version, b.avc_profile_indication, b.profile_compatibility, b.avc_level_indication,
        b.length_size_minus_one | 0xFC, (b.sequence_parameter_sets@.len() as u8) | 0xE0]
}
pub open spec fn avcc_bytes(b: AvcCBox) -> Seq<u8> {
    avcc_head(b) + nals_bytes(b.sequence_parameter_sets@, b.sequence_parameter_sets@.len() as int)
        + seq![b.picture_parameter_sets@.len() as u8] + nals_bytes(b.picture_parameter_sets@, b.picture_parameter_sets@.len() as int)
}
pub proof fn lemma_nals_bytes_len(v: Seq<NalUnit>, n: int)
    requires 0 <= n <= v.len(), nals_wire(v)
    ensures nals_bytes(v, n).len() == nal_sum(v, n)
    decreases n
{
    broadcast use lemma_be_bytes_len;
    if n > 0 { lemma_nals_bytes_len(v, n - 1); }
}

pub proof fn lemma_avcc_bytes_len(b: AvcCBox)
    requires avcc_wire(b)
    ensures avcc_bytes(b).len() == avcc_len(b)
{
    broadcast use lemma_be_bytes_len;
    lemma_nals_bytes_len(b.sequence_parameter_sets@, b.sequence_parameter_sets@.len() as int);
    lemma_nals_bytes_len(b.picture_parameter_sets@, b.picture_parameter_sets@.len() as int);
}

// ---- trun (8.8.8), decode side; p = start of the box in the 8-byte-header convention
pub open spec fn trun_o3(d: Seq<u8>, p: int, flags: u32) -> int { p + 16 + (if flag_set(flags, 0x01) { 4int } else { 0 }) + (if flag_set(flags, 0x04) { 4int } else { 0 }) }
/// start of the record of sample j
pub open spec fn trun_rec(d: Seq<u8>, p: int, flags: u32, j: int) -> int { trun_o3(d, p, flags) + trun_samples_len(flags, j) }
pub open spec fn trun_samples_at(d: Seq<u8>, p: int, flags: u32, du: Seq<u32>, sz: Seq<u32>, fl: Seq<u32>, ct: Seq<u32>, n: int) -> bool {
    let o_sz = if flag_set(flags, 0x100) { 4int } else { 0 };
    let o_fl = o_sz + (if flag_set(flags, 0x200) { 4int } else { 0 });
    let o_ct = o_fl + (if flag_set(flags, 0x400) { 4int } else { 0 });
    &&& (flag_set(flags, 0x100) ==> forall|j: int| 0 <= j < n ==> #[trigger] du[j] == be32(d, trun_rec(d, p, flags, j)))
    &&& (flag_set(flags, 0x200) ==> forall|j: int| 0 <= j < n ==> #[trigger] sz[j] == be32(d, trun_rec(d, p, flags, j) + o_sz))
    &&& (flag_set(flags, 0x400) ==> forall|j: int| 0 <= j < n ==> #[trigger] fl[j] == be32(d, trun_rec(d, p, flags, j) + o_fl))
    &&& (flag_set(flags, 0x800) ==> forall|j: int| 0 <= j < n ==> #[trigger] ct[j] == be32(d, trun_rec(d, p, flags, j) + o_ct))
}
pub open spec fn trun_at(d: Seq<u8>, p: int, b: TrunBox) -> bool {
    &&& fullbox_at(d, p, b.version, b.flags)
    &&& b.sample_count == be32(d, p + 12)
    &&& (flag_set(b.flags, 0x01) ==> b.data_offset == Some(be32(d, p + 16) as i32)) && (!flag_set(b.flags, 0x01) ==> b.data_offset is None)
    &&& (flag_set(b.flags, 0x04) ==> b.first_sample_flags == Some(be32(d, p + 16 + (if flag_set(b.flags, 0x01) { 4int } else { 0 }))))
    &&& (!flag_set(b.flags, 0x04) ==> b.first_sample_flags is None)
    &&& trun_parsed(b)
    &&& trun_samples_at(d, p, b.flags, b.sample_durations@, b.sample_sizes@, b.sample_flags@, b.sample_cts@, b.sample_count as int)
}

/// VP9 sample entry 'vp09' (VisualSampleEntry layout, as this crate reads it) whose body starts at q; the configuration box
/// is the child that follows the 78 fixed bytes (the crate does not check its type)
pub open spec fn vp09_at(d: Seq<u8>, q: int, b: Vp09Box) -> bool {
    &&& b.version == d[q] && b.flags == be24(d, q + 1)
    &&& b.start_code == be16(d, q + 4) && b.data_reference_index == be16(d, q + 6)
    &&& b.width == be16(d, q + 24) && b.height == be16(d, q + 26)
    &&& b.horizresolution == (be16(d, q + 28), be16(d, q + 30)) && b.vertresolution == (be16(d, q + 32), be16(d, q + 34))
    &&& b.frame_count == be16(d, q + 40) && b.depth == be16(d, q + 74) && b.end_code == be16(d, q + 76)
    &&& vpcc_at(d, child_q(d, q + 78) - 8, b.vpcc)
}

// ---- hvcC: HEVCDecoderConfigurationRecord (ISO/IEC 14496-15 8.3.3.1.2), the 23 fixed bytes, first byte at q:
//   configurationVersion(8)  general_profile_space(2) general_tier_flag(1) general_profile_idc(5)
//   general_profile_compatibility_flags(32)  general_constraint_indicator_flags(48)  general_level_idc(8)
//   reserved(4) min_spatial_segmentation_idc(12)  reserved(6) parallelismType(2)  reserved(6) chromaFormat(2)
//   reserved(5) bitDepthLumaMinus8(3)  reserved(5) bitDepthChromaMinus8(3)  avgFrameRate(16)
//   constantFrameRate(2) numTemporalLayers(3) temporalIdNested(1) lengthSizeMinusOne(2)  numOfArrays(8)
pub open spec fn hvcc_head_at(d: Seq<u8>, q: int, b: HvcCBox) -> bool {
    &&& b.configuration_version == d[q]
    &&& b.general_profile_space == d[q + 1] >> 6 && b.general_tier_flag == ((d[q + 1] >> 5) & 1 == 1) && b.general_profile_idc == d[q + 1] & 0x1f
    &&& b.general_profile_compatibility_flags == be32(d, q + 2) && b.general_constraint_indicator_flag == be48(d, q + 6)
    &&& b.general_level_idc == d[q + 12] && b.min_spatial_segmentation_idc == be16(d, q + 13) & 0x0fff
    &&& b.parallelism_type == d[q + 15] & 3 && b.chroma_format_idc == d[q + 16] & 3
    &&& b.bit_depth_luma_minus8 == d[q + 17] & 7 && b.bit_depth_chroma_minus8 == d[q + 18] & 7
    &&& b.avg_frame_rate == be16(d, q + 19)
    &&& b.constant_frame_rate == d[q + 21] >> 6 && b.num_temporal_layers == (d[q + 21] >> 3) & 7
    &&& b.temporal_id_nested == ((d[q + 21] >> 2) & 1 == 1) && b.length_size_minus_one == d[q + 21] & 3
    &&& b.arrays@.len() == d[q + 22]
}
/// VisualSampleEntry 'hev1' whose body starts at q: 78 fixed bytes, then hvcC as the first child
pub open spec fn hev1_at(d: Seq<u8>, q: int, b: Hev1Box) -> bool {
    &&& b.data_reference_index == be16(d, q + 6)
    &&& b.width == be16(d, q + 24) && b.height == be16(d, q + 26)
    &&& b.horizresolution.0.numer == be32(d, q + 28) && b.vertresolution.0.numer == be32(d, q + 32)
    &&& b.frame_count == be16(d, q + 40) && b.depth == be16(d, q + 74)
    &&& child_name(d, q + 78) == BoxType::HvcCBox && hvcc_head_at(d, child_q(d, q + 78), b.hvcc) && hvcc_arrays_at(d, child_q(d, q + 78), b.hvcc)
}

/// 3GPP timed text sample entry 'tx3g' (3GPP TS 26.245 5.16) whose body starts at q
pub open spec fn tx3g_at(d: Seq<u8>, q: int, b: Tx3gBox) -> bool {
    &&& b.data_reference_index == be16(d, q + 6) && b.display_flags == be32(d, q + 8)
    &&& b.horizontal_justification == d[q + 12] as i8 && b.vertical_justification == d[q + 13] as i8
    &&& b.bg_color_rgba.red == d[q + 14] && b.bg_color_rgba.green == d[q + 15] && b.bg_color_rgba.blue == d[q + 16] && b.bg_color_rgba.alpha == d[q + 17]
    &&& forall|i: int| 0 <= i < 4 ==> #[trigger] b.box_record[i] == be16(d, q + 18 + 2 * i) as i16
    &&& forall|i: int| 0 <= i < 12 ==> #[trigger] b.style_record[i] == d[q + 26 + i]
}

// ---- elst (8.6.6), decode side; p = start of the box in the 8-byte-header convention:
//   FullBox, entry_count(32), { segment_duration, media_time: 64 bits each if version == 1 else 32; media_rate_integer(16) media_rate_fraction(16) }
pub open spec fn elst_esz(version: u8) -> int { if version == 1 { 20 } else { 12 } }
pub open spec fn elst_entry_at(d: Seq<u8>, o: int, version: u8, e: ElstEntry) -> bool {
    if version == 1 {
        e.segment_duration == be64(d, o) && e.media_time == be64(d, o + 8) && e.media_rate == be16(d, o + 16) && e.media_rate_fraction == be16(d, o + 18)
    } else {
        e.segment_duration == be32(d, o) as u64 && e.media_time == be32(d, o + 4) as u64 && e.media_rate == be16(d, o + 8) && e.media_rate_fraction == be16(d, o + 10)
    }
}
pub open spec fn elst_entries_at(d: Seq<u8>, p: int, version: u8, e: Seq<ElstEntry>, n: int) -> bool {
    forall|j: int| 0 <= j < n ==> elst_entry_at(d, p + 16 + elst_esz(version) * j, version, #[trigger] e[j])
}
pub open spec fn elst_at(d: Seq<u8>, p: int, b: ElstBox) -> bool {
    &&& fullbox_at(d, p, b.version, b.flags)
    &&& be32(d, p + 12) == b.entries@.len()
    &&& elst_entries_at(d, p, b.version, b.entries@, b.entries@.len() as int)
}

/// edts (8.6.5) whose body starts at q: the crate looks at the first child only; an edit list there is decoded
pub open spec fn edts_at(d: Seq<u8>, q: int, b: EdtsBox) -> bool {
    &&& (b.elst is Some <==> child_name(d, q) == BoxType::ElstBox)
    &&& (b.elst matches Some(e) ==> elst_at(d, child_q(d, q) - 8, e))
}
