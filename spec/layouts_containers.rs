// SPEC LIBRARY: reference bytes of the containers the muxer writes (dinf/dref/url, and through tool/gen_pieces.py stbl, minf,
// mdia, trak): a container is its header followed by its children in the order of ISO/IEC 14496-12 (8.7.1, 8.5.1, 8.4.4, 8.4.1, 8.3.1).
// Exactness is conditional on every child having a byte-exact encoder: edit lists and metadata do not (the muxer never builds them).

/// DataEntryUrlBox('url ', version, flags): location (NUL terminated) unless the media is in the same file (then nothing follows)
pub open spec fn url_bytes(b: UrlBox) -> Seq<u8> {
    hdr_bytes(url_len(b) as u64, 0x75726c20) + fullbox_bytes(b.version, b.flags)
        + (if b.location@.len() == 0 { Seq::<u8>::empty() } else { utf8(b.location@) + seq![0u8] })
}
/// DataReferenceBox('dref'): FullBox, entry_count = 1, the entry
pub open spec fn dref_bytes(b: DrefBox) -> Seq<u8> {
    hdr_bytes(dref_len(b) as u64, 0x64726566) + fullbox_bytes(b.version, b.flags) + be_bytes(1, 4)
        + (match b.url { Some(u) => url_bytes(u), None => Seq::<u8>::empty() })
}
pub open spec fn dinf_bytes(b: DinfBox) -> Seq<u8> { hdr_bytes(dinf_len(b) as u64, 0x64696e66) + dref_bytes(b.dref) }

pub proof fn lemma_dinf_bytes_len(b: DinfBox)
    requires dinf_wire(b)
    ensures dinf_bytes(b).len() == dinf_len(b), dref_bytes(b.dref).len() == dref_len(b.dref),
            b.dref.url matches Some(u) ==> url_bytes(u).len() == url_len(u)
{
    broadcast use lemma_be_bytes_len;
}

pub proof fn lemma_stsd_bytes_len(b: StsdBox)
    requires stsd_wire(b), stsd_entry_exact(b)
    ensures stsd_bytes(b).len() == stsd_len(b)
{
    broadcast use lemma_be_bytes_len;
    if b.avc1 is Some { lemma_avc1_pre(b.avc1->Some_0); }
    else if b.hev1 is Some { lemma_hev1_pre(b.hev1->Some_0); }
    else if b.vp09 is Some { lemma_vp09_pre(b.vp09->Some_0); lemma_vpcc_pre_len(b.vp09->Some_0.vpcc); }
    else if b.mp4a is Some { lemma_mp4a_pre(b.mp4a->Some_0); }
    else if b.tx3g is Some { lemma_tx3g_bytes_len(b.tx3g->Some_0); }
}
pub proof fn lemma_hdlr_bytes_len(b: HdlrBox)
    requires hdlr_wire(b)
    ensures hdlr_bytes(b).len() == hdlr_len(b)
{
    broadcast use lemma_be_bytes_len;
}
pub open spec fn stbl_exact(b: StblBox) -> bool { stsd_entry_exact(b.stsd) }
pub open spec fn minf_exact(b: MinfBox) -> bool { stbl_exact(b.stbl) }
pub open spec fn mdia_exact(b: MdiaBox) -> bool { minf_exact(b.minf) }
pub open spec fn trak_exact(b: TrakBox) -> bool { mdia_exact(b.mdia) }

// ---- moov (8.2.1): mvhd, the tracks in order, mvex if any (meta / udta: no byte-exact encoder, required absent by moov_wire)
pub open spec fn traks_bytes(v: Seq<TrakBox>, n: int) -> Seq<u8>
    decreases n
{
    if n <= 0 { Seq::<u8>::empty() } else { traks_bytes(v, n - 1) + trak_bytes(v[n - 1]) }
}
pub open spec fn moov_exact(b: MoovBox) -> bool { forall|i: int| 0 <= i < b.traks@.len() ==> trak_exact(#[trigger] b.traks@[i]) }
pub open spec fn moov_head(b: MoovBox) -> Seq<u8> { hdr_bytes(moov_len(b) as u64, 0x6d6f6f76) + mvhd_bytes(b.mvhd) }
pub open spec fn moov_bytes(b: MoovBox) -> Seq<u8> {
    moov_head(b) + traks_bytes(b.traks@, b.traks@.len() as int) + (match b.mvex { Some(x) => mvex_bytes(x), None => Seq::<u8>::empty() })
}
pub proof fn lemma_traks_bytes_len(v: Seq<TrakBox>, n: int)
    requires 0 <= n <= v.len(), forall|i: int| 0 <= i < v.len() ==> trak_wire(#[trigger] v[i]) && trak_exact(v[i])
    ensures traks_bytes(v, n).len() == traks_len(v, n)
    decreases n
{
    if n > 0 { lemma_traks_bytes_len(v, n - 1); lemma_trak_pre(v[n - 1]); }
}
pub proof fn lemma_moov_bytes_len(b: MoovBox)
    requires moov_wire(b), moov_exact(b)
    ensures moov_bytes(b).len() == moov_len(b), moov_head(b).len() == 8 + mvhd_len(b.mvhd)
{
    broadcast use lemma_be_bytes_len;
    lemma_mvhd_pre_len(b.mvhd);
    lemma_traks_bytes_len(b.traks@, b.traks@.len() as int);
    if b.mvex is Some { lemma_mvex_pre(b.mvex->Some_0); }
}
