// SPEC LIBRARY: reference bytes of the encoders that the muxer itself does not use (edit lists, movie fragments, event messages):
// elst (8.6.6), edts (8.6.5), trun (8.8.8), traf (8.8.6), moof (8.8.4), mvex (8.8.1), emsg (ISO/IEC 23009-1 5.10.3.3).
// Written from the standards; the decode-side predicates are in spec/codecs.rs / spec/fragments.rs.

// ---- elst: FullBox, entry_count, { segment_duration, media_time (64 bit in version 1, 32 bit otherwise), media_rate_integer(16), media_rate_fraction(16) }*
pub open spec fn elst_entry_bytes(version: u8, e: ElstEntry) -> Seq<u8> {
    (if version == 1 { be_bytes(e.segment_duration as nat, 8) + be_bytes(e.media_time as nat, 8) }
     else { be_bytes((e.segment_duration as u32) as nat, 4) + be_bytes((e.media_time as u32) as nat, 4) })
    + be_bytes(e.media_rate as nat, 2) + be_bytes(e.media_rate_fraction as nat, 2)
}
pub open spec fn elst_entries_bytes(b: ElstBox, n: int) -> Seq<u8>
    decreases n
{
    if n <= 0 { Seq::<u8>::empty() } else { elst_entries_bytes(b, n - 1) + elst_entry_bytes(b.version, b.entries@[n - 1]) }
}
pub open spec fn elst_head(b: ElstBox) -> Seq<u8> {
    hdr_bytes(elst_len(b) as u64, 0x656c7374) + fullbox_bytes(b.version, b.flags) + be_bytes(b.entries@.len() as nat, 4)
}
pub open spec fn elst_bytes(b: ElstBox) -> Seq<u8> { elst_head(b) + elst_entries_bytes(b, b.entries@.len() as int) }
pub proof fn lemma_elst_entries_len(b: ElstBox, n: int)
    requires 0 <= n
    ensures elst_entries_bytes(b, n).len() == (if b.version == 1 { 20 * n } else { 12 * n })
    decreases n
{
    broadcast use lemma_be_bytes_len;
    if n > 0 { lemma_elst_entries_len(b, n - 1); }
}
pub proof fn lemma_elst_bytes_len(b: ElstBox)
    requires elst_wire(b)
    ensures elst_bytes(b).len() == elst_len(b), elst_head(b).len() == 16
{
    broadcast use lemma_be_bytes_len;
    lemma_elst_entries_len(b, b.entries@.len() as int);
}
/// edts: the edit list, if any
pub open spec fn edts_bytes(b: EdtsBox) -> Seq<u8> {
    hdr_bytes(edts_len(b) as u64, 0x65647473) + (match b.elst { Some(x) => elst_bytes(x), None => Seq::<u8>::empty() })
}

// ---- trun: FullBox, sample_count, [data_offset], [first_sample_flags], { [duration] [size] [flags] [composition_time_offset] }*
pub open spec fn trun_rec_bytes(b: TrunBox, i: int) -> Seq<u8> {
    (if flag_set(b.flags, 0x100) { be_bytes(b.sample_durations@[i] as nat, 4) } else { Seq::<u8>::empty() })
    + (if flag_set(b.flags, 0x200) { be_bytes(b.sample_sizes@[i] as nat, 4) } else { Seq::<u8>::empty() })
    + (if flag_set(b.flags, 0x400) { be_bytes(b.sample_flags@[i] as nat, 4) } else { Seq::<u8>::empty() })
    + (if flag_set(b.flags, 0x800) { be_bytes(b.sample_cts@[i] as nat, 4) } else { Seq::<u8>::empty() })
}
pub open spec fn trun_recs_bytes(b: TrunBox, n: int) -> Seq<u8>
    decreases n
{
    if n <= 0 { Seq::<u8>::empty() } else { trun_recs_bytes(b, n - 1) + trun_rec_bytes(b, n - 1) }
}
pub open spec fn trun_head(b: TrunBox) -> Seq<u8> {
    hdr_bytes(trun_len(b) as u64, 0x7472756e) + fullbox_bytes(b.version, b.flags) + be_bytes(b.sample_count as nat, 4)
    + (match b.data_offset { Some(v) => be_bytes((v as u32) as nat, 4), None => Seq::<u8>::empty() })
    + (match b.first_sample_flags { Some(v) => be_bytes(v as nat, 4), None => Seq::<u8>::empty() })
}
pub open spec fn trun_bytes(b: TrunBox) -> Seq<u8> { trun_head(b) + trun_recs_bytes(b, b.sample_count as int) }
pub proof fn lemma_trun_recs_len(b: TrunBox, n: int)
    requires 0 <= n
    ensures trun_recs_bytes(b, n).len() == trun_samples_len(b.flags, n)
    decreases n
{
    broadcast use lemma_be_bytes_len;
    if n > 0 { lemma_trun_recs_len(b, n - 1); }
}
pub proof fn lemma_trun_bytes_len(b: TrunBox)
    requires trun_wire(b)
    ensures trun_bytes(b).len() == trun_len(b),
            trun_head(b).len() == 16 + (if flag_set(b.flags, 0x01) { 4int } else { 0 }) + (if flag_set(b.flags, 0x04) { 4int } else { 0 })
{
    broadcast use lemma_be_bytes_len;
    lemma_trun_recs_len(b, b.sample_count as int);
}

// ---- emsg: FullBox; version 0: scheme_id_uri, value (NUL-terminated UTF-8), timescale, presentation_time_delta, event_duration, id;
//      version 1: timescale, presentation_time(64), event_duration, id, scheme_id_uri, value; then message_data to the end of the box
pub open spec fn cstr_bytes(s: Seq<char>) -> Seq<u8> { utf8(s) + seq![0u8] }
pub open spec fn emsg_head(b: EmsgBox) -> Seq<u8> {
    let h = hdr_bytes(emsg_len(b) as u64, 0x656d7367) + fullbox_bytes(b.version, b.flags);
    if b.version == 0 {
        h + cstr_bytes(b.scheme_id_uri@) + cstr_bytes(b.value@) + be_bytes(b.timescale as nat, 4)
          + be_bytes(b.presentation_time_delta->Some_0 as nat, 4) + be_bytes(b.event_duration as nat, 4) + be_bytes(b.id as nat, 4)
    } else {
        h + be_bytes(b.timescale as nat, 4) + be_bytes(b.presentation_time->Some_0 as nat, 8) + be_bytes(b.event_duration as nat, 4) + be_bytes(b.id as nat, 4)
          + cstr_bytes(b.scheme_id_uri@) + cstr_bytes(b.value@)
    }
}
pub open spec fn emsg_bytes(b: EmsgBox) -> Seq<u8> { emsg_head(b) + b.message_data@ }
pub proof fn lemma_emsg_head_len(b: EmsgBox)
    requires emsg_wire(b)
    ensures emsg_head(b).len() == emsg_fixed_len(b.version, b.scheme_id_uri@, b.value@)
{
    broadcast use lemma_be_bytes_len;
}

// ---- moof (8.8.4): mfhd, the track fragments in order
pub open spec fn trafs_bytes(v: Seq<TrafBox>, n: int) -> Seq<u8>
    decreases n
{
    if n <= 0 { Seq::<u8>::empty() } else { trafs_bytes(v, n - 1) + traf_bytes(v[n - 1]) }
}
pub open spec fn moof_head(b: MoofBox) -> Seq<u8> { hdr_bytes(moof_len(b) as u64, 0x6d6f6f66) + mfhd_bytes(b.mfhd) }
pub open spec fn moof_bytes(b: MoofBox) -> Seq<u8> { moof_head(b) + trafs_bytes(b.trafs@, b.trafs@.len() as int) }
pub proof fn lemma_trafs_bytes_len(v: Seq<TrafBox>, n: int)
    requires 0 <= n <= v.len(), forall|i: int| 0 <= i < v.len() ==> traf_wire(#[trigger] v[i])
    ensures trafs_bytes(v, n).len() == trafs_len(v, n)
    decreases n
{
    if n > 0 { lemma_trafs_bytes_len(v, n - 1); lemma_traf_pre(v[n - 1]); }
}
pub proof fn lemma_moof_head_len(b: MoofBox)
    requires moof_wire(b)
    ensures moof_head(b).len() == 8 + mfhd_len(b.mfhd)
{
    broadcast use lemma_be_bytes_len;
    lemma_mfhd_pre_len(b.mfhd);
}

// ---- emsg, decode side
/// a NUL-terminated UTF-8 string at p: its bytes, then 0, no 0 before
pub open spec fn cstr_at(d: Seq<u8>, p: int, s: Seq<char>) -> bool {
    let n = utf8(s).len() as int;
    &&& d.subrange(p, p + n) == utf8(s) && d[p + n] == 0
    &&& forall|i: int| 0 <= i < n ==> #[trigger] d[p + i] != 0
}
/// emsg whose body (after the box header) starts at q, box size `size`
pub open spec fn emsg_at(d: Seq<u8>, q: int, size: u64, b: EmsgBox) -> bool {
    let n1 = utf8(b.scheme_id_uri@).len() as int; let n2 = utf8(b.value@).len() as int;
    &&& b.version == d[q] && b.flags == be24(d, q + 1) && b.version <= 1
    &&& (b.version == 0 ==> {
            let o = q + 4 + n1 + 1 + n2 + 1;
            &&& cstr_at(d, q + 4, b.scheme_id_uri@) && cstr_at(d, q + 4 + n1 + 1, b.value@)
            &&& b.timescale == be32(d, o) && b.presentation_time is None && b.presentation_time_delta == Some(be32(d, o + 4))
            &&& b.event_duration == be32(d, o + 8) && b.id == be32(d, o + 12)
            &&& b.message_data@ == d.subrange(o + 16, q - 8 + size)
        })
    &&& (b.version == 1 ==> {
            let o = q + 4 + 20;
            &&& b.timescale == be32(d, q + 4) && b.presentation_time == Some(be64(d, q + 8)) && b.presentation_time_delta is None
            &&& b.event_duration == be32(d, q + 16) && b.id == be32(d, q + 20)
            &&& cstr_at(d, o, b.scheme_id_uri@) && cstr_at(d, o + n1 + 1, b.value@)
            &&& b.message_data@ == d.subrange(o + n1 + 1 + n2 + 1, q - 8 + size)
        })
}

// ---- mvex (8.8.1), decode side: the last mehd / trex children on the sibling chain
pub open spec fn rel_mehd(d: Seq<u8>, x: Option<MehdBox>, g: Option<int>) -> bool { (x is Some <==> g is Some) && (x matches Some(b) ==> mehd_at(d, child_q(d, g->Some_0) - 8, b)) }
pub open spec fn rel_trex(d: Seq<u8>, x: Option<TrexBox>, g: Option<int>) -> bool { (x is Some <==> g is Some) && (x matches Some(b) ==> trex_at(d, child_q(d, g->Some_0) - 8, b)) }
pub open spec fn mvex_at(d: Seq<u8>, q: int, size: u64, b: MvexBox) -> bool {
    rel_mehd(d, b.mehd, child_at(d, q, size, BoxType::MehdBox)) && rel_trex(d, Some(b.trex), child_at(d, q, size, BoxType::TrexBox))
}
