// SPEC LIBRARY: esds (ISO/IEC 14496-14 5.6.1) and the descriptors nested in it (ISO/IEC 14496-1 7.2.6.5 ES_Descriptor,
// 7.2.6.6 DecoderConfigDescriptor, 7.2.6.7 DecoderSpecificInfo = AudioSpecificConfig of 14496-3 1.6.2.1, 7.3.2.3 SLConfigDescriptor).
// Encode side: reference bytes of the fixed-shape tree the muxer writes. Decode side: the descriptor walks as forward folds
// over the chain of (tag, expandable length, payload) triples. Written from the standards; no code shared with the crate.

// ---- encode side -------------------------------------------------------------------------------------------------
/// DecSpecificInfoTag(0x05) length 2: audioObjectType(5) samplingFrequencyIndex(4) channelConfiguration(4) 000
pub open spec fn dsd_bytes(x: DecoderSpecificDescriptor) -> Seq<u8> {
    seq![5u8, 2u8, asc_byte0(x.profile, x.freq_index), asc_byte1(x.freq_index, x.chan_conf)]
}
/// streamType(6) upStream(1) reserved(1)=1
pub open spec fn dcd_byte1(st: u8, us: u8) -> u8 { ((st << 2) | (us & 2) | 1) as u8 }
/// DecoderConfigDescrTag(0x04) length 17: objectTypeIndication(8) streamType/upStream/reserved(8) bufferSizeDB(24) maxBitrate(32)
/// avgBitrate(32) DecoderSpecificInfo
pub open spec fn dcd_bytes(x: DecoderConfigDescriptor) -> Seq<u8> {
    seq![4u8, 17u8, x.object_type_indication, dcd_byte1(x.stream_type, x.up_stream)]
        + be_bytes(x.buffer_size_db as nat, 3) + be_bytes(x.max_bitrate as nat, 4) + be_bytes(x.avg_bitrate as nat, 4)
        + dsd_bytes(x.dec_specific)
}
/// SLConfigDescrTag(0x06) length 1: predefined = 2 (reserved for use in MP4 files)
pub open spec fn sl_bytes() -> Seq<u8> { seq![6u8, 1u8, 2u8] }
/// ES_DescrTag(0x03) length 25: ES_ID(16) streamDependenceFlag/URL_Flag/OCRstreamFlag/streamPriority(8)=0 DecoderConfigDescriptor SLConfigDescriptor
pub open spec fn esd_bytes(x: ESDescriptor) -> Seq<u8> {
    seq![3u8, 25u8] + be_bytes(x.es_id as nat, 2) + seq![0u8] + dcd_bytes(x.dec_config) + sl_bytes()
}
/// ESDBox extends FullBox('esds', version, flags) { ES_Descriptor ES; }
pub open spec fn esds_bytes(b: EsdsBox) -> Seq<u8> {
    hdr_bytes(39, 0x65736473) + fullbox_bytes(b.version, b.flags) + esd_bytes(b.es_desc)
}

pub proof fn lemma_esds_bytes_len(b: EsdsBox)
    ensures dsd_bytes(b.es_desc.dec_config.dec_specific).len() == 4, dcd_bytes(b.es_desc.dec_config).len() == 19,
            esd_bytes(b.es_desc).len() == 27, esds_bytes(b).len() == 39
{
    broadcast use lemma_be_bytes_len;
}

// ---- encode side, step by step: piece k is what the k-th write of the encoder must add; pre(k) is everything up to it
pub open spec fn dcd_piece(x: DecoderConfigDescriptor, k: int) -> Seq<u8> {
    if k == 0 { seq![4u8, 17u8] } else if k == 1 { seq![x.object_type_indication] } else if k == 2 { seq![dcd_byte1(x.stream_type, x.up_stream)] }
    else if k == 3 { be_bytes(x.buffer_size_db as nat, 3) } else if k == 4 { be_bytes(x.max_bitrate as nat, 4) }
    else if k == 5 { be_bytes(x.avg_bitrate as nat, 4) } else if k == 6 { dsd_bytes(x.dec_specific) } else { Seq::empty() }
}
pub open spec fn dcd_pre(x: DecoderConfigDescriptor, k: int) -> Seq<u8>
    decreases k
{
    if k <= 0 { dcd_piece(x, 0) } else { dcd_pre(x, k - 1) + dcd_piece(x, k) }
}
pub proof fn lemma_dcd_pre(x: DecoderConfigDescriptor)
    ensures dcd_pre(x, 0).len() == 2, dcd_pre(x, 1).len() == 3, dcd_pre(x, 2).len() == 4, dcd_pre(x, 3).len() == 7, dcd_pre(x, 4).len() == 11,
            dcd_pre(x, 5).len() == 15, dcd_pre(x, 6).len() == 19, dcd_pre(x, 6) == dcd_bytes(x)
{
    broadcast use lemma_be_bytes_len;
    reveal_with_fuel(dcd_pre, 8);
    assert(dcd_pre(x, 6) =~= dcd_bytes(x));
}
pub open spec fn esd_piece(x: ESDescriptor, k: int) -> Seq<u8> {
    if k == 0 { seq![3u8, 25u8] } else if k == 1 { be_bytes(x.es_id as nat, 2) } else if k == 2 { seq![0u8] }
    else if k == 3 { dcd_bytes(x.dec_config) } else if k == 4 { sl_bytes() } else { Seq::empty() }
}
pub open spec fn esd_pre(x: ESDescriptor, k: int) -> Seq<u8>
    decreases k
{
    if k <= 0 { esd_piece(x, 0) } else { esd_pre(x, k - 1) + esd_piece(x, k) }
}
pub proof fn lemma_esd_pre(x: ESDescriptor)
    ensures esd_pre(x, 0).len() == 2, esd_pre(x, 1).len() == 4, esd_pre(x, 2).len() == 5, esd_pre(x, 3).len() == 24, esd_pre(x, 4).len() == 27,
            esd_pre(x, 4) == esd_bytes(x)
{
    broadcast use lemma_be_bytes_len;
    lemma_dcd_pre(x.dec_config);
    reveal_with_fuel(esd_pre, 6);
    assert(esd_pre(x, 4) =~= esd_bytes(x));
}
pub open spec fn esds_piece(b: EsdsBox, k: int) -> Seq<u8> {
    if k == 0 { hdr_bytes(39, 0x65736473) } else if k == 1 { fullbox_bytes(b.version, b.flags) } else if k == 2 { esd_bytes(b.es_desc) } else { Seq::empty() }
}
pub open spec fn esds_pre(b: EsdsBox, k: int) -> Seq<u8>
    decreases k
{
    if k <= 0 { esds_piece(b, 0) } else { esds_pre(b, k - 1) + esds_piece(b, k) }
}
pub proof fn lemma_esds_pre(b: EsdsBox)
    ensures esds_pre(b, 0).len() == 8, esds_pre(b, 1).len() == 12, esds_pre(b, 2).len() == 39, esds_pre(b, 2) == esds_bytes(b)
{
    broadcast use lemma_be_bytes_len;
    lemma_esd_pre(b.es_desc);
    reveal_with_fuel(esds_pre, 4);
    assert(esds_pre(b, 2) =~= esds_bytes(b));
}

/// AudioSampleEntry('mp4a') of ISO/IEC 14496-12 12.2.3 (version 0): reserved(6x8)=0 data_reference_index(16) reserved(2x32)=0
/// channelcount(16) samplesize(16) pre_defined(16)=0 reserved(16)=0 samplerate(32, 16.16) then the ESDBox
pub open spec fn mp4a_piece(b: Mp4aBox, k: int) -> Seq<u8> {
    if k == 0 { hdr_bytes(mp4a_len(b) as u64, 0x6d703461) } else if k == 1 { be_bytes(0, 4) } else if k == 2 { be_bytes(0, 2) }
    else if k == 3 { be_bytes(b.data_reference_index as nat, 2) } else if k == 4 { be_bytes(0, 8) }
    else if k == 5 { be_bytes(b.channelcount as nat, 2) } else if k == 6 { be_bytes(b.samplesize as nat, 2) }
    else if k == 7 { be_bytes(0, 4) } else if k == 8 { be_bytes(b.samplerate.0.numer as nat, 4) }
    else if k == 9 { match b.esds { Some(e) => esds_bytes(e), None => Seq::empty() } } else { Seq::empty() }
}
pub open spec fn mp4a_pre(b: Mp4aBox, k: int) -> Seq<u8>
    decreases k
{
    if k <= 0 { mp4a_piece(b, 0) } else { mp4a_pre(b, k - 1) + mp4a_piece(b, k) }
}
pub open spec fn mp4a_bytes(b: Mp4aBox) -> Seq<u8> { mp4a_pre(b, 9) }
pub proof fn lemma_mp4a_pre(b: Mp4aBox)
    requires mp4a_len(b) <= 0xffff_ffff
    ensures mp4a_pre(b, 0).len() == 8, mp4a_pre(b, 1).len() == 12, mp4a_pre(b, 2).len() == 14, mp4a_pre(b, 3).len() == 16, mp4a_pre(b, 4).len() == 24,
            mp4a_pre(b, 5).len() == 26, mp4a_pre(b, 6).len() == 28, mp4a_pre(b, 7).len() == 32, mp4a_pre(b, 8).len() == 36,
            mp4a_pre(b, 9).len() == mp4a_len(b)
{
    broadcast use lemma_be_bytes_len;
    reveal_with_fuel(mp4a_pre, 11);
    if b.esds is Some { lemma_esds_pre(b.esds->Some_0); }
}

// ---- decode side -------------------------------------------------------------------------------------------------
/// a descriptor at p: tag(8), expandable length, payload
pub open spec fn desc_body(d: Seq<u8>, p: int) -> int { p + 1 + desc_len_bytes(d, p + 1) }
pub open spec fn desc_sz(d: Seq<u8>, p: int) -> int { desc_len_value(d, p + 1) }

/// AudioSpecificConfig at q in its plain two-byte form (object type below the escape value 31, sampling-frequency index below the
/// escape value 15): audioObjectType(5) samplingFrequencyIndex(4) channelConfiguration(4) 000. The escape-coded forms are not
/// specified here (the muxer never writes them; what the crate does with them is constrained by C06/C07 only).
pub open spec fn dsd_plain(d: Seq<u8>, q: int) -> bool { aot_of_bits(d[q], d[q + 1]) <= 31 && asc_freq(d[q], d[q + 1]) != 15 }
pub open spec fn dsd_of(d: Seq<u8>, q: int) -> DecoderSpecificDescriptor {
    DecoderSpecificDescriptor { profile: aot_of_bits(d[q], d[q + 1]), freq_index: asc_freq(d[q], d[q + 1]), chan_conf: asc_chan(d[q + 1]) }
}
pub open spec fn dsd_default() -> DecoderSpecificDescriptor { DecoderSpecificDescriptor { profile: 0, freq_index: 0, chan_conf: 0 } }

// The nested descriptors are specified for WELL-FORMED chains only (14496-1 7.2.2.1: each descriptor is tag, expandable
// length, payload of exactly that length; a parent's declared length is tiled exactly by its fixed fields and children).
// What the crate does with a chain that violates this is constrained by C06/C07/C08 only, not by these functions.
pub open spec fn desc_next(d: Seq<u8>, p: int) -> int { desc_body(d, p) + desc_sz(d, p) }

/// descriptors from p tile [p, end) exactly, and every DecoderSpecificInfo among them is a plain two-byte AudioSpecificConfig
pub open spec fn dcd_wf_from(d: Seq<u8>, p: int, end: int) -> bool
    decreases (if p < end { end - p } else { 0 })
{
    if p >= end { p == end }
    else if desc_next(d, p) <= p { false }
    else { (d[p] == 5 ==> dsd_plain(d, desc_body(d, p)) && desc_sz(d, p) == 2) && dcd_wf_from(d, desc_next(d, p), end) }
}
/// the DecoderSpecificInfo of the chain (the last one, should there be several)
pub open spec fn dcd_fold(d: Seq<u8>, p: int, end: int, acc: Option<DecoderSpecificDescriptor>) -> Option<DecoderSpecificDescriptor>
    decreases (if p < end { end - p } else { 0 })
{
    if p >= end || desc_next(d, p) <= p { acc }
    else { dcd_fold(d, desc_next(d, p), end, if d[p] == 5 { Some(dsd_of(d, desc_body(d, p))) } else { acc }) }
}
/// DecoderConfigDescriptor payload (declared length `size`) at q: 13 bytes of fixed fields, then nested descriptors
pub open spec fn dcd_wf(d: Seq<u8>, q: int, size: int) -> bool { size >= 13 && dcd_wf_from(d, q + 13, q + size) }
pub open spec fn dcd_head_at(d: Seq<u8>, q: int, x: DecoderConfigDescriptor) -> bool {
    &&& x.object_type_indication == d[q]
    &&& x.stream_type == ((d[q + 1] & 0xfc) >> 2) as u8 && x.up_stream == (d[q + 1] & 0x02) as u8
    &&& x.buffer_size_db == be24(d, q + 2) && x.max_bitrate == be32(d, q + 5) && x.avg_bitrate == be32(d, q + 9)
}
pub open spec fn dcd_dsd(d: Seq<u8>, q: int, size: int) -> DecoderSpecificDescriptor {
    match dcd_fold(d, q + 13, q + size, None) { Some(x) => x, None => dsd_default() }
}
pub open spec fn dcd_of(d: Seq<u8>, q: int, size: int) -> DecoderConfigDescriptor {
    DecoderConfigDescriptor {
        object_type_indication: d[q],
        stream_type: ((d[q + 1] & 0xfc) >> 2) as u8,
        up_stream: (d[q + 1] & 0x02) as u8,
        buffer_size_db: be24(d, q + 2),
        max_bitrate: be32(d, q + 5),
        avg_bitrate: be32(d, q + 9),
        dec_specific: dcd_dsd(d, q, size),
    }
}
pub open spec fn dcd_at(d: Seq<u8>, q: int, size: int, x: DecoderConfigDescriptor) -> bool {
    dcd_head_at(d, q, x) && (dcd_wf(d, q, size) ==> x == dcd_of(d, q, size))
}
pub open spec fn dcd_default() -> DecoderConfigDescriptor {
    DecoderConfigDescriptor { object_type_indication: 0, stream_type: 0, up_stream: 0, buffer_size_db: 0, max_bitrate: 0, avg_bitrate: 0,
                              dec_specific: dsd_default() }
}

/// descriptors nested in an ES_Descriptor from p tile [p, end); a DecoderConfigDescriptor is well formed, an SLConfigDescriptor is the
/// one-byte predefined form
pub open spec fn esd_wf_from(d: Seq<u8>, p: int, end: int) -> bool
    decreases (if p < end { end - p } else { 0 })
{
    if p >= end { p == end }
    else if desc_next(d, p) <= p { false }
    else { (d[p] == 4 ==> dcd_wf(d, desc_body(d, p), desc_sz(d, p))) && (d[p] == 6 ==> desc_sz(d, p) == 1) && esd_wf_from(d, desc_next(d, p), end) }
}
/// the DecoderConfigDescriptor of the chain (the last one, should there be several)
pub open spec fn esd_fold(d: Seq<u8>, p: int, end: int, acc: Option<DecoderConfigDescriptor>) -> Option<DecoderConfigDescriptor>
    decreases (if p < end { end - p } else { 0 })
{
    if p >= end || desc_next(d, p) <= p { acc }
    else { esd_fold(d, desc_next(d, p), end, if d[p] == 4 { Some(dcd_of(d, desc_body(d, p), desc_sz(d, p))) } else { acc }) }
}
/// ES_Descriptor payload (declared length `size`) at q: ES_ID(16), flags(8) (no optional fields: the muxer writes flags 0), nested descriptors
pub open spec fn esd_wf(d: Seq<u8>, q: int, size: int) -> bool { size >= 3 && esd_wf_from(d, q + 3, q + size) }
pub open spec fn esd_of(d: Seq<u8>, q: int, size: int) -> ESDescriptor {
    ESDescriptor {
        es_id: be16(d, q),
        dec_config: match esd_fold(d, q + 3, q + size, None) { Some(x) => x, None => dcd_default() },
        sl_config: SLConfigDescriptor {},
    }
}
pub open spec fn esd_at(d: Seq<u8>, q: int, size: int, x: ESDescriptor) -> bool {
    x.es_id == be16(d, q) && (esd_wf(d, q, size) ==> x == esd_of(d, q, size))
}

/// esds whose body (after the box header) starts at q, box size `size`: FullBox, then exactly one ES_Descriptor up to the end of the box
pub open spec fn esds_wf(d: Seq<u8>, q: int, size: u64) -> bool {
    d[q + 4] == 3 && q + 4 < q - 8 + size && desc_next(d, q + 4) == q - 8 + size && esd_wf(d, desc_body(d, q + 4), desc_sz(d, q + 4))
}
pub open spec fn esds_at(d: Seq<u8>, q: int, size: u64, b: EsdsBox) -> bool {
    &&& b.version == d[q] && b.flags == be24(d, q + 1)
    &&& (esds_wf(d, q, size) ==> b.es_desc == esd_of(d, desc_body(d, q + 4), desc_sz(d, q + 4)))
}

pub proof fn lemma_desc_sz_nonneg(d: Seq<u8>, p: int)
    ensures desc_sz(d, p) >= 0, p + 2 <= desc_body(d, p) <= p + 5
{
    lemma_desc_groups_bound(d, p + 1, desc_len_bytes(d, p + 1));
}

// ---- spec-level round trip (C04/C14): the reference bytes of an encodable esds are a well-formed descriptor tree that the
//      decode-side functions map back to the same value
pub open spec fn esds_encodable(b: EsdsBox) -> bool {
    &&& esds_wire(b)
    &&& 1 <= b.es_desc.dec_config.dec_specific.profile < 31 && b.es_desc.dec_config.dec_specific.freq_index < 15
    &&& (b.es_desc.dec_config.up_stream == 0 || b.es_desc.dec_config.up_stream == 2)
}
pub open spec fn esds_flat(b: EsdsBox, k: int) -> Seq<u8> {
    let e = b.es_desc; let c = e.dec_config; let s = c.dec_specific;
    if k == 0 { hdr_bytes(39, 0x65736473) + seq![b.version] }
    else if k == 1 { be_bytes(b.flags as nat, 3) }
    else if k == 2 { seq![3u8, 25u8] }
    else if k == 3 { be_bytes(e.es_id as nat, 2) }
    else if k == 4 { seq![0u8, 4u8, 17u8, c.object_type_indication, dcd_byte1(c.stream_type, c.up_stream)] }
    else if k == 5 { be_bytes(c.buffer_size_db as nat, 3) }
    else if k == 6 { be_bytes(c.max_bitrate as nat, 4) }
    else if k == 7 { be_bytes(c.avg_bitrate as nat, 4) }
    else if k == 8 { seq![5u8, 2u8, asc_byte0(s.profile, s.freq_index), asc_byte1(s.freq_index, s.chan_conf), 6u8, 1u8, 2u8] }
    else { Seq::empty() }
}
pub open spec fn esds_flat_pre(b: EsdsBox, k: int) -> Seq<u8>
    decreases k
{
    if k <= 0 { esds_flat(b, 0) } else { esds_flat_pre(b, k - 1) + esds_flat(b, k) }
}
pub proof fn lemma_esds_flat(b: EsdsBox)
    ensures esds_flat_pre(b, 8) == esds_bytes(b),
            esds_flat_pre(b, 0).len() == 9, esds_flat_pre(b, 1).len() == 12, esds_flat_pre(b, 2).len() == 14, esds_flat_pre(b, 3).len() == 16,
            esds_flat_pre(b, 4).len() == 21, esds_flat_pre(b, 5).len() == 24, esds_flat_pre(b, 6).len() == 28, esds_flat_pre(b, 7).len() == 32,
            esds_flat_pre(b, 8).len() == 39
{
    broadcast use lemma_be_bytes_len;
    reveal_with_fuel(esds_flat_pre, 10);
    assert(esds_flat_pre(b, 8) =~= esds_bytes(b));
}

#[verifier::rlimit(150)]
pub proof fn lemma_esds_roundtrip(d: Seq<u8>, p: int, b: EsdsBox)
    requires 0 <= p, esds_encodable(b)
    ensures esds_wf(wr(d, p, esds_bytes(b)), p + 8, 39), esds_at(wr(d, p, esds_bytes(b)), p + 8, 39, b),
            hdr_at(wr(d, p, esds_bytes(b)), p, 39, 0x65736473)
{
    broadcast use lemma_be_bytes_len;
    lemma_esds_flat(b);
    reveal_with_fuel(esds_flat_pre, 10);
    let all = esds_bytes(b);
    let s = wr(d, p, all);
    let q = p + 8;
    let e = b.es_desc; let c = e.dec_config; let x = c.dec_specific;
    lemma_prefix_refl(all);
    lemma_prefix_app(esds_flat_pre(b, 7), esds_flat(b, 8), all);
    lemma_prefix_app(esds_flat_pre(b, 6), esds_flat(b, 7), all);
    lemma_prefix_app(esds_flat_pre(b, 5), esds_flat(b, 6), all);
    lemma_prefix_app(esds_flat_pre(b, 4), esds_flat(b, 5), all);
    lemma_prefix_app(esds_flat_pre(b, 3), esds_flat(b, 4), all);
    lemma_prefix_app(esds_flat_pre(b, 2), esds_flat(b, 3), all);
    lemma_prefix_app(esds_flat_pre(b, 1), esds_flat(b, 2), all);
    lemma_prefix_app(esds_flat_pre(b, 0), esds_flat(b, 1), all);
    // multi-byte fields
    lemma_rd3(d, p, esds_flat_pre(b, 0), b.flags as nat, all);
    lemma_rd2(d, p, esds_flat_pre(b, 2), e.es_id as nat, all);
    lemma_rd3(d, p, esds_flat_pre(b, 4), c.buffer_size_db as nat, all);
    lemma_rd4(d, p, esds_flat_pre(b, 5), c.max_bitrate as nat, all);
    lemma_rd4(d, p, esds_flat_pre(b, 6), c.avg_bitrate as nat, all);
    // header
    let h = hdr_bytes(39, 0x65736473);
    assert(is_prefix(be_bytes(39, 4) + be_bytes(0x65736473, 4), all)) by {
        assert(esds_flat_pre(b, 0) == (be_bytes(39, 4) + be_bytes(0x65736473, 4)) + seq![b.version]);
        lemma_prefix_app(be_bytes(39, 4) + be_bytes(0x65736473, 4), seq![b.version], all);
    }
    lemma_rd4(d, p, be_bytes(39, 4), 0x65736473, all);
    lemma_prefix_app(be_bytes(39, 4), be_bytes(0x65736473, 4), all);
    assert(Seq::<u8>::empty() + be_bytes(39, 4) =~= be_bytes(39, 4));
    lemma_rd4(d, p, Seq::<u8>::empty(), 39, all);
    // single bytes
    assert forall|j: int| 0 <= j < 39 implies #[trigger] s[p + j] == all[j] by { lemma_wr_index(d, p, all, j); }
    assert(all[8] == b.version);
    assert(all[12] == 3u8 && all[13] == 25u8);
    assert(all[16] == 0u8 && all[17] == 4u8 && all[18] == 17u8 && all[19] == c.object_type_indication && all[20] == dcd_byte1(c.stream_type, c.up_stream));
    assert(all[32] == 5u8 && all[33] == 2u8 && all[34] == asc_byte0(x.profile, x.freq_index) && all[35] == asc_byte1(x.freq_index, x.chan_conf));
    assert(all[36] == 6u8 && all[37] == 1u8 && all[38] == 2u8);
    assert(s[q + 0] == all[8] && s[q + 4] == all[12] && s[q + 5] == all[13]);
    assert(s[q + 8] == all[16] && s[q + 9] == all[17] && s[q + 10] == all[18] && s[q + 11] == all[19] && s[q + 12] == all[20]);
    assert(s[q + 24] == all[32] && s[q + 25] == all[33] && s[q + 26] == all[34] && s[q + 27] == all[35]);
    assert(s[q + 28] == all[36] && s[q + 29] == all[37] && s[q + 30] == all[38]);
    // expandable lengths of one byte
    assert(25u8 & 0x80 == 0 && 25u8 & 0x7f == 25 && 17u8 & 0x80 == 0 && 17u8 & 0x7f == 17 && 2u8 & 0x80 == 0 && 2u8 & 0x7f == 2
           && 1u8 & 0x80 == 0 && 1u8 & 0x7f == 1) by(bit_vector);
    reveal_with_fuel(desc_groups, 3);
    assert(desc_body(s, q + 4) == q + 6 && desc_sz(s, q + 4) == 25);
    assert(desc_body(s, q + 9) == q + 11 && desc_sz(s, q + 9) == 17);
    assert(desc_body(s, q + 24) == q + 26 && desc_sz(s, q + 24) == 2);
    assert(desc_body(s, q + 28) == q + 30 && desc_sz(s, q + 28) == 1);
    // AudioSpecificConfig
    lemma_asc_roundtrip(x.profile, x.freq_index, x.chan_conf);
    assert(dsd_of(s, q + 26) == x);
    assert(dsd_plain(s, q + 26));
    // DecoderConfigDescriptor
    reveal_with_fuel(dcd_wf_from, 3);
    reveal_with_fuel(dcd_fold, 3);
    assert(dcd_wf(s, q + 11, 17));
    assert(dcd_dsd(s, q + 11, 17) == x);
    let st = c.stream_type; let us = c.up_stream;
    assert(((((st << 2) | (us & 2) | 1) as u8 & 0xfc) >> 2) == st && (((st << 2) | (us & 2) | 1) as u8 & 0x02) == us & 2) by(bit_vector) requires st < 64;
    assert(us & 2 == us) by(bit_vector) requires us == 0 || us == 2;
    assert(dcd_of(s, q + 11, 17) == c);
    // ES_Descriptor
    reveal_with_fuel(esd_wf_from, 4);
    reveal_with_fuel(esd_fold, 4);
    assert(esd_wf(s, q + 6, 25));
    assert(esd_fold(s, q + 9, q + 31, None) == Some(c));
    assert(esd_of(s, q + 6, 25) == e);
}

// ---- stsd (8.5.2), encode side: FullBox, entry_count = 1, the sample entry (the first present one of avc1, hev1, vp09, mp4a, tx3g:
//      the crate writes at most one). All five entry encoders are byte-exact, so the predicate is true; it is kept as the place
//      where a future entry type without a byte-exact encoder would be excluded.
pub open spec fn stsd_entry_exact(b: StsdBox) -> bool { true }
pub open spec fn stsd_entry_bytes(b: StsdBox) -> Seq<u8> {
    if b.avc1 is Some { avc1_bytes(b.avc1->Some_0) } else if b.hev1 is Some { hev1_bytes(b.hev1->Some_0) }
    else if b.vp09 is Some { vp09_bytes(b.vp09->Some_0) } else if b.mp4a is Some { mp4a_bytes(b.mp4a->Some_0) }
    else if b.tx3g is Some { tx3g_bytes(b.tx3g->Some_0) } else { Seq::empty() }
}
pub open spec fn stsd_head(b: StsdBox) -> Seq<u8> {
    hdr_bytes(stsd_len(b) as u64, 0x73747364) + fullbox_bytes(b.version, b.flags) + be_bytes(1, 4)
}
pub open spec fn stsd_bytes(b: StsdBox) -> Seq<u8> { stsd_head(b) + stsd_entry_bytes(b) }

// ---- hdlr (8.4.3), encode side: FullBox, pre_defined(32)=0, handler_type(32), reserved(3x32)=0, name (UTF-8, NUL terminated)
pub open spec fn hdlr_head(b: HdlrBox) -> Seq<u8> {
    hdr_bytes(hdlr_len(b) as u64, 0x68646c72) + fullbox_bytes(b.version, b.flags) + be_bytes(0, 4) + be_bytes(u32_of_fourcc(b.handler_type) as nat, 4)
}
pub open spec fn hdlr_bytes(b: HdlrBox) -> Seq<u8> { hdlr_head(b) + zeros(12) + utf8(b.name@) + seq![0u8] }
pub proof fn lemma_zeros_step(n: nat)
    ensures zeros(n) + be_bytes(0, 4) =~= zeros(n + 4), zeros(0) =~= Seq::<u8>::empty()
{
    broadcast use group_be_bytes, lemma_be_bytes_len;
    assert(be_bytes(0, 4) =~= zeros(4));
}
#[verifier::rlimit(150)]
pub proof fn lemma_hdlr_roundtrip(d: Seq<u8>, p: int, b: HdlrBox)
    requires 0 <= p, hdlr_wire(b)
    ensures hdlr_at(wr(d, p, hdlr_bytes(b)), p + 8, b), hdr_at(wr(d, p, hdlr_bytes(b)), p, hdlr_len(b) as u64, 0x68646c72)
{
    broadcast use lemma_be_bytes_len;
    let all = hdlr_bytes(b);
    let h = hdr_bytes(hdlr_len(b) as u64, 0x68646c72);
    let rest = zeros(12) + utf8(b.name@) + seq![0u8];
    let pre2 = h + seq![b.version] + be_bytes(b.flags as nat, 3) + be_bytes(0, 4);
    assert(all =~= (pre2 + be_bytes(u32_of_fourcc(b.handler_type) as nat, 4)) + rest);
    lemma_prefix_refl(all);
    lemma_prefix_app(pre2 + be_bytes(u32_of_fourcc(b.handler_type) as nat, 4), rest, all);
    lemma_rd4(d, p, pre2, u32_of_fourcc(b.handler_type) as nat, all);
    lemma_prefix_app(pre2, be_bytes(u32_of_fourcc(b.handler_type) as nat, 4), all);
    assert(pre2 == (h + seq![b.version] + be_bytes(b.flags as nat, 3)) + be_bytes(0, 4));
    lemma_prefix_app(h + seq![b.version] + be_bytes(b.flags as nat, 3), be_bytes(0, 4), all);
    lemma_rd3(d, p, h + seq![b.version], b.flags as nat, all);
    lemma_prefix_app(h + seq![b.version], be_bytes(b.flags as nat, 3), all);
    lemma_rd1s(d, p, h, b.version, all);
    lemma_prefix_app(h, seq![b.version], all);
    assert(h == be_bytes(hdlr_len(b) as nat, 4) + be_bytes(0x68646c72, 4));
    lemma_rd4(d, p, be_bytes(hdlr_len(b) as nat, 4), 0x68646c72, all);
    lemma_prefix_app(be_bytes(hdlr_len(b) as nat, 4), be_bytes(0x68646c72, 4), all);
    assert(Seq::<u8>::empty() + be_bytes(hdlr_len(b) as nat, 4) =~= be_bytes(hdlr_len(b) as nat, 4));
    lemma_rd4(d, p, Seq::<u8>::empty(), hdlr_len(b) as nat, all);
    lemma_fourcc_of_u32_of(b.handler_type);
}

// ---- spec-level round trips of the sample entries the muxer writes (C14): reference bytes -> decode-side relation
pub proof fn lemma_avcc_hdr(d: Seq<u8>, p: int, b: AvcCBox)
    requires 0 <= p, avcc_wire(b)
    ensures be32(wr(d, p, avcc_bytes(b)), p) == avcc_len(b), be32(wr(d, p, avcc_bytes(b)), p + 4) == 0x61766343
{
    broadcast use lemma_be_bytes_len;
    let all = avcc_bytes(b);
    let l = be_bytes(avcc_len(b) as nat, 4); let t = be_bytes(0x61766343, 4);
    let six = seq![b.configuration_version, b.avc_profile_indication, b.profile_compatibility, b.avc_level_indication,
        b.length_size_minus_one | 0xFC, (b.sequence_parameter_sets@.len() as u8) | 0xE0];
    let rest = six + nals_bytes(b.sequence_parameter_sets@, b.sequence_parameter_sets@.len() as int)
        + seq![b.picture_parameter_sets@.len() as u8] + nals_bytes(b.picture_parameter_sets@, b.picture_parameter_sets@.len() as int);
    assert(all =~= (l + t) + rest);
    lemma_prefix_refl(all);
    lemma_prefix_app(l + t, rest, all);
    lemma_rd4(d, p, l, 0x61766343, all);
    lemma_prefix_app(l, t, all);
    assert(Seq::<u8>::empty() + l =~= l);
    lemma_rd4(d, p, Seq::<u8>::empty(), avcc_len(b) as nat, all);
}

#[verifier::rlimit(150)]
pub proof fn lemma_avc1_roundtrip(d: Seq<u8>, p: int, b: Avc1Box)
    requires 0 <= p, avc1_wire(b), b.avcc.length_size_minus_one <= 3
    ensures avc1_at(wr(d, p, avc1_bytes(b)), p + 8, avc1_len(b) as u64, b), hdr_at(wr(d, p, avc1_bytes(b)), p, avc1_len(b) as u64, 0x61766331)
{
    broadcast use lemma_be_bytes_len;
    lemma_avc1_pre(b);
    reveal_with_fuel(avc1_pre, 18);
    let all = avc1_bytes(b);
    let s = wr(d, p, all);
    lemma_prefix_refl(all);
    lemma_prefix_app(avc1_pre(b, 15), avc1_piece(b, 16), all);
    lemma_prefix_app(avc1_pre(b, 14), avc1_piece(b, 15), all);
    lemma_prefix_app(avc1_pre(b, 13), avc1_piece(b, 14), all);
    lemma_prefix_app(avc1_pre(b, 12), avc1_piece(b, 13), all);
    lemma_prefix_app(avc1_pre(b, 11), avc1_piece(b, 12), all);
    lemma_prefix_app(avc1_pre(b, 10), avc1_piece(b, 11), all);
    lemma_prefix_app(avc1_pre(b, 9), avc1_piece(b, 10), all);
    lemma_prefix_app(avc1_pre(b, 8), avc1_piece(b, 9), all);
    lemma_prefix_app(avc1_pre(b, 7), avc1_piece(b, 8), all);
    lemma_prefix_app(avc1_pre(b, 6), avc1_piece(b, 7), all);
    lemma_prefix_app(avc1_pre(b, 5), avc1_piece(b, 6), all);
    lemma_prefix_app(avc1_pre(b, 4), avc1_piece(b, 5), all);
    lemma_prefix_app(avc1_pre(b, 3), avc1_piece(b, 4), all);
    lemma_prefix_app(avc1_pre(b, 2), avc1_piece(b, 3), all);
    lemma_prefix_app(avc1_pre(b, 1), avc1_piece(b, 2), all);
    lemma_prefix_app(avc1_pre(b, 0), avc1_piece(b, 1), all);
    lemma_rd2(d, p, avc1_pre(b, 2), b.data_reference_index as nat, all);
    lemma_rd2(d, p, avc1_pre(b, 6), b.width as nat, all);
    lemma_rd2(d, p, avc1_pre(b, 7), b.height as nat, all);
    lemma_rd4(d, p, avc1_pre(b, 8), b.horizresolution.0.numer as nat, all);
    lemma_rd4(d, p, avc1_pre(b, 9), b.vertresolution.0.numer as nat, all);
    lemma_rd2(d, p, avc1_pre(b, 11), b.frame_count as nat, all);
    lemma_rd2(d, p, avc1_pre(b, 13), b.depth as nat, all);
    // header
    let l = be_bytes(avc1_len(b) as nat, 4);
    assert(avc1_pre(b, 0) == l + be_bytes(0x61766331, 4));
    lemma_rd4(d, p, l, 0x61766331, all);
    lemma_prefix_app(l, be_bytes(0x61766331, 4), all);
    assert(Seq::<u8>::empty() + l =~= l);
    lemma_rd4(d, p, Seq::<u8>::empty(), avc1_len(b) as nat, all);
    // the configuration box is the last piece: the whole write is the write of the prefix followed by the write of avcC
    lemma_wr_wr(d, p, avc1_pre(b, 15), avcc_bytes(b.avcc));
    let d1 = wr(d, p, avc1_pre(b, 15));
    assert(s == wr(d1, p + 86, avcc_bytes(b.avcc)));
    lemma_avcc_roundtrip(d1, p + 86, b.avcc);
    lemma_avcc_hdr(d1, p + 86, b.avcc);
    lemma_nal_sum_bound(b.avcc.sequence_parameter_sets@, b.avcc.sequence_parameter_sets@.len() as int);
    lemma_nal_sum_bound(b.avcc.picture_parameter_sets@, b.avcc.picture_parameter_sets@.len() as int);
    assert(child_name(s, p + 86) == BoxType::AvcCBox);
    assert(child_q(s, p + 86) == p + 94 && child_next(s, p + 86) == p + 86 + avcc_len(b.avcc));
    assert(first_child(s, p + 86, p + avc1_len(b), BoxType::AvcCBox) == Some(p + 86));
}

pub open spec fn mp4a_encodable(b: Mp4aBox) -> bool { mp4a_wire(b) && (b.esds matches Some(e) ==> esds_encodable(e)) }
#[verifier::rlimit(150)]
pub proof fn lemma_mp4a_roundtrip(d: Seq<u8>, p: int, b: Mp4aBox)
    requires 0 <= p, mp4a_encodable(b)
    ensures mp4a_at(wr(d, p, mp4a_bytes(b)), p + 8, mp4a_len(b) as u64, b), hdr_at(wr(d, p, mp4a_bytes(b)), p, mp4a_len(b) as u64, 0x6d703461)
{
    broadcast use lemma_be_bytes_len;
    lemma_mp4a_pre(b);
    reveal_with_fuel(mp4a_pre, 11);
    let all = mp4a_bytes(b);
    let s = wr(d, p, all);
    lemma_prefix_refl(all);
    lemma_prefix_app(mp4a_pre(b, 8), mp4a_piece(b, 9), all);
    lemma_prefix_app(mp4a_pre(b, 7), mp4a_piece(b, 8), all);
    lemma_prefix_app(mp4a_pre(b, 6), mp4a_piece(b, 7), all);
    lemma_prefix_app(mp4a_pre(b, 5), mp4a_piece(b, 6), all);
    lemma_prefix_app(mp4a_pre(b, 4), mp4a_piece(b, 5), all);
    lemma_prefix_app(mp4a_pre(b, 3), mp4a_piece(b, 4), all);
    lemma_prefix_app(mp4a_pre(b, 2), mp4a_piece(b, 3), all);
    lemma_prefix_app(mp4a_pre(b, 1), mp4a_piece(b, 2), all);
    lemma_prefix_app(mp4a_pre(b, 0), mp4a_piece(b, 1), all);
    lemma_rd2(d, p, mp4a_pre(b, 2), b.data_reference_index as nat, all);
    lemma_rd2(d, p, mp4a_pre(b, 4), b.channelcount as nat, all);
    lemma_rd2(d, p, mp4a_pre(b, 5), b.samplesize as nat, all);
    lemma_rd4(d, p, mp4a_pre(b, 7), b.samplerate.0.numer as nat, all);
    // sound-description version (first two of the eight reserved bytes) is 0: the children start 28 bytes into the body
    lemma_be_bytes_8_split(0);
    assert(be_bytes(0, 4) =~= be_bytes(0, 2) + be_bytes(0, 2)) by { broadcast use group_be_bytes; }
    assert(is_prefix(mp4a_pre(b, 3) + be_bytes(0, 2), all)) by {
        assert(mp4a_pre(b, 4) =~= (mp4a_pre(b, 3) + be_bytes(0, 2)) + (be_bytes(0, 2) + be_bytes(0, 4)));
        lemma_prefix_app(mp4a_pre(b, 3) + be_bytes(0, 2), be_bytes(0, 2) + be_bytes(0, 4), all);
    }
    lemma_rd2(d, p, mp4a_pre(b, 3), 0, all);
    assert(mp4a_children_start(s, p + 8) == p + 36);
    // header
    let l = be_bytes(mp4a_len(b) as nat, 4);
    assert(mp4a_pre(b, 0) == l + be_bytes(0x6d703461, 4));
    lemma_rd4(d, p, l, 0x6d703461, all);
    lemma_prefix_app(l, be_bytes(0x6d703461, 4), all);
    assert(Seq::<u8>::empty() + l =~= l);
    lemma_rd4(d, p, Seq::<u8>::empty(), mp4a_len(b) as nat, all);
    if b.esds is Some {
        let e = b.esds->Some_0;
        lemma_wr_wr(d, p, mp4a_pre(b, 8), esds_bytes(e));
        let d1 = wr(d, p, mp4a_pre(b, 8));
        assert(s == wr(d1, p + 36, esds_bytes(e)));
        lemma_esds_roundtrip(d1, p + 36, e);
        assert(child_name(s, p + 36) == BoxType::EsdsBox);
        assert(child_q(s, p + 36) == p + 44 && child_next(s, p + 36) == p + 75 && child_size(s, p + 36) == 39);
        assert(first_esds(s, p + 36, p + 75) == Some(p + 36));
    } else {
        assert(first_esds(s, p + 36, p + 36) is None);
    }
}

// The muxer's AvcCBox::new stores lengthSizeMinusOne as 0xff; only its two low bits exist on the wire (the six high bits of that
// byte are reserved ones), so what comes back is the value with that field reduced to two bits. Nothing else is normalised.
pub open spec fn avcc_norm(b: AvcCBox) -> AvcCBox { AvcCBox { length_size_minus_one: b.length_size_minus_one & 3, ..b } }
pub open spec fn avc1_norm(b: Avc1Box) -> Avc1Box { Avc1Box { avcc: avcc_norm(b.avcc), ..b } }
pub open spec fn stsd_norm(b: StsdBox) -> StsdBox { StsdBox { avc1: match b.avc1 { Some(x) => Some(avc1_norm(x)), None => None }, ..b } }

pub proof fn lemma_avcc_norm_bytes(b: AvcCBox)
    ensures avcc_bytes(avcc_norm(b)) == avcc_bytes(b), avcc_len(avcc_norm(b)) == avcc_len(b), avcc_wire(avcc_norm(b)) == avcc_wire(b),
            avcc_norm(b).length_size_minus_one <= 3
{
    let l = b.length_size_minus_one;
    assert((l & 3) | 0xFC == l | 0xFC && l & 3 <= 3) by(bit_vector);
    assert(avcc_head(avcc_norm(b)) =~= avcc_head(b));
}
pub proof fn lemma_avc1_norm_bytes(b: Avc1Box)
    ensures avc1_bytes(avc1_norm(b)) == avc1_bytes(b), avc1_len(avc1_norm(b)) == avc1_len(b), avc1_wire(avc1_norm(b)) == avc1_wire(b),
            avc1_norm(b).avcc.length_size_minus_one <= 3
{
    lemma_avcc_norm_bytes(b.avcc);
    reveal_with_fuel(avc1_pre, 18);
    assert(avc1_bytes(avc1_norm(b)) =~= avc1_bytes(b));
}

/// the two kinds of stsd the muxer builds with byte-exact entries: exactly an avc1 entry, or exactly an mp4a entry
pub open spec fn stsd_muxed_avc(b: StsdBox) -> bool { b.avc1 is Some && b.hev1 is None && b.vp09 is None && b.mp4a is None && b.tx3g is None }
pub open spec fn stsd_muxed_aac(b: StsdBox) -> bool {
    b.mp4a is Some && b.avc1 is None && b.hev1 is None && b.vp09 is None && b.tx3g is None && mp4a_encodable(b.mp4a->Some_0)
}
#[verifier::rlimit(150)]
pub proof fn lemma_stsd_roundtrip(d: Seq<u8>, p: int, b: StsdBox)
    requires 0 <= p, stsd_wire(b), stsd_muxed_avc(b) || stsd_muxed_aac(b)
    ensures stsd_at(wr(d, p, stsd_bytes(b)), p + 8, stsd_norm(b)), hdr_at(wr(d, p, stsd_bytes(b)), p, stsd_len(b) as u64, 0x73747364)
{
    broadcast use lemma_be_bytes_len;
    let all = stsd_bytes(b);
    let s = wr(d, p, all);
    let l = be_bytes(stsd_len(b) as nat, 4); let t = be_bytes(0x73747364, 4);
    let eb = stsd_entry_bytes(b);
    let pre2 = l + t + seq![b.version];
    assert(all =~= ((pre2 + be_bytes(b.flags as nat, 3)) + be_bytes(1, 4)) + eb);
    lemma_prefix_refl(all);
    lemma_prefix_app((pre2 + be_bytes(b.flags as nat, 3)) + be_bytes(1, 4), eb, all);
    lemma_prefix_app(pre2 + be_bytes(b.flags as nat, 3), be_bytes(1, 4), all);
    lemma_rd3(d, p, pre2, b.flags as nat, all);
    lemma_prefix_app(pre2, be_bytes(b.flags as nat, 3), all);
    lemma_rd1s(d, p, l + t, b.version, all);
    lemma_prefix_app(l + t, seq![b.version], all);
    lemma_rd4(d, p, l, 0x73747364, all);
    lemma_prefix_app(l, t, all);
    assert(Seq::<u8>::empty() + l =~= l);
    lemma_rd4(d, p, Seq::<u8>::empty(), stsd_len(b) as nat, all);
    // the sample entry is the last piece
    assert(stsd_head(b).len() == 16);
    lemma_wr_wr(d, p, stsd_head(b), eb);
    let d1 = wr(d, p, stsd_head(b));
    assert(s == wr(d1, p + 16, eb));
    if stsd_muxed_avc(b) {
        let x = b.avc1->Some_0;
        lemma_avc1_norm_bytes(x);
        lemma_avc1_roundtrip(d1, p + 16, avc1_norm(x));
        assert(child_name(s, p + 16) == BoxType::Avc1Box);
        assert(child_q(s, p + 16) == p + 24 && child_size(s, p + 16) == avc1_len(x) as u64);
    } else {
        let x = b.mp4a->Some_0;
        lemma_mp4a_roundtrip(d1, p + 16, x);
        assert(child_name(s, p + 16) == BoxType::Mp4aBox);
        assert(child_q(s, p + 16) == p + 24 && child_size(s, p + 16) == mp4a_len(x) as u64);
    }
}

// ---- what the track writer's write_end may change in the sample description: only bufferSizeDB of the AAC decoder configuration
//      (set to the largest sample size, capped to its 24 bits); every other field is as configured at add_track
pub open spec fn esds_nobuf(e: EsdsBox) -> EsdsBox {
    EsdsBox { es_desc: ESDescriptor { dec_config: DecoderConfigDescriptor { buffer_size_db: 0, ..e.es_desc.dec_config }, ..e.es_desc }, ..e }
}
pub open spec fn mp4a_nobuf(m: Mp4aBox) -> Mp4aBox { Mp4aBox { esds: match m.esds { Some(e) => Some(esds_nobuf(e)), None => None }, ..m } }
pub open spec fn stsd_nobuf(b: StsdBox) -> StsdBox { StsdBox { mp4a: match b.mp4a { Some(m) => Some(mp4a_nobuf(m)), None => None }, ..b } }
