// SPEC LIBRARY: decode-side round trip of the containers the muxer writes (C01 / C04 / C14, specification level):
// on the reference bytes of a container, the child folds of spec/containers.rs select exactly the children that were written, and
// every selected child satisfies its own decode-side relation. No frame lemmas are needed: a child's reference bytes are already
// present in the container's bytes, writing them again at the same place changes nothing (lemma_wr_same), so the child's own
// round-trip lemma, instantiated on the container's stream, speaks about that stream.

pub proof fn lemma_wr_same(s: Seq<u8>, q: int, b: Seq<u8>)
    requires 0 <= q, q + b.len() <= s.len(), forall|j: int| 0 <= j < b.len() ==> s[q + j] == b[j]
    ensures wr(s, q, b) == s
{
    assert(wr(s, q, b) =~= s);
}
/// `piece` sits in `all` right after `pre`: writing it again over the written `all` is the identity
pub proof fn lemma_embedded(d: Seq<u8>, p: int, all: Seq<u8>, pre: Seq<u8>, piece: Seq<u8>)
    requires 0 <= p, is_prefix(pre + piece, all), piece.len() > 0
    ensures wr(wr(d, p, all), p + pre.len(), piece) == wr(d, p, all), p + pre.len() + piece.len() <= wr(d, p, all).len()
{
    broadcast use lemma_wr_len;
    let s = wr(d, p, all);
    assert((pre + piece).len() == pre.len() + piece.len());
    assert forall|j: int| 0 <= j < piece.len() implies s[p + pre.len() + j] == piece[j] by {
        assert((pre + piece)[pre.len() + j] == piece[j]);
        lemma_wr_index(d, p, all, pre.len() + j);
    }
    lemma_wr_same(s, p + pre.len(), piece);
}
pub proof fn lemma_prefix_concat(a: Seq<u8>, x: Seq<u8>) ensures is_prefix(a, a + x) {}
pub proof fn lemma_prefix_trans(a: Seq<u8>, b: Seq<u8>, c: Seq<u8>)
    requires is_prefix(a, b), is_prefix(b, c)
    ensures is_prefix(a, c)
{}
/// a stream that holds, at p, bytes starting with a compact box header announces that size and type there
pub proof fn lemma_hdr_of_bytes(d: Seq<u8>, p: int, all: Seq<u8>, len: int, code: u32)
    requires 0 <= p, 0 <= len <= 0xffff_ffff, is_prefix(hdr_bytes(len as u64, code), all)
    ensures be32(wr(d, p, all), p) == len, be32(wr(d, p, all), p + 4) == code
{
    broadcast use lemma_be_bytes_len;
    let l = be_bytes(len as nat, 4); let t = be_bytes(code as nat, 4);
    assert(hdr_bytes(len as u64, code) == l + t);
    lemma_rd4(d, p, l, code as nat, all);
    lemma_prefix_app(l, t, all);
    assert(Seq::<u8>::empty() + l =~= l);
    lemma_rd4(d, p, Seq::<u8>::empty(), len as nat, all);
}
/// one step of the child walk
pub proof fn lemma_last_of_step(s: Seq<u8>, p: int, end: int, ty: BoxType, acc: Option<int>)
    requires p < end, child_next(s, p) > p
    ensures last_of(s, p, end, ty, acc) == last_of(s, child_next(s, p), end, ty, if child_name(s, p) == ty { Some(p) } else { acc })
{}
pub proof fn lemma_last_of_end(s: Seq<u8>, end: int, ty: BoxType, acc: Option<int>)
    ensures last_of(s, end, end, ty, acc) == acc
{}
/// what the stream says at c when a box of `len` bytes and type code `code` starts there (compact header)
pub open spec fn box_here(s: Seq<u8>, c: int, len: int, code: u32) -> bool { be32(s, c) == len && be32(s, c + 4) == code && 8 <= len <= 0xffff_ffff }
pub proof fn lemma_box_here(s: Seq<u8>, c: int, len: int, code: u32)
    requires box_here(s, c, len, code)
    ensures child_q(s, c) == c + 8, child_size(s, c) == len as u64, child_next(s, c) == c + len, child_name(s, c) == spec_boxtype_of_u32(code)
{}

// ---- every box starts with its own compact header (generated: tool-free text, one lemma per box of the muxer's tree)
pub proof fn lemma_stts_starts_n(b: SttsBox, n: int)
    requires 0 <= n
    ensures is_prefix(hdr_bytes(stts_len(b) as u64, 0x73747473), stts_prefix(b, n))
    decreases n
{
    if n > 0 { lemma_stts_starts_n(b, n - 1); }
}
pub proof fn lemma_stts_starts(b: SttsBox) ensures is_prefix(hdr_bytes(stts_len(b) as u64, 0x73747473), stts_bytes(b)) { lemma_stts_starts_n(b, b.entries@.len() as int); }
pub proof fn lemma_ctts_starts_n(b: CttsBox, n: int)
    requires 0 <= n
    ensures is_prefix(hdr_bytes(ctts_len(b) as u64, 0x63747473), ctts_prefix(b, n))
    decreases n
{
    if n > 0 { lemma_ctts_starts_n(b, n - 1); }
}
pub proof fn lemma_ctts_starts(b: CttsBox) ensures is_prefix(hdr_bytes(ctts_len(b) as u64, 0x63747473), ctts_bytes(b)) { lemma_ctts_starts_n(b, b.entries@.len() as int); }
pub proof fn lemma_stss_starts_n(b: StssBox, n: int)
    requires 0 <= n
    ensures is_prefix(hdr_bytes(stss_len(b) as u64, 0x73747373), stss_prefix(b, n))
    decreases n
{
    if n > 0 { lemma_stss_starts_n(b, n - 1); }
}
pub proof fn lemma_stss_starts(b: StssBox) ensures is_prefix(hdr_bytes(stss_len(b) as u64, 0x73747373), stss_bytes(b)) { lemma_stss_starts_n(b, b.entries@.len() as int); }
pub proof fn lemma_stsc_starts_n(b: StscBox, n: int)
    requires 0 <= n
    ensures is_prefix(hdr_bytes(stsc_len(b) as u64, 0x73747363), stsc_prefix(b, n))
    decreases n
{
    if n > 0 { lemma_stsc_starts_n(b, n - 1); }
}
pub proof fn lemma_stsc_starts(b: StscBox) ensures is_prefix(hdr_bytes(stsc_len(b) as u64, 0x73747363), stsc_bytes(b)) { lemma_stsc_starts_n(b, b.entries@.len() as int); }
pub proof fn lemma_stco_starts_n(b: StcoBox, n: int)
    requires 0 <= n
    ensures is_prefix(hdr_bytes(stco_len(b) as u64, 0x7374636f), stco_prefix(b, n))
    decreases n
{
    if n > 0 { lemma_stco_starts_n(b, n - 1); }
}
pub proof fn lemma_stco_starts(b: StcoBox) ensures is_prefix(hdr_bytes(stco_len(b) as u64, 0x7374636f), stco_bytes(b)) { lemma_stco_starts_n(b, b.entries@.len() as int); }
pub proof fn lemma_co64_starts_n(b: Co64Box, n: int)
    requires 0 <= n
    ensures is_prefix(hdr_bytes(co64_len(b) as u64, 0x636f3634), co64_prefix(b, n))
    decreases n
{
    if n > 0 { lemma_co64_starts_n(b, n - 1); }
}
pub proof fn lemma_co64_starts(b: Co64Box) ensures is_prefix(hdr_bytes(co64_len(b) as u64, 0x636f3634), co64_bytes(b)) { lemma_co64_starts_n(b, b.entries@.len() as int); }
pub proof fn lemma_stsz_starts_n(b: StszBox, n: int)
    requires 0 <= n
    ensures is_prefix(hdr_bytes(stsz_len(b) as u64, 0x7374737a), stsz_prefix(b, n))
    decreases n
{
    if n > 0 { lemma_stsz_starts_n(b, n - 1); }
}
pub proof fn lemma_stsz_starts(b: StszBox) ensures is_prefix(hdr_bytes(stsz_len(b) as u64, 0x7374737a), stsz_bytes(b)) { lemma_stsz_starts_n(b, b.sample_sizes@.len() as int); }
pub proof fn lemma_mvhd_starts(b: MvhdBox) ensures is_prefix(hdr_bytes(mvhd_len(b) as u64, 0x6d766864), mvhd_bytes(b))
{
    let h = hdr_bytes(mvhd_len(b) as u64, 0x6d766864);
    assert(is_prefix(h, mvhd_pre_0(b)));
    assert(is_prefix(mvhd_pre_0(b), mvhd_pre_1(b)));
    assert(is_prefix(mvhd_pre_1(b), mvhd_pre_2(b)));
    assert(is_prefix(mvhd_pre_2(b), mvhd_pre_3(b)));
    assert(is_prefix(mvhd_pre_3(b), mvhd_pre_4(b)));
    assert(is_prefix(mvhd_pre_4(b), mvhd_pre_5(b)));
    assert(is_prefix(mvhd_pre_5(b), mvhd_pre_6(b)));
    assert(is_prefix(mvhd_pre_6(b), mvhd_pre_7(b)));
    assert(is_prefix(mvhd_pre_7(b), mvhd_pre_8(b)));
    assert(is_prefix(mvhd_pre_8(b), mvhd_pre_9(b)));
    assert(is_prefix(mvhd_pre_9(b), mvhd_pre_10(b)));
    assert(is_prefix(mvhd_pre_10(b), mvhd_pre_11(b)));
    assert(is_prefix(mvhd_pre_11(b), mvhd_pre_12(b)));
    assert(is_prefix(mvhd_pre_12(b), mvhd_pre_13(b)));
    assert(is_prefix(mvhd_pre_13(b), mvhd_pre_14(b)));
    assert(is_prefix(mvhd_pre_14(b), mvhd_pre_15(b)));
    assert(is_prefix(mvhd_pre_15(b), mvhd_pre_16(b)));
    assert(is_prefix(mvhd_pre_16(b), mvhd_pre_17(b)));
    assert(is_prefix(mvhd_pre_17(b), mvhd_pre_18(b)));
    assert(is_prefix(mvhd_pre_18(b), mvhd_pre_19(b)));
    assert(is_prefix(mvhd_pre_19(b), mvhd_pre_20(b)));
    assert(is_prefix(mvhd_pre_20(b), mvhd_pre_21(b)));
    assert(is_prefix(mvhd_pre_21(b), mvhd_pre_22(b)));
    assert(is_prefix(mvhd_pre_22(b), mvhd_pre_23(b)));
    lemma_prefix_trans(h, mvhd_pre_0(b), mvhd_pre_1(b));
    lemma_prefix_trans(h, mvhd_pre_1(b), mvhd_pre_2(b));
    lemma_prefix_trans(h, mvhd_pre_2(b), mvhd_pre_3(b));
    lemma_prefix_trans(h, mvhd_pre_3(b), mvhd_pre_4(b));
    lemma_prefix_trans(h, mvhd_pre_4(b), mvhd_pre_5(b));
    lemma_prefix_trans(h, mvhd_pre_5(b), mvhd_pre_6(b));
    lemma_prefix_trans(h, mvhd_pre_6(b), mvhd_pre_7(b));
    lemma_prefix_trans(h, mvhd_pre_7(b), mvhd_pre_8(b));
    lemma_prefix_trans(h, mvhd_pre_8(b), mvhd_pre_9(b));
    lemma_prefix_trans(h, mvhd_pre_9(b), mvhd_pre_10(b));
    lemma_prefix_trans(h, mvhd_pre_10(b), mvhd_pre_11(b));
    lemma_prefix_trans(h, mvhd_pre_11(b), mvhd_pre_12(b));
    lemma_prefix_trans(h, mvhd_pre_12(b), mvhd_pre_13(b));
    lemma_prefix_trans(h, mvhd_pre_13(b), mvhd_pre_14(b));
    lemma_prefix_trans(h, mvhd_pre_14(b), mvhd_pre_15(b));
    lemma_prefix_trans(h, mvhd_pre_15(b), mvhd_pre_16(b));
    lemma_prefix_trans(h, mvhd_pre_16(b), mvhd_pre_17(b));
    lemma_prefix_trans(h, mvhd_pre_17(b), mvhd_pre_18(b));
    lemma_prefix_trans(h, mvhd_pre_18(b), mvhd_pre_19(b));
    lemma_prefix_trans(h, mvhd_pre_19(b), mvhd_pre_20(b));
    lemma_prefix_trans(h, mvhd_pre_20(b), mvhd_pre_21(b));
    lemma_prefix_trans(h, mvhd_pre_21(b), mvhd_pre_22(b));
    lemma_prefix_trans(h, mvhd_pre_22(b), mvhd_pre_23(b));
}
pub proof fn lemma_tkhd_starts(b: TkhdBox) ensures is_prefix(hdr_bytes(tkhd_len(b) as u64, 0x746b6864), tkhd_bytes(b))
{
    let h = hdr_bytes(tkhd_len(b) as u64, 0x746b6864);
    assert(is_prefix(h, tkhd_pre_0(b)));
    assert(is_prefix(tkhd_pre_0(b), tkhd_pre_1(b)));
    assert(is_prefix(tkhd_pre_1(b), tkhd_pre_2(b)));
    assert(is_prefix(tkhd_pre_2(b), tkhd_pre_3(b)));
    assert(is_prefix(tkhd_pre_3(b), tkhd_pre_4(b)));
    assert(is_prefix(tkhd_pre_4(b), tkhd_pre_5(b)));
    assert(is_prefix(tkhd_pre_5(b), tkhd_pre_6(b)));
    assert(is_prefix(tkhd_pre_6(b), tkhd_pre_7(b)));
    assert(is_prefix(tkhd_pre_7(b), tkhd_pre_8(b)));
    assert(is_prefix(tkhd_pre_8(b), tkhd_pre_9(b)));
    assert(is_prefix(tkhd_pre_9(b), tkhd_pre_10(b)));
    assert(is_prefix(tkhd_pre_10(b), tkhd_pre_11(b)));
    assert(is_prefix(tkhd_pre_11(b), tkhd_pre_12(b)));
    assert(is_prefix(tkhd_pre_12(b), tkhd_pre_13(b)));
    assert(is_prefix(tkhd_pre_13(b), tkhd_pre_14(b)));
    assert(is_prefix(tkhd_pre_14(b), tkhd_pre_15(b)));
    assert(is_prefix(tkhd_pre_15(b), tkhd_pre_16(b)));
    assert(is_prefix(tkhd_pre_16(b), tkhd_pre_17(b)));
    assert(is_prefix(tkhd_pre_17(b), tkhd_pre_18(b)));
    assert(is_prefix(tkhd_pre_18(b), tkhd_pre_19(b)));
    assert(is_prefix(tkhd_pre_19(b), tkhd_pre_20(b)));
    assert(is_prefix(tkhd_pre_20(b), tkhd_pre_21(b)));
    assert(is_prefix(tkhd_pre_21(b), tkhd_pre_22(b)));
    assert(is_prefix(tkhd_pre_22(b), tkhd_pre_23(b)));
    assert(is_prefix(tkhd_pre_23(b), tkhd_pre_24(b)));
    assert(is_prefix(tkhd_pre_24(b), tkhd_pre_25(b)));
    assert(is_prefix(tkhd_pre_25(b), tkhd_pre_26(b)));
    lemma_prefix_trans(h, tkhd_pre_0(b), tkhd_pre_1(b));
    lemma_prefix_trans(h, tkhd_pre_1(b), tkhd_pre_2(b));
    lemma_prefix_trans(h, tkhd_pre_2(b), tkhd_pre_3(b));
    lemma_prefix_trans(h, tkhd_pre_3(b), tkhd_pre_4(b));
    lemma_prefix_trans(h, tkhd_pre_4(b), tkhd_pre_5(b));
    lemma_prefix_trans(h, tkhd_pre_5(b), tkhd_pre_6(b));
    lemma_prefix_trans(h, tkhd_pre_6(b), tkhd_pre_7(b));
    lemma_prefix_trans(h, tkhd_pre_7(b), tkhd_pre_8(b));
    lemma_prefix_trans(h, tkhd_pre_8(b), tkhd_pre_9(b));
    lemma_prefix_trans(h, tkhd_pre_9(b), tkhd_pre_10(b));
    lemma_prefix_trans(h, tkhd_pre_10(b), tkhd_pre_11(b));
    lemma_prefix_trans(h, tkhd_pre_11(b), tkhd_pre_12(b));
    lemma_prefix_trans(h, tkhd_pre_12(b), tkhd_pre_13(b));
    lemma_prefix_trans(h, tkhd_pre_13(b), tkhd_pre_14(b));
    lemma_prefix_trans(h, tkhd_pre_14(b), tkhd_pre_15(b));
    lemma_prefix_trans(h, tkhd_pre_15(b), tkhd_pre_16(b));
    lemma_prefix_trans(h, tkhd_pre_16(b), tkhd_pre_17(b));
    lemma_prefix_trans(h, tkhd_pre_17(b), tkhd_pre_18(b));
    lemma_prefix_trans(h, tkhd_pre_18(b), tkhd_pre_19(b));
    lemma_prefix_trans(h, tkhd_pre_19(b), tkhd_pre_20(b));
    lemma_prefix_trans(h, tkhd_pre_20(b), tkhd_pre_21(b));
    lemma_prefix_trans(h, tkhd_pre_21(b), tkhd_pre_22(b));
    lemma_prefix_trans(h, tkhd_pre_22(b), tkhd_pre_23(b));
    lemma_prefix_trans(h, tkhd_pre_23(b), tkhd_pre_24(b));
    lemma_prefix_trans(h, tkhd_pre_24(b), tkhd_pre_25(b));
    lemma_prefix_trans(h, tkhd_pre_25(b), tkhd_pre_26(b));
}
pub proof fn lemma_mdhd_starts(b: MdhdBox) ensures is_prefix(hdr_bytes(mdhd_len(b) as u64, 0x6d646864), mdhd_bytes(b))
{
    let h = hdr_bytes(mdhd_len(b) as u64, 0x6d646864);
    assert(is_prefix(h, mdhd_pre_0(b)));
    assert(is_prefix(mdhd_pre_0(b), mdhd_pre_1(b)));
    assert(is_prefix(mdhd_pre_1(b), mdhd_pre_2(b)));
    assert(is_prefix(mdhd_pre_2(b), mdhd_pre_3(b)));
    assert(is_prefix(mdhd_pre_3(b), mdhd_pre_4(b)));
    assert(is_prefix(mdhd_pre_4(b), mdhd_pre_5(b)));
    assert(is_prefix(mdhd_pre_5(b), mdhd_pre_6(b)));
    assert(is_prefix(mdhd_pre_6(b), mdhd_pre_7(b)));
    assert(is_prefix(mdhd_pre_7(b), mdhd_pre_8(b)));
    assert(is_prefix(mdhd_pre_8(b), mdhd_pre_9(b)));
    assert(is_prefix(mdhd_pre_9(b), mdhd_pre_10(b)));
    lemma_prefix_trans(h, mdhd_pre_0(b), mdhd_pre_1(b));
    lemma_prefix_trans(h, mdhd_pre_1(b), mdhd_pre_2(b));
    lemma_prefix_trans(h, mdhd_pre_2(b), mdhd_pre_3(b));
    lemma_prefix_trans(h, mdhd_pre_3(b), mdhd_pre_4(b));
    lemma_prefix_trans(h, mdhd_pre_4(b), mdhd_pre_5(b));
    lemma_prefix_trans(h, mdhd_pre_5(b), mdhd_pre_6(b));
    lemma_prefix_trans(h, mdhd_pre_6(b), mdhd_pre_7(b));
    lemma_prefix_trans(h, mdhd_pre_7(b), mdhd_pre_8(b));
    lemma_prefix_trans(h, mdhd_pre_8(b), mdhd_pre_9(b));
    lemma_prefix_trans(h, mdhd_pre_9(b), mdhd_pre_10(b));
}
pub proof fn lemma_vmhd_starts(b: VmhdBox) ensures is_prefix(hdr_bytes(vmhd_len(b) as u64, 0x766d6864), vmhd_bytes(b))
{
    let h = hdr_bytes(vmhd_len(b) as u64, 0x766d6864);
    assert(is_prefix(h, vmhd_pre_0(b)));
    assert(is_prefix(vmhd_pre_0(b), vmhd_pre_1(b)));
    assert(is_prefix(vmhd_pre_1(b), vmhd_pre_2(b)));
    assert(is_prefix(vmhd_pre_2(b), vmhd_pre_3(b)));
    assert(is_prefix(vmhd_pre_3(b), vmhd_pre_4(b)));
    lemma_prefix_trans(h, vmhd_pre_0(b), vmhd_pre_1(b));
    lemma_prefix_trans(h, vmhd_pre_1(b), vmhd_pre_2(b));
    lemma_prefix_trans(h, vmhd_pre_2(b), vmhd_pre_3(b));
    lemma_prefix_trans(h, vmhd_pre_3(b), vmhd_pre_4(b));
}
pub proof fn lemma_smhd_starts(b: SmhdBox) ensures is_prefix(hdr_bytes(smhd_len(b) as u64, 0x736d6864), smhd_bytes(b))
{
    let h = hdr_bytes(smhd_len(b) as u64, 0x736d6864);
    assert(is_prefix(h, smhd_pre_0(b)));
    assert(is_prefix(smhd_pre_0(b), smhd_pre_1(b)));
    assert(is_prefix(smhd_pre_1(b), smhd_pre_2(b)));
    lemma_prefix_trans(h, smhd_pre_0(b), smhd_pre_1(b));
    lemma_prefix_trans(h, smhd_pre_1(b), smhd_pre_2(b));
}
pub proof fn lemma_stbl_starts_k(b: StblBox, k: int)
    requires 0 <= k
    ensures is_prefix(hdr_bytes(stbl_len(b) as u64, 0x7374626c), stbl_pre(b, k))
    decreases k
{
    if k > 0 { lemma_stbl_starts_k(b, k - 1); }
}
pub proof fn lemma_stbl_starts(b: StblBox) ensures is_prefix(hdr_bytes(stbl_len(b) as u64, 0x7374626c), stbl_bytes(b)) { lemma_stbl_starts_k(b, 8); }
pub proof fn lemma_minf_starts_k(b: MinfBox, k: int)
    requires 0 <= k
    ensures is_prefix(hdr_bytes(minf_len(b) as u64, 0x6d696e66), minf_pre(b, k))
    decreases k
{
    if k > 0 { lemma_minf_starts_k(b, k - 1); }
}
pub proof fn lemma_minf_starts(b: MinfBox) ensures is_prefix(hdr_bytes(minf_len(b) as u64, 0x6d696e66), minf_bytes(b)) { lemma_minf_starts_k(b, 4); }
pub proof fn lemma_mdia_starts_k(b: MdiaBox, k: int)
    requires 0 <= k
    ensures is_prefix(hdr_bytes(mdia_len(b) as u64, 0x6d646961), mdia_pre(b, k))
    decreases k
{
    if k > 0 { lemma_mdia_starts_k(b, k - 1); }
}
pub proof fn lemma_mdia_starts(b: MdiaBox) ensures is_prefix(hdr_bytes(mdia_len(b) as u64, 0x6d646961), mdia_bytes(b)) { lemma_mdia_starts_k(b, 3); }
pub proof fn lemma_trak_starts_k(b: TrakBox, k: int)
    requires 0 <= k
    ensures is_prefix(hdr_bytes(trak_len(b) as u64, 0x7472616b), trak_pre(b, k))
    decreases k
{
    if k > 0 { lemma_trak_starts_k(b, k - 1); }
}
pub proof fn lemma_trak_starts(b: TrakBox) ensures is_prefix(hdr_bytes(trak_len(b) as u64, 0x7472616b), trak_bytes(b)) { lemma_trak_starts_k(b, 4); }
pub proof fn lemma_dinf_starts(b: DinfBox) ensures is_prefix(hdr_bytes(dinf_len(b) as u64, 0x64696e66), dinf_bytes(b)) {}

pub proof fn lemma_stsd_starts(b: StsdBox) ensures is_prefix(hdr_bytes(stsd_len(b) as u64, 0x73747364), stsd_bytes(b)) {}
pub proof fn lemma_hdlr_starts(b: HdlrBox) ensures is_prefix(hdr_bytes(hdlr_len(b) as u64, 0x68646c72), hdlr_bytes(b)) {}
pub proof fn lemma_stbl_pre_mono(b: StblBox, j: int, k: int)
    requires 0 <= j <= k
    ensures is_prefix(stbl_pre(b, j), stbl_pre(b, k))
    decreases k
{
    if j < k { lemma_stbl_pre_mono(b, j, k - 1); }
}
pub proof fn lemma_minf_pre_mono(b: MinfBox, j: int, k: int)
    requires 0 <= j <= k
    ensures is_prefix(minf_pre(b, j), minf_pre(b, k))
    decreases k
{
    if j < k { lemma_minf_pre_mono(b, j, k - 1); }
}
pub proof fn lemma_mdia_pre_mono(b: MdiaBox, j: int, k: int)
    requires 0 <= j <= k
    ensures is_prefix(mdia_pre(b, j), mdia_pre(b, k))
    decreases k
{
    if j < k { lemma_mdia_pre_mono(b, j, k - 1); }
}
pub proof fn lemma_trak_pre_mono(b: TrakBox, j: int, k: int)
    requires 0 <= j <= k
    ensures is_prefix(trak_pre(b, j), trak_pre(b, k))
    decreases k
{
    if j < k { lemma_trak_pre_mono(b, j, k - 1); }
}

/// child `cb` (a box of `len` bytes with type code `code`) sits in `all` right after `pre`: on the written stream it is a box
/// at that position, and writing it again there changes nothing
pub proof fn lemma_child_placed(d: Seq<u8>, p: int, all: Seq<u8>, pre: Seq<u8>, cb: Seq<u8>, len: int, code: u32)
    requires 0 <= p, is_prefix(pre + cb, all), cb.len() == len, 8 <= len <= 0xffff_ffff, is_prefix(hdr_bytes(len as u64, code), cb)
    ensures wr(wr(d, p, all), p + pre.len(), cb) == wr(d, p, all), box_here(wr(d, p, all), p + pre.len(), len, code)
{
    lemma_embedded(d, p, all, pre, cb);
    lemma_hdr_of_bytes(wr(d, p, all), p + pre.len(), cb, len, code);
}
pub proof fn lemma_chain8(s: Seq<u8>, ty: BoxType, end: int, c1: int, c2: int, c3: int, c4: int, c5: int, c6: int, c7: int, c8: int, c9: int, h1: bool, h2: bool, h3: bool, h4: bool, h5: bool, h6: bool, h7: bool, h8: bool, n1: BoxType, n2: BoxType, n3: BoxType, n4: BoxType, n5: BoxType, n6: BoxType, n7: BoxType, n8: BoxType)
    requires c9 == end,
        h1 ==> (child_next(s, c1) == c2 && c2 > c1 && child_name(s, c1) == n1),
        !h1 ==> c2 == c1,
        h2 ==> (child_next(s, c2) == c3 && c3 > c2 && child_name(s, c2) == n2),
        !h2 ==> c3 == c2,
        h3 ==> (child_next(s, c3) == c4 && c4 > c3 && child_name(s, c3) == n3),
        !h3 ==> c4 == c3,
        h4 ==> (child_next(s, c4) == c5 && c5 > c4 && child_name(s, c4) == n4),
        !h4 ==> c5 == c4,
        h5 ==> (child_next(s, c5) == c6 && c6 > c5 && child_name(s, c5) == n5),
        !h5 ==> c6 == c5,
        h6 ==> (child_next(s, c6) == c7 && c7 > c6 && child_name(s, c6) == n6),
        !h6 ==> c7 == c6,
        h7 ==> (child_next(s, c7) == c8 && c8 > c7 && child_name(s, c7) == n7),
        !h7 ==> c8 == c7,
        h8 ==> (child_next(s, c8) == c9 && c9 > c8 && child_name(s, c8) == n8),
        !h8 ==> c9 == c8
    ensures last_of(s, c1, end, ty, None) == (if h8 && n8 == ty { Some(c8) } else { (if h7 && n7 == ty { Some(c7) } else { (if h6 && n6 == ty { Some(c6) } else { (if h5 && n5 == ty { Some(c5) } else { (if h4 && n4 == ty { Some(c4) } else { (if h3 && n3 == ty { Some(c3) } else { (if h2 && n2 == ty { Some(c2) } else { (if h1 && n1 == ty { Some(c1) } else { None::<int> }) }) }) }) }) }) }) })
{
    let a0 = None::<int>;
    let a1 = if h1 && n1 == ty { Some(c1) } else { a0 };
    let a2 = if h2 && n2 == ty { Some(c2) } else { a1 };
    let a3 = if h3 && n3 == ty { Some(c3) } else { a2 };
    let a4 = if h4 && n4 == ty { Some(c4) } else { a3 };
    let a5 = if h5 && n5 == ty { Some(c5) } else { a4 };
    let a6 = if h6 && n6 == ty { Some(c6) } else { a5 };
    let a7 = if h7 && n7 == ty { Some(c7) } else { a6 };
    let a8 = if h8 && n8 == ty { Some(c8) } else { a7 };
    assert(last_of(s, c1, end, ty, a0) == last_of(s, c2, end, ty, a1)) by { if h1 { assert(c1 < end); } }
    assert(last_of(s, c2, end, ty, a1) == last_of(s, c3, end, ty, a2)) by { if h2 { assert(c2 < end); } }
    assert(last_of(s, c3, end, ty, a2) == last_of(s, c4, end, ty, a3)) by { if h3 { assert(c3 < end); } }
    assert(last_of(s, c4, end, ty, a3) == last_of(s, c5, end, ty, a4)) by { if h4 { assert(c4 < end); } }
    assert(last_of(s, c5, end, ty, a4) == last_of(s, c6, end, ty, a5)) by { if h5 { assert(c5 < end); } }
    assert(last_of(s, c6, end, ty, a5) == last_of(s, c7, end, ty, a6)) by { if h6 { assert(c6 < end); } }
    assert(last_of(s, c7, end, ty, a6) == last_of(s, c8, end, ty, a7)) by { if h7 { assert(c7 < end); } }
    assert(last_of(s, c8, end, ty, a7) == last_of(s, c9, end, ty, a8)) by { if h8 { assert(c8 < end); } }
}
pub proof fn lemma_chain8_m(s: Seq<u8>, ty: BoxType, end: int, c1: int, c2: int, c3: int, c4: int, c5: int, c6: int, c7: int, c8: int, c9: int, h1: bool, h2: bool, h3: bool, h4: bool, h5: bool, h6: bool, h7: bool, h8: bool, n1: BoxType, n2: BoxType, n3: BoxType, n4: BoxType, n5: BoxType, n6: BoxType, n7: BoxType, n8: BoxType)
    requires c9 == end,
        h1 ==> (child_next(s, c1) == c2 && c2 > c1 && child_name(s, c1) == n1 && n1 != BoxType::MetaBox),
        !h1 ==> c2 == c1,
        h2 ==> (child_next(s, c2) == c3 && c3 > c2 && child_name(s, c2) == n2 && n2 != BoxType::MetaBox),
        !h2 ==> c3 == c2,
        h3 ==> (child_next(s, c3) == c4 && c4 > c3 && child_name(s, c3) == n3 && n3 != BoxType::MetaBox),
        !h3 ==> c4 == c3,
        h4 ==> (child_next(s, c4) == c5 && c5 > c4 && child_name(s, c4) == n4 && n4 != BoxType::MetaBox),
        !h4 ==> c5 == c4,
        h5 ==> (child_next(s, c5) == c6 && c6 > c5 && child_name(s, c5) == n5 && n5 != BoxType::MetaBox),
        !h5 ==> c6 == c5,
        h6 ==> (child_next(s, c6) == c7 && c7 > c6 && child_name(s, c6) == n6 && n6 != BoxType::MetaBox),
        !h6 ==> c7 == c6,
        h7 ==> (child_next(s, c7) == c8 && c8 > c7 && child_name(s, c7) == n7 && n7 != BoxType::MetaBox),
        !h7 ==> c8 == c7,
        h8 ==> (child_next(s, c8) == c9 && c9 > c8 && child_name(s, c8) == n8 && n8 != BoxType::MetaBox),
        !h8 ==> c9 == c8
    ensures last_of_m(s, c1, end, ty, None) == (if h8 && n8 == ty { Some(c8) } else { (if h7 && n7 == ty { Some(c7) } else { (if h6 && n6 == ty { Some(c6) } else { (if h5 && n5 == ty { Some(c5) } else { (if h4 && n4 == ty { Some(c4) } else { (if h3 && n3 == ty { Some(c3) } else { (if h2 && n2 == ty { Some(c2) } else { (if h1 && n1 == ty { Some(c1) } else { None::<int> }) }) }) }) }) }) }) })
{
    let a0 = None::<int>;
    let a1 = if h1 && n1 == ty { Some(c1) } else { a0 };
    let a2 = if h2 && n2 == ty { Some(c2) } else { a1 };
    let a3 = if h3 && n3 == ty { Some(c3) } else { a2 };
    let a4 = if h4 && n4 == ty { Some(c4) } else { a3 };
    let a5 = if h5 && n5 == ty { Some(c5) } else { a4 };
    let a6 = if h6 && n6 == ty { Some(c6) } else { a5 };
    let a7 = if h7 && n7 == ty { Some(c7) } else { a6 };
    let a8 = if h8 && n8 == ty { Some(c8) } else { a7 };
    assert(last_of_m(s, c1, end, ty, a0) == last_of_m(s, c2, end, ty, a1)) by { if h1 { assert(c1 < end); } }
    assert(last_of_m(s, c2, end, ty, a1) == last_of_m(s, c3, end, ty, a2)) by { if h2 { assert(c2 < end); } }
    assert(last_of_m(s, c3, end, ty, a2) == last_of_m(s, c4, end, ty, a3)) by { if h3 { assert(c3 < end); } }
    assert(last_of_m(s, c4, end, ty, a3) == last_of_m(s, c5, end, ty, a4)) by { if h4 { assert(c4 < end); } }
    assert(last_of_m(s, c5, end, ty, a4) == last_of_m(s, c6, end, ty, a5)) by { if h5 { assert(c5 < end); } }
    assert(last_of_m(s, c6, end, ty, a5) == last_of_m(s, c7, end, ty, a6)) by { if h6 { assert(c6 < end); } }
    assert(last_of_m(s, c7, end, ty, a6) == last_of_m(s, c8, end, ty, a7)) by { if h7 { assert(c7 < end); } }
    assert(last_of_m(s, c8, end, ty, a7) == last_of_m(s, c9, end, ty, a8)) by { if h8 { assert(c8 < end); } }
}

// ---- stbl
pub open spec fn stbl_norm(b: StblBox) -> StblBox { StblBox { stsd: stsd_norm(b.stsd), ..b } }
pub open spec fn stbl_muxed(b: StblBox) -> bool { stbl_wire(b) && stsd_muxed_any(b.stsd) }
pub open spec fn stbl_c(b: StblBox, p: int, k: int) -> int { p + stbl_pre(b, k - 1).len() }
#[verifier::rlimit(200)]
pub proof fn lemma_stbl_child_1(d: Seq<u8>, p: int, b: StblBox)
    requires 0 <= p, stbl_muxed(b), true
    ensures ({ let s = wr(d, p, stbl_bytes(b)); let c = stbl_c(b, p, 1); let x = b.stsd;
               box_here(s, c, stsd_len(x), 0x73747364) && stsd_at(s, c + 8, stsd_norm(x)) })
{
    let all = stbl_bytes(b); let s = wr(d, p, all); let c = stbl_c(b, p, 1); let x = b.stsd;
    lemma_stbl_pre(b);
    lemma_stbl_pre_mono(b, 1, 8);
    lemma_stsd_starts(x);
    assert(stbl_pre(b, 1) == stbl_pre(b, 0) + stsd_bytes(x));
    lemma_child_placed(d, p, all, stbl_pre(b, 0), stsd_bytes(x), stsd_len(x), 0x73747364);
    lemma_stsd_roundtrip_any(s, c, x);
}
#[verifier::rlimit(200)]
pub proof fn lemma_stbl_child_2(d: Seq<u8>, p: int, b: StblBox)
    requires 0 <= p, stbl_muxed(b), true
    ensures ({ let s = wr(d, p, stbl_bytes(b)); let c = stbl_c(b, p, 2); let x = b.stts;
               box_here(s, c, stts_len(x), 0x73747473) && stts_at(s, c, x) })
{
    let all = stbl_bytes(b); let s = wr(d, p, all); let c = stbl_c(b, p, 2); let x = b.stts;
    lemma_stbl_pre(b);
    lemma_stbl_pre_mono(b, 2, 8);
    lemma_stts_starts(x);
    assert(stbl_pre(b, 2) == stbl_pre(b, 1) + stts_bytes(x));
    lemma_child_placed(d, p, all, stbl_pre(b, 1), stts_bytes(x), stts_len(x), 0x73747473);
    lemma_stts_roundtrip(s, c, x);
}
#[verifier::rlimit(200)]
pub proof fn lemma_stbl_child_3(d: Seq<u8>, p: int, b: StblBox)
    requires 0 <= p, stbl_muxed(b), b.ctts is Some
    ensures ({ let s = wr(d, p, stbl_bytes(b)); let c = stbl_c(b, p, 3); let x = b.ctts->Some_0;
               box_here(s, c, ctts_len(x), 0x63747473) && ctts_at(s, c, x) })
{
    let all = stbl_bytes(b); let s = wr(d, p, all); let c = stbl_c(b, p, 3); let x = b.ctts->Some_0;
    lemma_stbl_pre(b);
    lemma_stbl_pre_mono(b, 3, 8);
    lemma_ctts_starts(x);
    assert(stbl_pre(b, 3) == stbl_pre(b, 2) + ctts_bytes(x));
    lemma_child_placed(d, p, all, stbl_pre(b, 2), ctts_bytes(x), ctts_len(x), 0x63747473);
    lemma_ctts_roundtrip(s, c, x);
}
#[verifier::rlimit(200)]
pub proof fn lemma_stbl_child_4(d: Seq<u8>, p: int, b: StblBox)
    requires 0 <= p, stbl_muxed(b), b.stss is Some
    ensures ({ let s = wr(d, p, stbl_bytes(b)); let c = stbl_c(b, p, 4); let x = b.stss->Some_0;
               box_here(s, c, stss_len(x), 0x73747373) && stss_at(s, c, x) })
{
    let all = stbl_bytes(b); let s = wr(d, p, all); let c = stbl_c(b, p, 4); let x = b.stss->Some_0;
    lemma_stbl_pre(b);
    lemma_stbl_pre_mono(b, 4, 8);
    lemma_stss_starts(x);
    assert(stbl_pre(b, 4) == stbl_pre(b, 3) + stss_bytes(x));
    lemma_child_placed(d, p, all, stbl_pre(b, 3), stss_bytes(x), stss_len(x), 0x73747373);
    lemma_stss_roundtrip(s, c, x);
}
#[verifier::rlimit(200)]
pub proof fn lemma_stbl_child_5(d: Seq<u8>, p: int, b: StblBox)
    requires 0 <= p, stbl_muxed(b), true
    ensures ({ let s = wr(d, p, stbl_bytes(b)); let c = stbl_c(b, p, 5); let x = b.stsc;
               box_here(s, c, stsc_len(x), 0x73747363) && stsc_at(s, c, x) })
{
    let all = stbl_bytes(b); let s = wr(d, p, all); let c = stbl_c(b, p, 5); let x = b.stsc;
    lemma_stbl_pre(b);
    lemma_stbl_pre_mono(b, 5, 8);
    lemma_stsc_starts(x);
    assert(stbl_pre(b, 5) == stbl_pre(b, 4) + stsc_bytes(x));
    lemma_child_placed(d, p, all, stbl_pre(b, 4), stsc_bytes(x), stsc_len(x), 0x73747363);
    lemma_stsc_roundtrip(s, c, x);
}
#[verifier::rlimit(200)]
pub proof fn lemma_stbl_child_6(d: Seq<u8>, p: int, b: StblBox)
    requires 0 <= p, stbl_muxed(b), true
    ensures ({ let s = wr(d, p, stbl_bytes(b)); let c = stbl_c(b, p, 6); let x = b.stsz;
               box_here(s, c, stsz_len(x), 0x7374737a) && stsz_at(s, c, x) })
{
    let all = stbl_bytes(b); let s = wr(d, p, all); let c = stbl_c(b, p, 6); let x = b.stsz;
    lemma_stbl_pre(b);
    lemma_stbl_pre_mono(b, 6, 8);
    lemma_stsz_starts(x);
    assert(stbl_pre(b, 6) == stbl_pre(b, 5) + stsz_bytes(x));
    lemma_child_placed(d, p, all, stbl_pre(b, 5), stsz_bytes(x), stsz_len(x), 0x7374737a);
    lemma_stsz_roundtrip(s, c, x);
}
#[verifier::rlimit(200)]
pub proof fn lemma_stbl_child_7(d: Seq<u8>, p: int, b: StblBox)
    requires 0 <= p, stbl_muxed(b), b.stco is Some
    ensures ({ let s = wr(d, p, stbl_bytes(b)); let c = stbl_c(b, p, 7); let x = b.stco->Some_0;
               box_here(s, c, stco_len(x), 0x7374636f) && stco_at(s, c, x) })
{
    let all = stbl_bytes(b); let s = wr(d, p, all); let c = stbl_c(b, p, 7); let x = b.stco->Some_0;
    lemma_stbl_pre(b);
    lemma_stbl_pre_mono(b, 7, 8);
    lemma_stco_starts(x);
    assert(stbl_pre(b, 7) == stbl_pre(b, 6) + stco_bytes(x));
    lemma_child_placed(d, p, all, stbl_pre(b, 6), stco_bytes(x), stco_len(x), 0x7374636f);
    lemma_stco_roundtrip(s, c, x);
}
#[verifier::rlimit(200)]
pub proof fn lemma_stbl_child_8(d: Seq<u8>, p: int, b: StblBox)
    requires 0 <= p, stbl_muxed(b), b.co64 is Some
    ensures ({ let s = wr(d, p, stbl_bytes(b)); let c = stbl_c(b, p, 8); let x = b.co64->Some_0;
               box_here(s, c, co64_len(x), 0x636f3634) && co64_at(s, c, x) })
{
    let all = stbl_bytes(b); let s = wr(d, p, all); let c = stbl_c(b, p, 8); let x = b.co64->Some_0;
    lemma_stbl_pre(b);
    lemma_stbl_pre_mono(b, 8, 8);
    lemma_co64_starts(x);
    assert(stbl_pre(b, 8) == stbl_pre(b, 7) + co64_bytes(x));
    lemma_child_placed(d, p, all, stbl_pre(b, 7), co64_bytes(x), co64_len(x), 0x636f3634);
    lemma_co64_roundtrip(s, c, x);
}
pub open spec fn stbl_boxes(s: Seq<u8>, p: int, b: StblBox) -> bool {
    box_here(s, stbl_c(b, p, 1), stsd_len(b.stsd), 0x73747364)
    && box_here(s, stbl_c(b, p, 2), stts_len(b.stts), 0x73747473)
    && (b.ctts matches Some(x) ==> box_here(s, stbl_c(b, p, 3), ctts_len(x), 0x63747473))
    && (b.stss matches Some(x) ==> box_here(s, stbl_c(b, p, 4), stss_len(x), 0x73747373))
    && box_here(s, stbl_c(b, p, 5), stsc_len(b.stsc), 0x73747363)
    && box_here(s, stbl_c(b, p, 6), stsz_len(b.stsz), 0x7374737a)
    && (b.stco matches Some(x) ==> box_here(s, stbl_c(b, p, 7), stco_len(x), 0x7374636f))
    && (b.co64 matches Some(x) ==> box_here(s, stbl_c(b, p, 8), co64_len(x), 0x636f3634))
}
pub proof fn lemma_stbl_walk(s: Seq<u8>, p: int, b: StblBox, ty: BoxType)
    requires 0 <= p, stbl_muxed(b), stbl_boxes(s, p, b)
    ensures child_at(s, p + 8, stbl_len(b) as u64, ty) == (if ty == BoxType::Co64Box && b.co64 is Some { Some(stbl_c(b, p, 8)) } else { (if ty == BoxType::StcoBox && b.stco is Some { Some(stbl_c(b, p, 7)) } else { (if ty == BoxType::StszBox { Some(stbl_c(b, p, 6)) } else { (if ty == BoxType::StscBox { Some(stbl_c(b, p, 5)) } else { (if ty == BoxType::StssBox && b.stss is Some { Some(stbl_c(b, p, 4)) } else { (if ty == BoxType::CttsBox && b.ctts is Some { Some(stbl_c(b, p, 3)) } else { (if ty == BoxType::SttsBox { Some(stbl_c(b, p, 2)) } else { (if ty == BoxType::StsdBox { Some(stbl_c(b, p, 1)) } else { None::<int> }) }) }) }) }) }) }) })
{
    lemma_stbl_pre(b);
    let end = p + stbl_len(b);
    lemma_box_here(s, stbl_c(b, p, 1), stsd_len(b.stsd), 0x73747364);
    lemma_box_here(s, stbl_c(b, p, 2), stts_len(b.stts), 0x73747473);
    if b.ctts is Some { lemma_box_here(s, stbl_c(b, p, 3), ctts_len(b.ctts->Some_0), 0x63747473); }
    if b.stss is Some { lemma_box_here(s, stbl_c(b, p, 4), stss_len(b.stss->Some_0), 0x73747373); }
    lemma_box_here(s, stbl_c(b, p, 5), stsc_len(b.stsc), 0x73747363);
    lemma_box_here(s, stbl_c(b, p, 6), stsz_len(b.stsz), 0x7374737a);
    if b.stco is Some { lemma_box_here(s, stbl_c(b, p, 7), stco_len(b.stco->Some_0), 0x7374636f); }
    if b.co64 is Some { lemma_box_here(s, stbl_c(b, p, 8), co64_len(b.co64->Some_0), 0x636f3634); }
    lemma_chain8(s, ty, end, stbl_c(b, p, 1), stbl_c(b, p, 2), stbl_c(b, p, 3), stbl_c(b, p, 4), stbl_c(b, p, 5), stbl_c(b, p, 6), stbl_c(b, p, 7), stbl_c(b, p, 8), end, true, true, b.ctts is Some, b.stss is Some, true, true, b.stco is Some, b.co64 is Some,
        BoxType::StsdBox, BoxType::SttsBox, BoxType::CttsBox, BoxType::StssBox, BoxType::StscBox, BoxType::StszBox, BoxType::StcoBox, BoxType::Co64Box);
}
#[verifier::rlimit(200)]
pub proof fn lemma_stbl_boxes(d: Seq<u8>, p: int, b: StblBox)
    requires 0 <= p, stbl_muxed(b)
    ensures stbl_boxes(wr(d, p, stbl_bytes(b)), p, b)
{
    lemma_stbl_child_1(d, p, b);
    lemma_stbl_child_2(d, p, b);
    if b.ctts is Some { lemma_stbl_child_3(d, p, b); }
    if b.stss is Some { lemma_stbl_child_4(d, p, b); }
    lemma_stbl_child_5(d, p, b);
    lemma_stbl_child_6(d, p, b);
    if b.stco is Some { lemma_stbl_child_7(d, p, b); }
    if b.co64 is Some { lemma_stbl_child_8(d, p, b); }
}
#[verifier::rlimit(200)]
pub proof fn lemma_stbl_rel_1(d: Seq<u8>, p: int, b: StblBox)
    requires 0 <= p, stbl_muxed(b)
    ensures ({ let s = wr(d, p, stbl_bytes(b)); let q = p + 8; let size = stbl_len(b) as u64; rel_stsd(s, Some(stsd_norm(b.stsd)), child_at(s, q, size, BoxType::StsdBox)) })
{
    let s = wr(d, p, stbl_bytes(b));
    lemma_stbl_boxes(d, p, b);
    lemma_stbl_walk(s, p, b, BoxType::StsdBox);
    lemma_stbl_child_1(d, p, b); lemma_box_here(s, stbl_c(b, p, 1), stsd_len(b.stsd), 0x73747364);
}
#[verifier::rlimit(200)]
pub proof fn lemma_stbl_rel_2(d: Seq<u8>, p: int, b: StblBox)
    requires 0 <= p, stbl_muxed(b)
    ensures ({ let s = wr(d, p, stbl_bytes(b)); let q = p + 8; let size = stbl_len(b) as u64; rel_stts(s, Some(b.stts), child_at(s, q, size, BoxType::SttsBox)) })
{
    let s = wr(d, p, stbl_bytes(b));
    lemma_stbl_boxes(d, p, b);
    lemma_stbl_walk(s, p, b, BoxType::SttsBox);
    lemma_stbl_child_2(d, p, b); lemma_box_here(s, stbl_c(b, p, 2), stts_len(b.stts), 0x73747473);
}
#[verifier::rlimit(200)]
pub proof fn lemma_stbl_rel_3(d: Seq<u8>, p: int, b: StblBox)
    requires 0 <= p, stbl_muxed(b)
    ensures ({ let s = wr(d, p, stbl_bytes(b)); let q = p + 8; let size = stbl_len(b) as u64; rel_ctts(s, b.ctts, child_at(s, q, size, BoxType::CttsBox)) })
{
    let s = wr(d, p, stbl_bytes(b));
    lemma_stbl_boxes(d, p, b);
    lemma_stbl_walk(s, p, b, BoxType::CttsBox);
    if b.ctts is Some { lemma_stbl_child_3(d, p, b); lemma_box_here(s, stbl_c(b, p, 3), ctts_len(b.ctts->Some_0), 0x63747473); }
}
#[verifier::rlimit(200)]
pub proof fn lemma_stbl_rel_4(d: Seq<u8>, p: int, b: StblBox)
    requires 0 <= p, stbl_muxed(b)
    ensures ({ let s = wr(d, p, stbl_bytes(b)); let q = p + 8; let size = stbl_len(b) as u64; rel_stss(s, b.stss, child_at(s, q, size, BoxType::StssBox)) })
{
    let s = wr(d, p, stbl_bytes(b));
    lemma_stbl_boxes(d, p, b);
    lemma_stbl_walk(s, p, b, BoxType::StssBox);
    if b.stss is Some { lemma_stbl_child_4(d, p, b); lemma_box_here(s, stbl_c(b, p, 4), stss_len(b.stss->Some_0), 0x73747373); }
}
#[verifier::rlimit(200)]
pub proof fn lemma_stbl_rel_5(d: Seq<u8>, p: int, b: StblBox)
    requires 0 <= p, stbl_muxed(b)
    ensures ({ let s = wr(d, p, stbl_bytes(b)); let q = p + 8; let size = stbl_len(b) as u64; rel_stsc(s, Some(b.stsc), child_at(s, q, size, BoxType::StscBox)) })
{
    let s = wr(d, p, stbl_bytes(b));
    lemma_stbl_boxes(d, p, b);
    lemma_stbl_walk(s, p, b, BoxType::StscBox);
    lemma_stbl_child_5(d, p, b); lemma_box_here(s, stbl_c(b, p, 5), stsc_len(b.stsc), 0x73747363);
}
#[verifier::rlimit(200)]
pub proof fn lemma_stbl_rel_6(d: Seq<u8>, p: int, b: StblBox)
    requires 0 <= p, stbl_muxed(b)
    ensures ({ let s = wr(d, p, stbl_bytes(b)); let q = p + 8; let size = stbl_len(b) as u64; rel_stsz(s, Some(b.stsz), child_at(s, q, size, BoxType::StszBox)) })
{
    let s = wr(d, p, stbl_bytes(b));
    lemma_stbl_boxes(d, p, b);
    lemma_stbl_walk(s, p, b, BoxType::StszBox);
    lemma_stbl_child_6(d, p, b); lemma_box_here(s, stbl_c(b, p, 6), stsz_len(b.stsz), 0x7374737a);
}
#[verifier::rlimit(200)]
pub proof fn lemma_stbl_rel_7(d: Seq<u8>, p: int, b: StblBox)
    requires 0 <= p, stbl_muxed(b)
    ensures ({ let s = wr(d, p, stbl_bytes(b)); let q = p + 8; let size = stbl_len(b) as u64; rel_stco(s, b.stco, child_at(s, q, size, BoxType::StcoBox)) })
{
    let s = wr(d, p, stbl_bytes(b));
    lemma_stbl_boxes(d, p, b);
    lemma_stbl_walk(s, p, b, BoxType::StcoBox);
    if b.stco is Some { lemma_stbl_child_7(d, p, b); lemma_box_here(s, stbl_c(b, p, 7), stco_len(b.stco->Some_0), 0x7374636f); }
}
#[verifier::rlimit(200)]
pub proof fn lemma_stbl_rel_8(d: Seq<u8>, p: int, b: StblBox)
    requires 0 <= p, stbl_muxed(b)
    ensures ({ let s = wr(d, p, stbl_bytes(b)); let q = p + 8; let size = stbl_len(b) as u64; rel_co64(s, b.co64, child_at(s, q, size, BoxType::Co64Box)) })
{
    let s = wr(d, p, stbl_bytes(b));
    lemma_stbl_boxes(d, p, b);
    lemma_stbl_walk(s, p, b, BoxType::Co64Box);
    if b.co64 is Some { lemma_stbl_child_8(d, p, b); lemma_box_here(s, stbl_c(b, p, 8), co64_len(b.co64->Some_0), 0x636f3634); }
}
pub proof fn lemma_stbl_roundtrip(d: Seq<u8>, p: int, b: StblBox)
    requires 0 <= p, stbl_muxed(b)
    ensures stbl_at(wr(d, p, stbl_bytes(b)), p + 8, stbl_len(b) as u64, stbl_norm(b)),
            box_here(wr(d, p, stbl_bytes(b)), p, stbl_len(b), 0x7374626c)
{
    lemma_stbl_pre(b);
    lemma_stbl_starts(b);
    lemma_hdr_of_bytes(d, p, stbl_bytes(b), stbl_len(b), 0x7374626c);
    lemma_stbl_rel_1(d, p, b);
    lemma_stbl_rel_2(d, p, b);
    lemma_stbl_rel_3(d, p, b);
    lemma_stbl_rel_4(d, p, b);
    lemma_stbl_rel_5(d, p, b);
    lemma_stbl_rel_6(d, p, b);
    lemma_stbl_rel_7(d, p, b);
    lemma_stbl_rel_8(d, p, b);
}

// ---- minf
pub open spec fn minf_norm(b: MinfBox) -> MinfBox { MinfBox { stbl: stbl_norm(b.stbl), ..b } }
pub open spec fn minf_muxed(b: MinfBox) -> bool { minf_wire(b) && stbl_muxed(b.stbl) }
pub open spec fn minf_c(b: MinfBox, p: int, k: int) -> int { p + minf_pre(b, k - 1).len() }
#[verifier::rlimit(200)]
pub proof fn lemma_minf_child_1(d: Seq<u8>, p: int, b: MinfBox)
    requires 0 <= p, minf_muxed(b), b.vmhd is Some
    ensures ({ let s = wr(d, p, minf_bytes(b)); let c = minf_c(b, p, 1); let x = b.vmhd->Some_0;
               box_here(s, c, vmhd_len(x), 0x766d6864) && vmhd_at(s, c, x) })
{
    let all = minf_bytes(b); let s = wr(d, p, all); let c = minf_c(b, p, 1); let x = b.vmhd->Some_0;
    lemma_minf_pre(b);
    lemma_minf_pre_mono(b, 1, 4);
    lemma_vmhd_starts(x);
    assert(minf_pre(b, 1) == minf_pre(b, 0) + vmhd_bytes(x));
    lemma_child_placed(d, p, all, minf_pre(b, 0), vmhd_bytes(x), vmhd_len(x), 0x766d6864);
    lemma_vmhd_roundtrip(s, c, x);
}
#[verifier::rlimit(200)]
pub proof fn lemma_minf_child_2(d: Seq<u8>, p: int, b: MinfBox)
    requires 0 <= p, minf_muxed(b), b.smhd is Some
    ensures ({ let s = wr(d, p, minf_bytes(b)); let c = minf_c(b, p, 2); let x = b.smhd->Some_0;
               box_here(s, c, smhd_len(x), 0x736d6864) && smhd_at(s, c, x) })
{
    let all = minf_bytes(b); let s = wr(d, p, all); let c = minf_c(b, p, 2); let x = b.smhd->Some_0;
    lemma_minf_pre(b);
    lemma_minf_pre_mono(b, 2, 4);
    lemma_smhd_starts(x);
    assert(minf_pre(b, 2) == minf_pre(b, 1) + smhd_bytes(x));
    lemma_child_placed(d, p, all, minf_pre(b, 1), smhd_bytes(x), smhd_len(x), 0x736d6864);
    lemma_smhd_roundtrip(s, c, x);
}
#[verifier::rlimit(200)]
pub proof fn lemma_minf_child_3(d: Seq<u8>, p: int, b: MinfBox)
    requires 0 <= p, minf_muxed(b), true
    ensures ({ let s = wr(d, p, minf_bytes(b)); let c = minf_c(b, p, 3); let x = b.dinf;
               box_here(s, c, dinf_len(x), 0x64696e66) && true })
{
    let all = minf_bytes(b); let s = wr(d, p, all); let c = minf_c(b, p, 3); let x = b.dinf;
    lemma_minf_pre(b);
    lemma_minf_pre_mono(b, 3, 4);
    lemma_dinf_starts(x);
    assert(minf_pre(b, 3) == minf_pre(b, 2) + dinf_bytes(x));
    lemma_child_placed(d, p, all, minf_pre(b, 2), dinf_bytes(x), dinf_len(x), 0x64696e66);
    lemma_dinf_bytes_len(x);
}
#[verifier::rlimit(200)]
pub proof fn lemma_minf_child_4(d: Seq<u8>, p: int, b: MinfBox)
    requires 0 <= p, minf_muxed(b), true
    ensures ({ let s = wr(d, p, minf_bytes(b)); let c = minf_c(b, p, 4); let x = b.stbl;
               box_here(s, c, stbl_len(x), 0x7374626c) && stbl_at(s, c + 8, stbl_len(x) as u64, stbl_norm(x)) })
{
    let all = minf_bytes(b); let s = wr(d, p, all); let c = minf_c(b, p, 4); let x = b.stbl;
    lemma_minf_pre(b);
    lemma_minf_pre_mono(b, 4, 4);
    lemma_stbl_starts(x);
    assert(minf_pre(b, 4) == minf_pre(b, 3) + stbl_bytes(x));
    lemma_child_placed(d, p, all, minf_pre(b, 3), stbl_bytes(x), stbl_len(x), 0x7374626c);
    lemma_stbl_roundtrip(s, c, x);
}
pub open spec fn minf_boxes(s: Seq<u8>, p: int, b: MinfBox) -> bool {
    (b.vmhd matches Some(x) ==> box_here(s, minf_c(b, p, 1), vmhd_len(x), 0x766d6864))
    && (b.smhd matches Some(x) ==> box_here(s, minf_c(b, p, 2), smhd_len(x), 0x736d6864))
    && box_here(s, minf_c(b, p, 3), dinf_len(b.dinf), 0x64696e66)
    && box_here(s, minf_c(b, p, 4), stbl_len(b.stbl), 0x7374626c)
}
pub proof fn lemma_minf_walk(s: Seq<u8>, p: int, b: MinfBox, ty: BoxType)
    requires 0 <= p, minf_muxed(b), minf_boxes(s, p, b)
    ensures child_at(s, p + 8, minf_len(b) as u64, ty) == (if ty == BoxType::StblBox { Some(minf_c(b, p, 4)) } else { (if ty == BoxType::DinfBox { Some(minf_c(b, p, 3)) } else { (if ty == BoxType::SmhdBox && b.smhd is Some { Some(minf_c(b, p, 2)) } else { (if ty == BoxType::VmhdBox && b.vmhd is Some { Some(minf_c(b, p, 1)) } else { None::<int> }) }) }) })
{
    lemma_minf_pre(b);
    let end = p + minf_len(b);
    if b.vmhd is Some { lemma_box_here(s, minf_c(b, p, 1), vmhd_len(b.vmhd->Some_0), 0x766d6864); }
    if b.smhd is Some { lemma_box_here(s, minf_c(b, p, 2), smhd_len(b.smhd->Some_0), 0x736d6864); }
    lemma_box_here(s, minf_c(b, p, 3), dinf_len(b.dinf), 0x64696e66);
    lemma_box_here(s, minf_c(b, p, 4), stbl_len(b.stbl), 0x7374626c);
    lemma_chain8(s, ty, end, minf_c(b, p, 1), minf_c(b, p, 2), minf_c(b, p, 3), minf_c(b, p, 4), end, end, end, end, end, b.vmhd is Some, b.smhd is Some, true, true, false, false, false, false,
        BoxType::VmhdBox, BoxType::SmhdBox, BoxType::DinfBox, BoxType::StblBox, BoxType::FreeBox, BoxType::FreeBox, BoxType::FreeBox, BoxType::FreeBox);
}
#[verifier::rlimit(200)]
pub proof fn lemma_minf_boxes(d: Seq<u8>, p: int, b: MinfBox)
    requires 0 <= p, minf_muxed(b)
    ensures minf_boxes(wr(d, p, minf_bytes(b)), p, b)
{
    if b.vmhd is Some { lemma_minf_child_1(d, p, b); }
    if b.smhd is Some { lemma_minf_child_2(d, p, b); }
    lemma_minf_child_3(d, p, b);
    lemma_minf_child_4(d, p, b);
}
#[verifier::rlimit(200)]
pub proof fn lemma_minf_rel_1(d: Seq<u8>, p: int, b: MinfBox)
    requires 0 <= p, minf_muxed(b)
    ensures ({ let s = wr(d, p, minf_bytes(b)); let q = p + 8; let size = minf_len(b) as u64; rel_vmhd(s, b.vmhd, child_at(s, q, size, BoxType::VmhdBox)) })
{
    let s = wr(d, p, minf_bytes(b));
    lemma_minf_boxes(d, p, b);
    lemma_minf_walk(s, p, b, BoxType::VmhdBox);
    if b.vmhd is Some { lemma_minf_child_1(d, p, b); lemma_box_here(s, minf_c(b, p, 1), vmhd_len(b.vmhd->Some_0), 0x766d6864); }
}
#[verifier::rlimit(200)]
pub proof fn lemma_minf_rel_2(d: Seq<u8>, p: int, b: MinfBox)
    requires 0 <= p, minf_muxed(b)
    ensures ({ let s = wr(d, p, minf_bytes(b)); let q = p + 8; let size = minf_len(b) as u64; rel_smhd(s, b.smhd, child_at(s, q, size, BoxType::SmhdBox)) })
{
    let s = wr(d, p, minf_bytes(b));
    lemma_minf_boxes(d, p, b);
    lemma_minf_walk(s, p, b, BoxType::SmhdBox);
    if b.smhd is Some { lemma_minf_child_2(d, p, b); lemma_box_here(s, minf_c(b, p, 2), smhd_len(b.smhd->Some_0), 0x736d6864); }
}
#[verifier::rlimit(200)]
pub proof fn lemma_minf_rel_3(d: Seq<u8>, p: int, b: MinfBox)
    requires 0 <= p, minf_muxed(b)
    ensures ({ let s = wr(d, p, minf_bytes(b)); let q = p + 8; let size = minf_len(b) as u64; child_at(s, q, size, BoxType::DinfBox) is Some })
{
    let s = wr(d, p, minf_bytes(b));
    lemma_minf_boxes(d, p, b);
    lemma_minf_walk(s, p, b, BoxType::DinfBox);
}
#[verifier::rlimit(200)]
pub proof fn lemma_minf_rel_4(d: Seq<u8>, p: int, b: MinfBox)
    requires 0 <= p, minf_muxed(b)
    ensures ({ let s = wr(d, p, minf_bytes(b)); let q = p + 8; let size = minf_len(b) as u64; rel_stbl(s, Some(stbl_norm(b.stbl)), child_at(s, q, size, BoxType::StblBox)) })
{
    let s = wr(d, p, minf_bytes(b));
    lemma_minf_boxes(d, p, b);
    lemma_minf_walk(s, p, b, BoxType::StblBox);
    lemma_minf_child_4(d, p, b); lemma_box_here(s, minf_c(b, p, 4), stbl_len(b.stbl), 0x7374626c);
}
pub proof fn lemma_minf_roundtrip(d: Seq<u8>, p: int, b: MinfBox)
    requires 0 <= p, minf_muxed(b)
    ensures minf_at(wr(d, p, minf_bytes(b)), p + 8, minf_len(b) as u64, minf_norm(b)),
            box_here(wr(d, p, minf_bytes(b)), p, minf_len(b), 0x6d696e66)
{
    lemma_minf_pre(b);
    lemma_minf_starts(b);
    lemma_hdr_of_bytes(d, p, minf_bytes(b), minf_len(b), 0x6d696e66);
    lemma_minf_rel_1(d, p, b);
    lemma_minf_rel_2(d, p, b);
    lemma_minf_rel_3(d, p, b);
    lemma_minf_rel_4(d, p, b);
}

// ---- mdia
pub open spec fn mdia_norm(b: MdiaBox) -> MdiaBox { MdiaBox { minf: minf_norm(b.minf), ..b } }
pub open spec fn mdia_muxed(b: MdiaBox) -> bool { mdia_wire(b) && minf_muxed(b.minf) && b.mdhd.language@ == lang_string_spec(lang_code_spec(b.mdhd.language@)) }
pub open spec fn mdia_c(b: MdiaBox, p: int, k: int) -> int { p + mdia_pre(b, k - 1).len() }
#[verifier::rlimit(200)]
pub proof fn lemma_mdia_child_1(d: Seq<u8>, p: int, b: MdiaBox)
    requires 0 <= p, mdia_muxed(b), true
    ensures ({ let s = wr(d, p, mdia_bytes(b)); let c = mdia_c(b, p, 1); let x = b.mdhd;
               box_here(s, c, mdhd_len(x), 0x6d646864) && mdhd_at(s, c, x) })
{
    let all = mdia_bytes(b); let s = wr(d, p, all); let c = mdia_c(b, p, 1); let x = b.mdhd;
    lemma_mdia_pre(b);
    lemma_mdia_pre_mono(b, 1, 3);
    lemma_mdhd_starts(x);
    assert(mdia_pre(b, 1) == mdia_pre(b, 0) + mdhd_bytes(x));
    lemma_child_placed(d, p, all, mdia_pre(b, 0), mdhd_bytes(x), mdhd_len(x), 0x6d646864);
    lemma_mdhd_roundtrip(s, c, x);
}
#[verifier::rlimit(200)]
pub proof fn lemma_mdia_child_2(d: Seq<u8>, p: int, b: MdiaBox)
    requires 0 <= p, mdia_muxed(b), true
    ensures ({ let s = wr(d, p, mdia_bytes(b)); let c = mdia_c(b, p, 2); let x = b.hdlr;
               box_here(s, c, hdlr_len(x), 0x68646c72) && hdlr_at(s, c + 8, x) })
{
    let all = mdia_bytes(b); let s = wr(d, p, all); let c = mdia_c(b, p, 2); let x = b.hdlr;
    lemma_mdia_pre(b);
    lemma_mdia_pre_mono(b, 2, 3);
    lemma_hdlr_starts(x);
    assert(mdia_pre(b, 2) == mdia_pre(b, 1) + hdlr_bytes(x));
    lemma_child_placed(d, p, all, mdia_pre(b, 1), hdlr_bytes(x), hdlr_len(x), 0x68646c72);
    lemma_hdlr_roundtrip(s, c, x); lemma_hdlr_bytes_len(x);
}
#[verifier::rlimit(200)]
pub proof fn lemma_mdia_child_3(d: Seq<u8>, p: int, b: MdiaBox)
    requires 0 <= p, mdia_muxed(b), true
    ensures ({ let s = wr(d, p, mdia_bytes(b)); let c = mdia_c(b, p, 3); let x = b.minf;
               box_here(s, c, minf_len(x), 0x6d696e66) && minf_at(s, c + 8, minf_len(x) as u64, minf_norm(x)) })
{
    let all = mdia_bytes(b); let s = wr(d, p, all); let c = mdia_c(b, p, 3); let x = b.minf;
    lemma_mdia_pre(b);
    lemma_mdia_pre_mono(b, 3, 3);
    lemma_minf_starts(x);
    assert(mdia_pre(b, 3) == mdia_pre(b, 2) + minf_bytes(x));
    lemma_child_placed(d, p, all, mdia_pre(b, 2), minf_bytes(x), minf_len(x), 0x6d696e66);
    lemma_minf_roundtrip(s, c, x);
}
pub open spec fn mdia_boxes(s: Seq<u8>, p: int, b: MdiaBox) -> bool {
    box_here(s, mdia_c(b, p, 1), mdhd_len(b.mdhd), 0x6d646864)
    && box_here(s, mdia_c(b, p, 2), hdlr_len(b.hdlr), 0x68646c72)
    && box_here(s, mdia_c(b, p, 3), minf_len(b.minf), 0x6d696e66)
}
pub proof fn lemma_mdia_walk(s: Seq<u8>, p: int, b: MdiaBox, ty: BoxType)
    requires 0 <= p, mdia_muxed(b), mdia_boxes(s, p, b)
    ensures child_at(s, p + 8, mdia_len(b) as u64, ty) == (if ty == BoxType::MinfBox { Some(mdia_c(b, p, 3)) } else { (if ty == BoxType::HdlrBox { Some(mdia_c(b, p, 2)) } else { (if ty == BoxType::MdhdBox { Some(mdia_c(b, p, 1)) } else { None::<int> }) }) })
{
    lemma_mdia_pre(b);
    let end = p + mdia_len(b);
    lemma_box_here(s, mdia_c(b, p, 1), mdhd_len(b.mdhd), 0x6d646864);
    lemma_box_here(s, mdia_c(b, p, 2), hdlr_len(b.hdlr), 0x68646c72);
    lemma_box_here(s, mdia_c(b, p, 3), minf_len(b.minf), 0x6d696e66);
    lemma_chain8(s, ty, end, mdia_c(b, p, 1), mdia_c(b, p, 2), mdia_c(b, p, 3), end, end, end, end, end, end, true, true, true, false, false, false, false, false,
        BoxType::MdhdBox, BoxType::HdlrBox, BoxType::MinfBox, BoxType::FreeBox, BoxType::FreeBox, BoxType::FreeBox, BoxType::FreeBox, BoxType::FreeBox);
}
#[verifier::rlimit(200)]
pub proof fn lemma_mdia_boxes(d: Seq<u8>, p: int, b: MdiaBox)
    requires 0 <= p, mdia_muxed(b)
    ensures mdia_boxes(wr(d, p, mdia_bytes(b)), p, b)
{
    lemma_mdia_child_1(d, p, b);
    lemma_mdia_child_2(d, p, b);
    lemma_mdia_child_3(d, p, b);
}
#[verifier::rlimit(200)]
pub proof fn lemma_mdia_rel_1(d: Seq<u8>, p: int, b: MdiaBox)
    requires 0 <= p, mdia_muxed(b)
    ensures ({ let s = wr(d, p, mdia_bytes(b)); let q = p + 8; let size = mdia_len(b) as u64; rel_mdhd(s, Some(b.mdhd), child_at(s, q, size, BoxType::MdhdBox)) })
{
    let s = wr(d, p, mdia_bytes(b));
    lemma_mdia_boxes(d, p, b);
    lemma_mdia_walk(s, p, b, BoxType::MdhdBox);
    lemma_mdia_child_1(d, p, b); lemma_box_here(s, mdia_c(b, p, 1), mdhd_len(b.mdhd), 0x6d646864);
}
#[verifier::rlimit(200)]
pub proof fn lemma_mdia_rel_2(d: Seq<u8>, p: int, b: MdiaBox)
    requires 0 <= p, mdia_muxed(b)
    ensures ({ let s = wr(d, p, mdia_bytes(b)); let q = p + 8; let size = mdia_len(b) as u64; rel_hdlr(s, Some(b.hdlr), child_at(s, q, size, BoxType::HdlrBox)) })
{
    let s = wr(d, p, mdia_bytes(b));
    lemma_mdia_boxes(d, p, b);
    lemma_mdia_walk(s, p, b, BoxType::HdlrBox);
    lemma_mdia_child_2(d, p, b); lemma_box_here(s, mdia_c(b, p, 2), hdlr_len(b.hdlr), 0x68646c72);
}
#[verifier::rlimit(200)]
pub proof fn lemma_mdia_rel_3(d: Seq<u8>, p: int, b: MdiaBox)
    requires 0 <= p, mdia_muxed(b)
    ensures ({ let s = wr(d, p, mdia_bytes(b)); let q = p + 8; let size = mdia_len(b) as u64; rel_minf(s, Some(minf_norm(b.minf)), child_at(s, q, size, BoxType::MinfBox)) })
{
    let s = wr(d, p, mdia_bytes(b));
    lemma_mdia_boxes(d, p, b);
    lemma_mdia_walk(s, p, b, BoxType::MinfBox);
    lemma_mdia_child_3(d, p, b); lemma_box_here(s, mdia_c(b, p, 3), minf_len(b.minf), 0x6d696e66);
}
pub proof fn lemma_mdia_roundtrip(d: Seq<u8>, p: int, b: MdiaBox)
    requires 0 <= p, mdia_muxed(b)
    ensures mdia_at(wr(d, p, mdia_bytes(b)), p + 8, mdia_len(b) as u64, mdia_norm(b)),
            box_here(wr(d, p, mdia_bytes(b)), p, mdia_len(b), 0x6d646961)
{
    lemma_mdia_pre(b);
    lemma_mdia_starts(b);
    lemma_hdr_of_bytes(d, p, mdia_bytes(b), mdia_len(b), 0x6d646961);
    lemma_mdia_rel_1(d, p, b);
    lemma_mdia_rel_2(d, p, b);
    lemma_mdia_rel_3(d, p, b);
}

// ---- trak
pub open spec fn trak_norm(b: TrakBox) -> TrakBox { TrakBox { mdia: mdia_norm(b.mdia), ..b } }
pub open spec fn trak_muxed(b: TrakBox) -> bool { trak_wire(b) && mdia_muxed(b.mdia) }
pub open spec fn trak_c(b: TrakBox, p: int, k: int) -> int { p + trak_pre(b, k - 1).len() }
#[verifier::rlimit(200)]
pub proof fn lemma_trak_child_1(d: Seq<u8>, p: int, b: TrakBox)
    requires 0 <= p, trak_muxed(b), true
    ensures ({ let s = wr(d, p, trak_bytes(b)); let c = trak_c(b, p, 1); let x = b.tkhd;
               box_here(s, c, tkhd_len(x), 0x746b6864) && tkhd_at(s, c, x) })
{
    let all = trak_bytes(b); let s = wr(d, p, all); let c = trak_c(b, p, 1); let x = b.tkhd;
    lemma_trak_pre(b);
    lemma_trak_pre_mono(b, 1, 4);
    lemma_tkhd_starts(x);
    assert(trak_pre(b, 1) == trak_pre(b, 0) + tkhd_bytes(x));
    lemma_child_placed(d, p, all, trak_pre(b, 0), tkhd_bytes(x), tkhd_len(x), 0x746b6864);
    lemma_tkhd_roundtrip(s, c, x);
}
#[verifier::rlimit(200)]
pub proof fn lemma_trak_child_4(d: Seq<u8>, p: int, b: TrakBox)
    requires 0 <= p, trak_muxed(b), true
    ensures ({ let s = wr(d, p, trak_bytes(b)); let c = trak_c(b, p, 4); let x = b.mdia;
               box_here(s, c, mdia_len(x), 0x6d646961) && mdia_at(s, c + 8, mdia_len(x) as u64, mdia_norm(x)) })
{
    let all = trak_bytes(b); let s = wr(d, p, all); let c = trak_c(b, p, 4); let x = b.mdia;
    lemma_trak_pre(b);
    lemma_trak_pre_mono(b, 4, 4);
    lemma_mdia_starts(x);
    assert(trak_pre(b, 4) == trak_pre(b, 3) + mdia_bytes(x));
    lemma_child_placed(d, p, all, trak_pre(b, 3), mdia_bytes(x), mdia_len(x), 0x6d646961);
    lemma_mdia_roundtrip(s, c, x);
}
pub open spec fn trak_boxes(s: Seq<u8>, p: int, b: TrakBox) -> bool {
    box_here(s, trak_c(b, p, 1), tkhd_len(b.tkhd), 0x746b6864)
    && box_here(s, trak_c(b, p, 4), mdia_len(b.mdia), 0x6d646961)
}
pub proof fn lemma_trak_walk(s: Seq<u8>, p: int, b: TrakBox, ty: BoxType)
    requires 0 <= p, trak_muxed(b), trak_boxes(s, p, b)
    ensures child_at_m(s, p + 8, trak_len(b) as u64, ty) == (if ty == BoxType::MdiaBox { Some(trak_c(b, p, 4)) } else { (if ty == BoxType::TkhdBox { Some(trak_c(b, p, 1)) } else { None::<int> }) })
{
    lemma_trak_pre(b);
    let end = p + trak_len(b);
    lemma_box_here(s, trak_c(b, p, 1), tkhd_len(b.tkhd), 0x746b6864);
    lemma_box_here(s, trak_c(b, p, 4), mdia_len(b.mdia), 0x6d646961);
    lemma_chain8_m(s, ty, end, trak_c(b, p, 1), trak_c(b, p, 4), end, end, end, end, end, end, end, true, true, false, false, false, false, false, false,
        BoxType::TkhdBox, BoxType::MdiaBox, BoxType::FreeBox, BoxType::FreeBox, BoxType::FreeBox, BoxType::FreeBox, BoxType::FreeBox, BoxType::FreeBox);
}
#[verifier::rlimit(200)]
pub proof fn lemma_trak_boxes(d: Seq<u8>, p: int, b: TrakBox)
    requires 0 <= p, trak_muxed(b)
    ensures trak_boxes(wr(d, p, trak_bytes(b)), p, b)
{
    lemma_trak_child_1(d, p, b);
    lemma_trak_child_4(d, p, b);
}
#[verifier::rlimit(200)]
pub proof fn lemma_trak_rel_1(d: Seq<u8>, p: int, b: TrakBox)
    requires 0 <= p, trak_muxed(b)
    ensures ({ let s = wr(d, p, trak_bytes(b)); let q = p + 8; let size = trak_len(b) as u64; rel_tkhd(s, Some(b.tkhd), child_at_m(s, q, size, BoxType::TkhdBox)) })
{
    let s = wr(d, p, trak_bytes(b));
    lemma_trak_boxes(d, p, b);
    lemma_trak_walk(s, p, b, BoxType::TkhdBox);
    lemma_trak_child_1(d, p, b); lemma_box_here(s, trak_c(b, p, 1), tkhd_len(b.tkhd), 0x746b6864);
}
#[verifier::rlimit(200)]
pub proof fn lemma_trak_rel_2(d: Seq<u8>, p: int, b: TrakBox)
    requires 0 <= p, trak_muxed(b)
    ensures ({ let s = wr(d, p, trak_bytes(b)); let q = p + 8; let size = trak_len(b) as u64; child_at_m(s, q, size, BoxType::EdtsBox) is None })
{
    let s = wr(d, p, trak_bytes(b));
    lemma_trak_boxes(d, p, b);
    lemma_trak_walk(s, p, b, BoxType::EdtsBox);
}
#[verifier::rlimit(200)]
pub proof fn lemma_trak_rel_3(d: Seq<u8>, p: int, b: TrakBox)
    requires 0 <= p, trak_muxed(b)
    ensures ({ let s = wr(d, p, trak_bytes(b)); let q = p + 8; let size = trak_len(b) as u64; child_at_m(s, q, size, BoxType::MetaBox) is None })
{
    let s = wr(d, p, trak_bytes(b));
    lemma_trak_boxes(d, p, b);
    lemma_trak_walk(s, p, b, BoxType::MetaBox);
}
#[verifier::rlimit(200)]
pub proof fn lemma_trak_rel_4(d: Seq<u8>, p: int, b: TrakBox)
    requires 0 <= p, trak_muxed(b)
    ensures ({ let s = wr(d, p, trak_bytes(b)); let q = p + 8; let size = trak_len(b) as u64; rel_mdia(s, Some(mdia_norm(b.mdia)), child_at_m(s, q, size, BoxType::MdiaBox)) })
{
    let s = wr(d, p, trak_bytes(b));
    lemma_trak_boxes(d, p, b);
    lemma_trak_walk(s, p, b, BoxType::MdiaBox);
    lemma_trak_child_4(d, p, b); lemma_box_here(s, trak_c(b, p, 4), mdia_len(b.mdia), 0x6d646961);
}
pub proof fn lemma_trak_roundtrip(d: Seq<u8>, p: int, b: TrakBox)
    requires 0 <= p, trak_muxed(b)
    ensures trak_at(wr(d, p, trak_bytes(b)), p + 8, trak_len(b) as u64, trak_norm(b)),
            box_here(wr(d, p, trak_bytes(b)), p, trak_len(b), 0x7472616b)
{
    lemma_trak_pre(b);
    lemma_trak_starts(b);
    lemma_hdr_of_bytes(d, p, trak_bytes(b), trak_len(b), 0x7472616b);
    lemma_trak_rel_1(d, p, b);
    lemma_trak_rel_2(d, p, b);
    lemma_trak_rel_3(d, p, b);
    lemma_trak_rel_4(d, p, b);
}

// ---- moov: mvhd, then the tracks (hand-written: induction over the track list)
pub open spec fn moov_muxed(b: MoovBox) -> bool {
    moov_wire(b) && b.mvex is None && forall|i: int| 0 <= i < b.traks@.len() ==> trak_muxed(#[trigger] b.traks@[i])
}
/// position of track i in the reference bytes written at p
pub open spec fn moov_t(b: MoovBox, p: int, i: int) -> int { p + 8 + mvhd_len(b.mvhd) + traks_len(b.traks@, i) }
pub open spec fn moov_track_boxes(s: Seq<u8>, p: int, b: MoovBox) -> bool {
    forall|i: int| 0 <= i < b.traks@.len() ==> box_here(s, #[trigger] moov_t(b, p, i), trak_len(b.traks@[i]), 0x7472616b)
}
pub proof fn lemma_traks_bytes_mono(v: Seq<TrakBox>, j: int, k: int)
    requires 0 <= j <= k <= v.len()
    ensures is_prefix(traks_bytes(v, j), traks_bytes(v, k))
    decreases k
{
    if j < k { lemma_traks_bytes_mono(v, j, k - 1); }
}
pub proof fn lemma_prefix_left(a: Seq<u8>, x: Seq<u8>, y: Seq<u8>)
    requires is_prefix(x, y)
    ensures is_prefix(a + x, a + y)
{
    assert forall|i: int| 0 <= i < (a + x).len() implies (a + x)[i] == (a + y)[i] by {
        if i >= a.len() { assert((a + x)[i] == x[i - a.len()]); assert((a + y)[i] == y[i - a.len()]); }
    }
}
#[verifier::rlimit(200)]
pub proof fn lemma_moov_trak(d: Seq<u8>, p: int, b: MoovBox, i: int)
    requires 0 <= p, moov_muxed(b), 0 <= i < b.traks@.len()
    ensures ({ let s = wr(d, p, moov_bytes(b)); let c = moov_t(b, p, i); let x = b.traks@[i];
               box_here(s, c, trak_len(x), 0x7472616b) && trak_at(s, c + 8, trak_len(x) as u64, trak_norm(x)) })
{
    let v = b.traks@; let n = v.len() as int; let x = v[i];
    let all = moov_bytes(b); let s = wr(d, p, all); let c = moov_t(b, p, i);
    assert(trak_muxed(x));
    lemma_moov_bytes_len(b);
    lemma_traks_bytes_len(v, i);
    lemma_trak_pre(x);
    lemma_trak_starts(x);
    let pre = moov_head(b) + traks_bytes(v, i);
    assert(all =~= moov_head(b) + traks_bytes(v, n));
    assert(pre + trak_bytes(x) =~= moov_head(b) + traks_bytes(v, i + 1));
    lemma_traks_bytes_mono(v, i + 1, n);
    lemma_prefix_left(moov_head(b), traks_bytes(v, i + 1), traks_bytes(v, n));
    lemma_child_placed(d, p, all, pre, trak_bytes(x), trak_len(x), 0x7472616b);
    lemma_trak_roundtrip(s, c, x);
}
#[verifier::rlimit(200)]
pub proof fn lemma_moov_mvhd(d: Seq<u8>, p: int, b: MoovBox)
    requires 0 <= p, moov_muxed(b)
    ensures ({ let s = wr(d, p, moov_bytes(b)); box_here(s, p + 8, mvhd_len(b.mvhd), 0x6d766864) && mvhd_at(s, p + 8, b.mvhd)
               && box_here(s, p, moov_len(b), 0x6d6f6f76) })
{
    broadcast use lemma_be_bytes_len;
    let v = b.traks@; let n = v.len() as int;
    let all = moov_bytes(b); let s = wr(d, p, all);
    let h = hdr_bytes(moov_len(b) as u64, 0x6d6f6f76);
    lemma_moov_bytes_len(b);
    lemma_mvhd_pre_len(b.mvhd);
    lemma_mvhd_starts(b.mvhd);
    assert(all =~= (h + mvhd_bytes(b.mvhd)) + traks_bytes(v, n));
    lemma_prefix_concat(h + mvhd_bytes(b.mvhd), traks_bytes(v, n));
    lemma_child_placed(d, p, all, h, mvhd_bytes(b.mvhd), mvhd_len(b.mvhd), 0x6d766864);
    lemma_mvhd_roundtrip(s, p + 8, b.mvhd);
    lemma_prefix_concat(h, mvhd_bytes(b.mvhd));
    lemma_prefix_trans(h, h + mvhd_bytes(b.mvhd), all);
    lemma_hdr_of_bytes(d, p, all, moov_len(b), 0x6d6f6f76);
}
/// the walk over the run of track boxes leaves every other type's accumulator alone ...
pub proof fn lemma_moov_walk_other(s: Seq<u8>, p: int, b: MoovBox, k: int, ty: BoxType, acc: Option<int>)
    requires moov_muxed(b), moov_track_boxes(s, p, b), 0 <= k <= b.traks@.len(), ty != BoxType::TrakBox
    ensures last_of_m(s, moov_t(b, p, k), moov_t(b, p, b.traks@.len() as int), ty, acc) == acc
    decreases b.traks@.len() - k
{
    let n = b.traks@.len() as int;
    if k < n {
        assert(trak_wire(b.traks@[k]));
        lemma_box_here(s, moov_t(b, p, k), trak_len(b.traks@[k]), 0x7472616b);
        assert(moov_t(b, p, k + 1) == moov_t(b, p, k) + trak_len(b.traks@[k]));
        lemma_traks_len_mono(b.traks@, k + 1, n);
        lemma_moov_walk_other(s, p, b, k + 1, ty, acc);
    }
}
/// ... and collects the positions of the tracks in order
pub open spec fn moov_offs(b: MoovBox, p: int, k: int) -> Seq<int> { Seq::new((b.traks@.len() - k) as nat, |j: int| moov_t(b, p, k + j)) }
pub proof fn lemma_moov_walk_traks(s: Seq<u8>, p: int, b: MoovBox, k: int, acc: Seq<int>)
    requires moov_muxed(b), moov_track_boxes(s, p, b), 0 <= k <= b.traks@.len()
    ensures all_of_m(s, moov_t(b, p, k), moov_t(b, p, b.traks@.len() as int), BoxType::TrakBox, acc) == acc + moov_offs(b, p, k)
    decreases b.traks@.len() - k
{
    let n = b.traks@.len() as int;
    if k < n {
        assert(trak_wire(b.traks@[k]));
        lemma_box_here(s, moov_t(b, p, k), trak_len(b.traks@[k]), 0x7472616b);
        assert(moov_t(b, p, k + 1) == moov_t(b, p, k) + trak_len(b.traks@[k]));
        lemma_traks_len_mono(b.traks@, k + 1, n);
        lemma_moov_walk_traks(s, p, b, k + 1, acc.push(moov_t(b, p, k)));
        assert(acc.push(moov_t(b, p, k)) + moov_offs(b, p, k + 1) =~= acc + moov_offs(b, p, k));
    } else {
        assert(acc + moov_offs(b, p, k) =~= acc);
    }
}
/// what the reader's relation says about a movie box b2 that is b with every track normalised (9.2: avcC length size)
pub open spec fn moov_same_norm(b: MoovBox, b2: MoovBox) -> bool {
    &&& b2.mvhd == b.mvhd && b2.mvex is None && b2.meta is None && b2.udta is None
    &&& b2.traks@.len() == b.traks@.len() && forall|i: int| 0 <= i < b.traks@.len() ==> #[trigger] b2.traks@[i] == trak_norm(b.traks@[i])
}
#[verifier::rlimit(300)]
pub proof fn lemma_moov_roundtrip(d: Seq<u8>, p: int, b: MoovBox, b2: MoovBox)
    requires 0 <= p, moov_muxed(b), moov_same_norm(b, b2)
    ensures moov_at(wr(d, p, moov_bytes(b)), p + 8, moov_len(b) as u64, b2), box_here(wr(d, p, moov_bytes(b)), p, moov_len(b), 0x6d6f6f76)
{
    let s = wr(d, p, moov_bytes(b)); let n = b.traks@.len() as int;
    let q = p + 8; let end = p + moov_len(b);
    lemma_moov_mvhd(d, p, b);
    assert forall|i: int| 0 <= i < n implies box_here(s, #[trigger] moov_t(b, p, i), trak_len(b.traks@[i]), 0x7472616b)
        && trak_at(s, moov_t(b, p, i) + 8, trak_len(b.traks@[i]) as u64, trak_norm(b.traks@[i])) by { lemma_moov_trak(d, p, b, i); }
    assert(moov_track_boxes(s, p, b));
    lemma_box_here(s, q, mvhd_len(b.mvhd), 0x6d766864);
    assert(end == moov_t(b, p, n) && q + mvhd_len(b.mvhd) == moov_t(b, p, 0));
    lemma_traks_len_mono(b.traks@, 0, n);
    assert forall|i: int| 0 <= i < n implies trak_len(#[trigger] b.traks@[i]) >= 0 by { assert(trak_wire(b.traks@[i])); }
    // the first child is mvhd; then the tracks
    lemma_moov_walk_other(s, p, b, 0, BoxType::MvhdBox, Some(q));
    lemma_moov_walk_other(s, p, b, 0, BoxType::MvexBox, None);
    lemma_moov_walk_other(s, p, b, 0, BoxType::MetaBox, None);
    lemma_moov_walk_other(s, p, b, 0, BoxType::UdtaBox, None);
    lemma_moov_walk_traks(s, p, b, 0, Seq::empty());
    assert(Seq::<int>::empty() + moov_offs(b, p, 0) =~= moov_offs(b, p, 0));
    assert(child_at_m(s, q, moov_len(b) as u64, BoxType::MvhdBox) == Some(q));
    assert(child_at_m(s, q, moov_len(b) as u64, BoxType::MvexBox) is None);
    assert(child_at_m(s, q, moov_len(b) as u64, BoxType::MetaBox) is None);
    assert(child_at_m(s, q, moov_len(b) as u64, BoxType::UdtaBox) is None);
    assert(all_of_m(s, q, end, BoxType::TrakBox, Seq::empty()) == moov_offs(b, p, 0));
    assert forall|i: int| 0 <= i < n implies trak_at(s, child_q(s, moov_offs(b, p, 0)[i]), child_size(s, moov_offs(b, p, 0)[i]), #[trigger] b2.traks@[i]) by {
        lemma_box_here(s, moov_t(b, p, i), trak_len(b.traks@[i]), 0x7472616b);
    }
}

// ---- the finished file: ftyp, the media data (32- or 64-bit size form), the movie box written last (the shape mw_final describes)
pub proof fn lemma_ftyp_starts_n(b: FtypBox, n: int)
    requires 0 <= n
    ensures is_prefix(hdr_bytes(ftyp_len(b) as u64, 0x66747970), ftyp_prefix(b, n))
    decreases n
{
    if n > 0 { lemma_ftyp_starts_n(b, n - 1); }
}
/// what the media-data header says after update_mdat_size: `size` bytes from mdat_pos, compact or 64-bit form
pub open spec fn mdat_hdr_ok(x: Seq<u8>, mdat_pos: int, size: int) -> bool {
    if size > 0xffff_ffff { be32(x, mdat_pos) == 1 && be32(x, mdat_pos + 4) == 0x6d646174 && be64(x, mdat_pos + 8) == size }
    else { be32(x, mdat_pos) == size && be32(x, mdat_pos + 4) == 0x6d646174 }
}
/// one step of the top-level walk
pub proof fn lemma_top_last_of_step(s: Seq<u8>, p: int, end: int, ty: BoxType, acc: Option<int>)
    requires p < end, child_size(s, p) != 0, child_next(s, p) > p
    ensures top_last_of(s, p, end, ty, acc) == top_last_of(s, child_next(s, p), end, ty, if child_name(s, p) == ty { Some(p) } else { acc })
{}
#[verifier::rlimit(300)]
pub proof fn lemma_file_roundtrip(x: Seq<u8>, start: int, mdat_pos: int, pn: int, ftyp: FtypBox, moov: MoovBox, moov2: MoovBox)
    requires
        0 <= start, ftyp_wire(ftyp), mdat_pos == start + ftyp_len(ftyp), mdat_pos + 16 <= pn, x.len() == pn, pn < 0x4000_0000_0000_0000,
        forall|j: int| 0 <= j < ftyp_bytes(ftyp).len() ==> x[start + j] == ftyp_bytes(ftyp)[j],
        mdat_hdr_ok(x, mdat_pos, pn - mdat_pos),
        moov_muxed(moov), moov_same_norm(moov, moov2)
    ensures ({ let out = wr(x, pn, moov_bytes(moov));
               &&& out.len() == pn + moov_len(moov)
               &&& rel_moov(out, Some(moov2), top_last_of(out, start, out.len() as int, BoxType::MoovBox, None))
               &&& rel_ftyp(out, Some(ftyp), top_last_of(out, start, out.len() as int, BoxType::FtypBox, None)) })
{
    broadcast use lemma_wr_len, lemma_be_bytes_len, lemma_ftyp_prefix_len;
    let mb = moov_bytes(moov);
    let out = wr(x, pn, mb);
    lemma_moov_bytes_len(moov);
    lemma_moov_roundtrip(x, pn, moov, moov2);
    let end = pn + moov_len(moov);
    assert(out.len() == end);
    // bytes before pn are those of x
    assert forall|i: int| 0 <= i < pn implies out[i] == x[i] by {}
    // ftyp at start
    let fb = ftyp_bytes(ftyp);
    assert(fb.len() == ftyp_len(ftyp));
    assert forall|j: int| 0 <= j < fb.len() implies out[start + j] == fb[j] by {}
    lemma_wr_same(out, start, fb);
    lemma_ftyp_roundtrip(out, start, ftyp);
    lemma_ftyp_starts_n(ftyp, ftyp.compatible_brands@.len() as int);
    lemma_hdr_of_bytes(out, start, fb, ftyp_len(ftyp), 0x66747970);
    assert(box_here(out, start, ftyp_len(ftyp), 0x66747970));
    lemma_box_here(out, start, ftyp_len(ftyp), 0x66747970);
    // mdat at mdat_pos, up to pn
    let msz = pn - mdat_pos;
    assert(be32(out, mdat_pos) == be32(x, mdat_pos) && be32(out, mdat_pos + 4) == be32(x, mdat_pos + 4)
           && be32(out, mdat_pos + 8) == be32(x, mdat_pos + 8) && be32(out, mdat_pos + 12) == be32(x, mdat_pos + 12));
    assert(child_next(out, mdat_pos) == pn && child_size(out, mdat_pos) != 0 && child_name(out, mdat_pos) == BoxType::MdatBox);
    // moov at pn
    lemma_box_here(out, pn, moov_len(moov), 0x6d6f6f76);
    // the two walks
    lemma_top_last_of_step(out, start, end, BoxType::MoovBox, None);
    lemma_top_last_of_step(out, mdat_pos, end, BoxType::MoovBox, None);
    lemma_top_last_of_step(out, pn, end, BoxType::MoovBox, None);
    assert(top_last_of(out, start, end, BoxType::MoovBox, None) == Some(pn));
    lemma_top_last_of_step(out, start, end, BoxType::FtypBox, None);
    lemma_top_last_of_step(out, mdat_pos, end, BoxType::FtypBox, Some(start));
    lemma_top_last_of_step(out, pn, end, BoxType::FtypBox, Some(start));
    assert(top_last_of(out, start, end, BoxType::FtypBox, None) == Some(start));
}

/// update_mdat_size on a stream whose media-data header placeholder is in place (type 'mdat' at mdat_pos + 4, 16 bytes reserved)
/// yields the header that the file lemma asks for, and touches nothing outside those 16 bytes
pub proof fn lemma_mdat_patch(dd: Seq<u8>, mdat_pos: int, size: int)
    requires 0 <= mdat_pos, mdat_pos + 16 <= dd.len(), 0 <= size < 0x1_0000_0000_0000_0000, be32(dd, mdat_pos + 4) == 0x6d646174
    ensures ({ let x = mdat_size_patch(dd, mdat_pos, size);
               &&& mdat_hdr_ok(x, mdat_pos, size) && x.len() == dd.len()
               &&& forall|i: int| 0 <= i < dd.len() && !(mdat_pos <= i < mdat_pos + 16) ==> x[i] == dd[i] })
{
    broadcast use lemma_wr_len, lemma_be_bytes_len;
    let x = mdat_size_patch(dd, mdat_pos, size);
    if size > 0xffff_ffff {
        let d1 = wr(dd, mdat_pos, be_bytes(1, 4));
        assert(Seq::<u8>::empty() + be_bytes(1, 4) =~= be_bytes(1, 4));
        lemma_prefix_refl(be_bytes(1, 4));
        lemma_rd4(dd, mdat_pos, Seq::<u8>::empty(), 1, be_bytes(1, 4));
        assert(Seq::<u8>::empty() + be_bytes(size as nat, 8) =~= be_bytes(size as nat, 8));
        lemma_prefix_refl(be_bytes(size as nat, 8));
        lemma_rd8(d1, mdat_pos + 8, Seq::<u8>::empty(), size as nat, be_bytes(size as nat, 8));
        assert forall|i: int| 0 <= i < dd.len() && !(mdat_pos + 8 <= i < mdat_pos + 16) implies x[i] == d1[i] by {}
        assert forall|i: int| 0 <= i < dd.len() && !(mdat_pos <= i < mdat_pos + 4) implies d1[i] == dd[i] by {}
    } else {
        assert(Seq::<u8>::empty() + be_bytes(size as nat, 4) =~= be_bytes(size as nat, 4));
        lemma_prefix_refl(be_bytes(size as nat, 4));
        lemma_rd4(dd, mdat_pos, Seq::<u8>::empty(), size as nat, be_bytes(size as nat, 4));
        assert forall|i: int| 0 <= i < dd.len() && !(mdat_pos <= i < mdat_pos + 4) implies x[i] == dd[i] by {}
    }
}

// ---- from the muxer's own postconditions to the reader's file relation
/// what write_start leaves in the stream and every later muxer step keeps (start = where the file begins in the stream)
pub open spec fn mw_layout<W: Stream>(m: Mp4Writer<W>, start: int, f: FtypBox) -> bool {
    &&& 0 <= start && ftyp_wire(f) && m.mdat_pos == start + ftyp_len(f) && m.mdat_pos + 16 <= m.writer.pos()
    &&& m.writer.pos() == m.writer.data().len()
    &&& forall|j: int| 0 <= j < ftyp_len(f) ==> #[trigger] m.writer.data()[start + j] == ftyp_bytes(f)[j]
    &&& be32(m.writer.data(), m.mdat_pos + 4) == 0x6d646174
}
/// [C02+C14.ws.layout] of Mp4Writer::write_start, for a stream that stood at its end, is this layout
pub proof fn lemma_layout_start<W: Stream>(d: Seq<u8>, p: int, f: FtypBox, m: Mp4Writer<W>)
    requires 0 <= p, p == d.len(), ftyp_wire(f), m.mdat_pos == p + ftyp_len(f), m.writer.pos() == m.mdat_pos + 16,
             m.writer.data() == wr(d, p, ftyp_bytes(f) + hdr_bytes(8, 0x6d646174) + hdr_bytes(8, 0x77696465))
    ensures mw_layout(m, p, f)
{
    broadcast use lemma_wr_len, lemma_be_bytes_len, lemma_ftyp_prefix_len;
    let fb = ftyp_bytes(f); let mh = hdr_bytes(8, 0x6d646174); let wh = hdr_bytes(8, 0x77696465);
    let all = fb + mh + wh;
    assert(fb.len() == ftyp_len(f));
    assert forall|j: int| 0 <= j < ftyp_len(f) implies #[trigger] m.writer.data()[p + j] == fb[j] by {
        assert(all[j] == fb[j]); lemma_wr_index(d, p, all, j);
    }
    assert(all == (fb + be_bytes(8, 4) + be_bytes(0x6d646174, 4)) + wh) by { assert(all =~= (fb + be_bytes(8, 4) + be_bytes(0x6d646174, 4)) + wh); }
    lemma_prefix_concat(fb + be_bytes(8, 4) + be_bytes(0x6d646174, 4), wh);
    lemma_rd4(d, p, fb + be_bytes(8, 4), 0x6d646174, all);
}
/// a step that only appends keeps it
pub proof fn lemma_layout_step<W: Stream>(a: Mp4Writer<W>, b: Mp4Writer<W>, start: int, f: FtypBox)
    requires mw_layout(a, start, f), stream_grows(a.writer, b.writer), b.mdat_pos == a.mdat_pos
    ensures mw_layout(b, start, f)
{
    broadcast use lemma_be_bytes_len, lemma_ftyp_prefix_len;
    assert forall|j: int| 0 <= j < ftyp_len(f) implies #[trigger] b.writer.data()[start + j] == ftyp_bytes(f)[j] by {
        assert(b.writer.data()[start + j] == a.writer.data()[start + j]);
    }
    let q = a.mdat_pos + 4;
    assert(b.writer.data()[q] == a.writer.data()[q] && b.writer.data()[q + 1] == a.writer.data()[q + 1]
           && b.writer.data()[q + 2] == a.writer.data()[q + 2] && b.writer.data()[q + 3] == a.writer.data()[q + 3]);
}
pub proof fn lemma_pending_sum_nonneg(v: Seq<Mp4TrackWriter>, n: int)
    requires 0 <= n
    ensures pending_sum(v, n) >= 0
    decreases n
{
    if n > 0 { lemma_pending_sum_nonneg(v, n - 1); }
}
/// flushing the pending chunks from the end of the stream only appends
pub proof fn lemma_flush_all_frame(d: Seq<u8>, p: int, v: Seq<Mp4TrackWriter>, n: int)
    requires 0 <= p, p == d.len(), 0 <= n <= v.len()
    ensures flush_all(d, p, v, n).len() == p + pending_sum(v, n), forall|i: int| 0 <= i < p ==> #[trigger] flush_all(d, p, v, n)[i] == d[i]
    decreases n
{
    broadcast use lemma_wr_len;
    if n > 0 {
        lemma_flush_all_frame(d, p, v, n - 1);
        lemma_pending_sum_nonneg(v, n - 1);
    }
}
/// THE STRUCTURE HALF OF C01 / C02 / C14: the file that Mp4Writer::write_end leaves (mw_final), when the writer state carried the
/// layout of write_start (mw_layout) and the movie box is one the muxer builds (moov_muxed), satisfies the reader's file relation
/// (the two conjuncts of file_parsed) for the muxer's own ftyp and its movie box (up to the avcC length-size normalisation)
#[verifier::rlimit(300)]
pub proof fn lemma_muxed_file<W: Stream>(m0: Mp4Writer<W>, out: Seq<u8>, moov: MoovBox, moov2: MoovBox, start: int, f: FtypBox)
    requires mw_layout(m0, start, f), mw_final(m0, out, moov), moov_exact(moov), moov_muxed(moov), moov_same_norm(moov, moov2),
             m0.writer.pos() + pending_sum(m0.tracks@, m0.tracks@.len() as int) < 0x4000_0000_0000_0000
    ensures rel_moov(out, Some(moov2), top_last_of(out, start, out.len() as int, BoxType::MoovBox, None)),
            rel_ftyp(out, Some(f), top_last_of(out, start, out.len() as int, BoxType::FtypBox, None))
{
    broadcast use lemma_be_bytes_len, lemma_ftyp_prefix_len;
    let n = m0.tracks@.len() as int; let p0 = m0.writer.pos() as int; let d0 = m0.writer.data();
    let pn = p0 + pending_sum(m0.tracks@, n);
    let dd = flush_all(d0, p0, m0.tracks@, n);
    lemma_flush_all_frame(d0, p0, m0.tracks@, n);
    lemma_pending_sum_nonneg(m0.tracks@, n);
    let q = m0.mdat_pos + 4;
    assert(dd[q] == d0[q] && dd[q + 1] == d0[q + 1] && dd[q + 2] == d0[q + 2] && dd[q + 3] == d0[q + 3]);
    lemma_mdat_patch(dd, m0.mdat_pos as int, pn - m0.mdat_pos);
    let x = mdat_size_patch(dd, m0.mdat_pos as int, pn - m0.mdat_pos);
    assert(ftyp_bytes(f).len() == ftyp_len(f));
    assert forall|j: int| 0 <= j < ftyp_bytes(f).len() implies x[start + j] == ftyp_bytes(f)[j] by {
        assert(x[start + j] == dd[start + j]); assert(dd[start + j] == d0[start + j]);
    }
    lemma_file_roundtrip(x, start, m0.mdat_pos as int, pn, f, moov, moov2);
}

/// what add_track establishes for a track writer and no later step changes: a sample description as Mp4TrackWriter::new
/// builds it for one of the five configurations (the AAC one up to bufferSizeDB, which write_end sets) and a canonical ISO-639 language code
pub open spec fn tw_static_muxed(w: Mp4TrackWriter) -> bool {
    &&& stsd_muxed_avc(tw_stbl(w).stsd) || stsd_muxed_aac(stsd_nobuf(tw_stbl(w).stsd)) || stsd_muxed_hevc(tw_stbl(w).stsd)
        || stsd_muxed_vp9(tw_stbl(w).stsd) || stsd_muxed_ttxt(tw_stbl(w).stsd)
    &&& w.trak.mdia.mdhd.language@ == lang_string_spec(lang_code_spec(w.trak.mdia.mdhd.language@))
}
pub proof fn lemma_trak_muxed_of_track(t: TrakBox, w: Mp4TrackWriter, pos: u64)
    requires trak_of_track(t, w, pos), trak_wire(t), tw_static_muxed(w)
    ensures trak_muxed(t), trak_exact(t)
{
    let a = t.mdia.minf.stbl.stsd; let b0 = tw_stbl(w).stsd;
    assert(stsd_nobuf(a) == stsd_nobuf(b0));
    if stsd_muxed_avc(b0) {
        assert(stsd_nobuf(a).avc1 == a.avc1 && stsd_nobuf(b0).avc1 == b0.avc1);
        assert(stsd_nobuf(a).mp4a is Some <==> a.mp4a is Some);
        assert(stsd_nobuf(b0).mp4a is Some <==> b0.mp4a is Some);
        assert(stsd_muxed_avc(a));
    } else if stsd_muxed_hevc(b0) || stsd_muxed_vp9(b0) || stsd_muxed_ttxt(b0) {
        assert(stsd_nobuf(a).hev1 == a.hev1 && stsd_nobuf(b0).hev1 == b0.hev1 && stsd_nobuf(a).vp09 == a.vp09 && stsd_nobuf(b0).vp09 == b0.vp09);
        assert(stsd_nobuf(a).tx3g == a.tx3g && stsd_nobuf(b0).tx3g == b0.tx3g && stsd_nobuf(a).avc1 == a.avc1 && stsd_nobuf(b0).avc1 == b0.avc1);
        assert(stsd_nobuf(a).mp4a is Some <==> a.mp4a is Some);
        assert(stsd_nobuf(b0).mp4a is Some <==> b0.mp4a is Some);
        assert(stsd_muxed_hevc(a) || stsd_muxed_vp9(a) || stsd_muxed_ttxt(a));
    } else {
        let na = stsd_nobuf(a);
        assert(stsd_muxed_aac(na));
        assert(na.mp4a is Some <==> a.mp4a is Some);
        assert(a.mp4a is Some && a.avc1 is None && a.hev1 is None && a.vp09 is None && a.tx3g is None);
        let m = a.mp4a->Some_0; let nm = na.mp4a->Some_0;
        assert(nm == mp4a_nobuf(m));
        assert(mp4a_wire(m));
        assert(mp4a_encodable(nm));
        if m.esds is Some {
            let e = m.esds->Some_0; let ne = nm.esds->Some_0;
            assert(ne == esds_nobuf(e));
            assert(esds_encodable(ne));
            assert(esds_wire(e));
            assert(esds_encodable(e));
        }
        assert(mp4a_encodable(m));
        assert(stsd_muxed_aac(a));
    }
}
/// the final movie box of a muxer whose tracks carried tw_static_muxed is one that lemma_muxed_file speaks about
pub proof fn lemma_moov_muxed_of_final<W: Stream>(m0: Mp4Writer<W>, out: Seq<u8>, moov: MoovBox)
    requires mw_final(m0, out, moov), forall|i: int| 0 <= i < m0.tracks@.len() ==> tw_static_muxed(#[trigger] m0.tracks@[i])
    ensures moov_muxed(moov), moov_exact(moov)
{
    let n = m0.tracks@.len() as int; let p0 = m0.writer.pos() as int;
    assert forall|i: int| 0 <= i < moov.traks@.len() implies trak_muxed(#[trigger] moov.traks@[i]) && trak_exact(moov.traks@[i]) by {
        assert(trak_wire(moov.traks@[i]));
        assert(tw_static_muxed(m0.tracks@[i]));
        lemma_trak_muxed_of_track(moov.traks@[i], m0.tracks@[i], (p0 + pending_sum(m0.tracks@, i)) as u64);
    }
}

/// Mp4TrackWriter::new ([C14.tw.new.avc] / [C14.tw.new.aac]: bufferSizeDB is 0 there) establishes the sample-description part
pub proof fn lemma_static_of_new(sd: StsdBox)
    requires stsd_muxed_avc(sd) || (stsd_muxed_aac(sd) && (sd.mp4a->Some_0.esds matches Some(e) ==> e.es_desc.dec_config.buffer_size_db == 0))
    ensures stsd_muxed_avc(sd) || stsd_muxed_aac(stsd_nobuf(sd))
{
    if !stsd_muxed_avc(sd) {
        let m = sd.mp4a->Some_0;
        if m.esds is Some { assert(esds_nobuf(m.esds->Some_0) == m.esds->Some_0); }
        assert(mp4a_nobuf(m) == m);
        assert(stsd_nobuf(sd) == sd);
    }
}

// ---- the remaining sample entries, for the shapes the muxer builds (vp09; hev1 with an empty NAL-unit array list; tx3g)
pub proof fn lemma_vpcc_starts(b: VpccBox) ensures is_prefix(hdr_bytes(vpcc_len(b) as u64, 0x76706343), vpcc_bytes(b))
{
    let h = hdr_bytes(vpcc_len(b) as u64, 0x76706343);
    assert(is_prefix(h, vpcc_pre_0(b)));
    assert(is_prefix(vpcc_pre_0(b), vpcc_pre_1(b))); assert(is_prefix(vpcc_pre_1(b), vpcc_pre_2(b))); assert(is_prefix(vpcc_pre_2(b), vpcc_pre_3(b)));
    assert(is_prefix(vpcc_pre_3(b), vpcc_pre_4(b))); assert(is_prefix(vpcc_pre_4(b), vpcc_pre_5(b))); assert(is_prefix(vpcc_pre_5(b), vpcc_pre_6(b)));
    assert(is_prefix(vpcc_pre_6(b), vpcc_pre_7(b)));
    lemma_prefix_trans(h, vpcc_pre_0(b), vpcc_pre_1(b)); lemma_prefix_trans(h, vpcc_pre_1(b), vpcc_pre_2(b)); lemma_prefix_trans(h, vpcc_pre_2(b), vpcc_pre_3(b));
    lemma_prefix_trans(h, vpcc_pre_3(b), vpcc_pre_4(b)); lemma_prefix_trans(h, vpcc_pre_4(b), vpcc_pre_5(b)); lemma_prefix_trans(h, vpcc_pre_5(b), vpcc_pre_6(b));
    lemma_prefix_trans(h, vpcc_pre_6(b), vpcc_pre_7(b));
}
pub proof fn lemma_vp09_pre_mono(b: Vp09Box, j: int, k: int)
    requires 0 <= j <= k
    ensures is_prefix(vp09_pre(b, j), vp09_pre(b, k))
    decreases k
{
    if j < k { lemma_vp09_pre_mono(b, j, k - 1); }
}
#[verifier::rlimit(300)]
pub proof fn lemma_vp09_roundtrip(d: Seq<u8>, p: int, b: Vp09Box)
    requires 0 <= p, vp09_wire(b)
    ensures vp09_at(wr(d, p, vp09_bytes(b)), p + 8, b), box_here(wr(d, p, vp09_bytes(b)), p, 0x6a, 0x76703039)
{
    broadcast use lemma_be_bytes_len;
    lemma_vp09_pre(b);
    lemma_vpcc_pre_len(b.vpcc);
    let all = vp09_bytes(b); let s = wr(d, p, all);
    lemma_vp09_pre_mono(b, 0, 16); lemma_vp09_pre_mono(b, 1, 16); lemma_vp09_pre_mono(b, 2, 16); lemma_vp09_pre_mono(b, 3, 16);
    lemma_vp09_pre_mono(b, 5, 16); lemma_vp09_pre_mono(b, 6, 16); lemma_vp09_pre_mono(b, 7, 16); lemma_vp09_pre_mono(b, 8, 16);
    lemma_vp09_pre_mono(b, 9, 16); lemma_vp09_pre_mono(b, 10, 16); lemma_vp09_pre_mono(b, 12, 16); lemma_vp09_pre_mono(b, 14, 16);
    lemma_vp09_pre_mono(b, 15, 16); lemma_vp09_pre_mono(b, 16, 16);
    reveal_with_fuel(vp09_pre, 18);
    // header and FullBox
    lemma_hdr_of_bytes(d, p, all, 0x6a, 0x76703039);
    let h = vp09_pre(b, 0);
    assert(vp09_pre(b, 1) =~= (h + seq![b.version]) + be_bytes(b.flags as nat, 3));
    lemma_rd3(d, p, h + seq![b.version], b.flags as nat, all);
    lemma_prefix_app(h + seq![b.version], be_bytes(b.flags as nat, 3), all);
    lemma_rd1s(d, p, h, b.version, all);
    // 16-bit fields
    lemma_rd2(d, p, vp09_pre(b, 1), b.start_code as nat, all);
    lemma_rd2(d, p, vp09_pre(b, 2), b.data_reference_index as nat, all);
    lemma_rd2(d, p, vp09_pre(b, 4), b.width as nat, all);
    lemma_rd2(d, p, vp09_pre(b, 5), b.height as nat, all);
    lemma_rd2(d, p, vp09_pre(b, 6), b.horizresolution.0 as nat, all);
    lemma_rd2(d, p, vp09_pre(b, 7), b.horizresolution.1 as nat, all);
    lemma_rd2(d, p, vp09_pre(b, 8), b.vertresolution.0 as nat, all);
    lemma_rd2(d, p, vp09_pre(b, 9), b.vertresolution.1 as nat, all);
    lemma_rd2(d, p, vp09_pre(b, 11), b.frame_count as nat, all);
    lemma_rd2(d, p, vp09_pre(b, 13), b.depth as nat, all);
    lemma_rd2(d, p, vp09_pre(b, 14), b.end_code as nat, all);
    // the configuration box is the last piece
    lemma_vpcc_starts(b.vpcc);
    lemma_child_placed(d, p, all, vp09_pre(b, 15), vpcc_bytes(b.vpcc), vpcc_len(b.vpcc), 0x76706343);
    lemma_vpcc_roundtrip(s, p + 86, b.vpcc);
    lemma_box_here(s, p + 86, vpcc_len(b.vpcc), 0x76706343);
}

pub proof fn lemma_tx3gh_pre_mono(b: Tx3gBox, j: int, k: int)
    requires 0 <= j <= k
    ensures is_prefix(tx3gh_pre(b, j), tx3gh_pre(b, k))
    decreases k
{
    if j < k { lemma_tx3gh_pre_mono(b, j, k - 1); }
}
#[verifier::rlimit(300)]
pub proof fn lemma_tx3g_roundtrip(d: Seq<u8>, p: int, b: Tx3gBox)
    requires 0 <= p
    ensures tx3g_at(wr(d, p, tx3g_bytes(b)), p + 8, b), box_here(wr(d, p, tx3g_bytes(b)), p, 46, 0x74783367)
{
    broadcast use lemma_be_bytes_len;
    lemma_tx3gh_pre(b);
    lemma_tx3g_bytes_len(b);
    let hb = tx3gh_bytes(b); let v = b.box_record@; let st = b.style_record@;
    let all = tx3g_bytes(b); let s = wr(d, p, all);
    reveal_with_fuel(tx3gh_pre, 12);
    reveal_with_fuel(i16s_bytes, 5);
    assert(all == hb + i16s_bytes(v, 4) + st);
    lemma_prefix_concat(hb + i16s_bytes(v, 4), st);
    lemma_prefix_concat(hb, i16s_bytes(v, 4));
    lemma_prefix_trans(hb, hb + i16s_bytes(v, 4), all);
    lemma_tx3gh_pre_mono(b, 0, 10); lemma_tx3gh_pre_mono(b, 3, 10); lemma_tx3gh_pre_mono(b, 4, 10); lemma_tx3gh_pre_mono(b, 5, 10);
    lemma_tx3gh_pre_mono(b, 6, 10); lemma_tx3gh_pre_mono(b, 7, 10); lemma_tx3gh_pre_mono(b, 8, 10); lemma_tx3gh_pre_mono(b, 9, 10); lemma_tx3gh_pre_mono(b, 10, 10);
    lemma_prefix_trans(tx3gh_pre(b, 0), hb, all); lemma_prefix_trans(tx3gh_pre(b, 3), hb, all); lemma_prefix_trans(tx3gh_pre(b, 4), hb, all);
    lemma_prefix_trans(tx3gh_pre(b, 5), hb, all); lemma_prefix_trans(tx3gh_pre(b, 6), hb, all); lemma_prefix_trans(tx3gh_pre(b, 7), hb, all);
    lemma_prefix_trans(tx3gh_pre(b, 8), hb, all); lemma_prefix_trans(tx3gh_pre(b, 9), hb, all);
    lemma_hdr_of_bytes(d, p, all, 46, 0x74783367);
    lemma_rd2(d, p, tx3gh_pre(b, 2), b.data_reference_index as nat, all);
    lemma_rd4(d, p, tx3gh_pre(b, 3), b.display_flags as nat, all);
    lemma_rd1s(d, p, tx3gh_pre(b, 4), b.horizontal_justification as u8, all);
    lemma_rd1s(d, p, tx3gh_pre(b, 5), b.vertical_justification as u8, all);
    lemma_rd1s(d, p, tx3gh_pre(b, 6), b.bg_color_rgba.red, all);
    lemma_rd1s(d, p, tx3gh_pre(b, 7), b.bg_color_rgba.green, all);
    lemma_rd1s(d, p, tx3gh_pre(b, 8), b.bg_color_rgba.blue, all);
    lemma_rd1s(d, p, tx3gh_pre(b, 9), b.bg_color_rgba.alpha, all);
    let hj = b.horizontal_justification; let vj = b.vertical_justification;
    assert((hj as u8) as i8 == hj && (vj as u8) as i8 == vj) by(bit_vector);
    // BoxRecord: four signed 16-bit values
    let r0 = hb; let r1 = r0 + be_bytes((v[0] as u16) as nat, 2); let r2 = r1 + be_bytes((v[1] as u16) as nat, 2); let r3 = r2 + be_bytes((v[2] as u16) as nat, 2);
    let r4 = r3 + be_bytes((v[3] as u16) as nat, 2);
    assert(hb + i16s_bytes(v, 4) =~= r4);
    lemma_prefix_concat(r3, be_bytes((v[3] as u16) as nat, 2)); lemma_prefix_concat(r2, be_bytes((v[2] as u16) as nat, 2)); lemma_prefix_concat(r1, be_bytes((v[1] as u16) as nat, 2));
    lemma_prefix_trans(r4, hb + i16s_bytes(v, 4), all);
    lemma_prefix_trans(r3, r4, all); lemma_prefix_trans(r2, r3, all); lemma_prefix_trans(r1, r2, all);
    lemma_rd2(d, p, r0, (v[0] as u16) as nat, all); lemma_rd2(d, p, r1, (v[1] as u16) as nat, all);
    lemma_rd2(d, p, r2, (v[2] as u16) as nat, all); lemma_rd2(d, p, r3, (v[3] as u16) as nat, all);
    let a0 = v[0]; let a1 = v[1]; let a2 = v[2]; let a3 = v[3];
    assert((a0 as u16) as i16 == a0 && (a1 as u16) as i16 == a1 && (a2 as u16) as i16 == a2 && (a3 as u16) as i16 == a3) by(bit_vector);
    assert forall|i: int| 0 <= i < 4 implies #[trigger] b.box_record[i] == be16(s, p + 8 + 18 + 2 * i) as i16 by {
        if i == 0 {} else if i == 1 {} else if i == 2 {} else {}
    }
    // StyleRecord: twelve bytes as stored
    assert forall|i: int| 0 <= i < 12 implies #[trigger] b.style_record[i] == s[p + 8 + 26 + i] by {
        assert(all[34 + i] == st[i]);
        lemma_wr_index(d, p, all, 34 + i);
    }
}

/// an hvcC record whose fields fit their wire widths and whose NAL-unit array list is empty (what HvcCBox::new builds)
pub open spec fn hvcc_encodable(b: HvcCBox) -> bool {
    &&& hvcc_wire(b) && b.arrays@.len() == 0
    &&& b.general_profile_space <= 3 && b.general_profile_idc <= 31 && b.min_spatial_segmentation_idc <= 0x0fff
    &&& b.parallelism_type <= 3 && b.chroma_format_idc <= 3 && b.bit_depth_luma_minus8 <= 7 && b.bit_depth_chroma_minus8 <= 7
    &&& b.constant_frame_rate <= 3 && b.num_temporal_layers <= 7 && b.length_size_minus_one <= 3
}
pub proof fn lemma_hvcch_pre_mono(b: HvcCBox, j: int, k: int)
    requires 0 <= j <= k
    ensures is_prefix(hvcch_pre(b, j), hvcch_pre(b, k))
    decreases k
{
    if j < k { lemma_hvcch_pre_mono(b, j, k - 1); }
}
#[verifier::rlimit(300)]
pub proof fn lemma_hvcc_roundtrip(d: Seq<u8>, p: int, b: HvcCBox)
    requires 0 <= p, hvcc_encodable(b)
    ensures hvcc_head_at(wr(d, p, hvcc_bytes(b)), p + 8, b), hvcc_arrays_at(wr(d, p, hvcc_bytes(b)), p + 8, b),
            box_here(wr(d, p, hvcc_bytes(b)), p, 31, 0x68766343)
{
    broadcast use lemma_be_bytes_len;
    lemma_hvcch_pre(b);
    lemma_hvcc_bytes_len(b);
    reveal_with_fuel(hvcch_pre, 15);
    let all = hvcc_bytes(b); let s = wr(d, p, all);
    assert(all =~= hvcch_pre(b, 13));
    lemma_prefix_refl(all);
    lemma_hvcch_pre_mono(b, 0, 13); lemma_hvcch_pre_mono(b, 1, 13); lemma_hvcch_pre_mono(b, 2, 13); lemma_hvcch_pre_mono(b, 3, 13);
    lemma_hvcch_pre_mono(b, 4, 13); lemma_hvcch_pre_mono(b, 5, 13); lemma_hvcch_pre_mono(b, 6, 13); lemma_hvcch_pre_mono(b, 7, 13);
    lemma_hvcch_pre_mono(b, 8, 13); lemma_hvcch_pre_mono(b, 9, 13); lemma_hvcch_pre_mono(b, 10, 13); lemma_hvcch_pre_mono(b, 11, 13);
    lemma_hvcch_pre_mono(b, 12, 13);
    lemma_hdr_of_bytes(d, p, all, 31, 0x68766343);
    let tf = b.general_tier_flag; let nf = b.temporal_id_nested;
    let b1 = (((b.general_profile_space & 3) << 6) | ((if tf { 1u8 } else { 0u8 }) << 5) | (b.general_profile_idc & 0x1f)) as u8;
    let b2 = (((b.constant_frame_rate & 3) << 6) | ((b.num_temporal_layers & 7) << 3) | ((if nf { 1u8 } else { 0u8 }) << 2) | (b.length_size_minus_one & 3)) as u8;
    lemma_rd1s(d, p, hvcch_pre(b, 0), b.configuration_version, all);
    lemma_rd1s(d, p, hvcch_pre(b, 1), b1, all);
    lemma_rd4(d, p, hvcch_pre(b, 2), b.general_profile_compatibility_flags as nat, all);
    lemma_rd6(d, p, hvcch_pre(b, 3), b.general_constraint_indicator_flag as nat, all);
    lemma_rd1s(d, p, hvcch_pre(b, 4), b.general_level_idc, all);
    lemma_rd2(d, p, hvcch_pre(b, 5), (b.min_spatial_segmentation_idc & 0x0fff) as nat, all);
    lemma_rd1s(d, p, hvcch_pre(b, 6), (b.parallelism_type & 3) as u8, all);
    lemma_rd1s(d, p, hvcch_pre(b, 7), (b.chroma_format_idc & 3) as u8, all);
    lemma_rd1s(d, p, hvcch_pre(b, 8), (b.bit_depth_luma_minus8 & 7) as u8, all);
    lemma_rd1s(d, p, hvcch_pre(b, 9), (b.bit_depth_chroma_minus8 & 7) as u8, all);
    lemma_rd2(d, p, hvcch_pre(b, 10), b.avg_frame_rate as nat, all);
    lemma_rd1s(d, p, hvcch_pre(b, 11), b2, all);
    lemma_rd1s(d, p, hvcch_pre(b, 12), b.arrays@.len() as u8, all);
    let g = b.general_profile_space; let idc = b.general_profile_idc; let t = if tf { 1u8 } else { 0u8 };
    assert(((((g & 3) << 6) | (t << 5) | (idc & 0x1f)) as u8) >> 6 == g && (((((g & 3) << 6) | (t << 5) | (idc & 0x1f)) as u8) >> 5) & 1 == t
           && ((((g & 3) << 6) | (t << 5) | (idc & 0x1f)) as u8) & 0x1f == idc) by(bit_vector) requires g <= 3, idc <= 31, t <= 1;
    let c = b.constant_frame_rate; let nl = b.num_temporal_layers; let n2 = if nf { 1u8 } else { 0u8 }; let l = b.length_size_minus_one;
    assert(((((c & 3) << 6) | ((nl & 7) << 3) | (n2 << 2) | (l & 3)) as u8) >> 6 == c && (((((c & 3) << 6) | ((nl & 7) << 3) | (n2 << 2) | (l & 3)) as u8) >> 3) & 7 == nl
           && (((((c & 3) << 6) | ((nl & 7) << 3) | (n2 << 2) | (l & 3)) as u8) >> 2) & 1 == n2 && ((((c & 3) << 6) | ((nl & 7) << 3) | (n2 << 2) | (l & 3)) as u8) & 3 == l)
        by(bit_vector) requires c <= 3, nl <= 7, n2 <= 1, l <= 3;
    let m = b.min_spatial_segmentation_idc; let pt = b.parallelism_type; let cf = b.chroma_format_idc; let bl = b.bit_depth_luma_minus8; let bc = b.bit_depth_chroma_minus8;
    assert((m & 0x0fff) == m && (m & 0x0fff) & 0x0fff == m) by(bit_vector) requires m <= 0x0fff;
    assert((pt & 3) & 3 == pt && (cf & 3) & 3 == cf && (bl & 7) & 7 == bl && (bc & 7) & 7 == bc) by(bit_vector) requires pt <= 3, cf <= 3, bl <= 7, bc <= 7;
}

pub proof fn lemma_hvcc_starts(b: HvcCBox) requires hvcc_wire(b) ensures is_prefix(hdr_bytes(hvcc_len(b) as u64, 0x68766343), hvcc_bytes(b))
{
    reveal_with_fuel(hvcch_pre, 15);
    lemma_hvcch_pre_mono(b, 0, 13);
    lemma_prefix_concat(hvcch_pre(b, 13), harrs_bytes(b.arrays@, b.arrays@.len() as int));
    lemma_prefix_trans(hvcch_pre(b, 0), hvcch_pre(b, 13), hvcc_bytes(b));
}
pub proof fn lemma_hev1_pre_mono(b: Hev1Box, j: int, k: int)
    requires 0 <= j <= k
    ensures is_prefix(hev1_pre(b, j), hev1_pre(b, k))
    decreases k
{
    if j < k { lemma_hev1_pre_mono(b, j, k - 1); }
}
#[verifier::rlimit(300)]
pub proof fn lemma_hev1_roundtrip(d: Seq<u8>, p: int, b: Hev1Box)
    requires 0 <= p, hev1_wire(b), hvcc_encodable(b.hvcc)
    ensures hev1_at(wr(d, p, hev1_bytes(b)), p + 8, b), box_here(wr(d, p, hev1_bytes(b)), p, hev1_len(b), 0x68657631)
{
    broadcast use lemma_be_bytes_len;
    lemma_hev1_pre(b);
    lemma_hvcc_bytes_len(b.hvcc);
    let all = hev1_bytes(b); let s = wr(d, p, all);
    reveal_with_fuel(hev1_pre, 18);
    lemma_hev1_pre_mono(b, 0, 16); lemma_hev1_pre_mono(b, 3, 16); lemma_hev1_pre_mono(b, 7, 16); lemma_hev1_pre_mono(b, 8, 16);
    lemma_hev1_pre_mono(b, 9, 16); lemma_hev1_pre_mono(b, 10, 16); lemma_hev1_pre_mono(b, 12, 16); lemma_hev1_pre_mono(b, 14, 16); lemma_hev1_pre_mono(b, 16, 16);
    lemma_hdr_of_bytes(d, p, all, hev1_len(b), 0x68657631);
    lemma_rd2(d, p, hev1_pre(b, 2), b.data_reference_index as nat, all);
    lemma_rd2(d, p, hev1_pre(b, 6), b.width as nat, all);
    lemma_rd2(d, p, hev1_pre(b, 7), b.height as nat, all);
    lemma_rd4(d, p, hev1_pre(b, 8), b.horizresolution.0.numer as nat, all);
    lemma_rd4(d, p, hev1_pre(b, 9), b.vertresolution.0.numer as nat, all);
    lemma_rd2(d, p, hev1_pre(b, 11), b.frame_count as nat, all);
    lemma_rd2(d, p, hev1_pre(b, 13), b.depth as nat, all);
    lemma_hvcc_starts(b.hvcc);
    lemma_child_placed(d, p, all, hev1_pre(b, 15), hvcc_bytes(b.hvcc), hvcc_len(b.hvcc), 0x68766343);
    lemma_hvcc_roundtrip(s, p + 86, b.hvcc);
    lemma_box_here(s, p + 86, hvcc_len(b.hvcc), 0x68766343);
}

// ---- stsd for all five sample entries the muxer builds
pub open spec fn stsd_muxed_hevc(b: StsdBox) -> bool { b.hev1 is Some && b.avc1 is None && b.vp09 is None && b.mp4a is None && b.tx3g is None && hvcc_encodable(b.hev1->Some_0.hvcc) }
pub open spec fn stsd_muxed_vp9(b: StsdBox) -> bool { b.vp09 is Some && b.avc1 is None && b.hev1 is None && b.mp4a is None && b.tx3g is None }
pub open spec fn stsd_muxed_ttxt(b: StsdBox) -> bool { b.tx3g is Some && b.avc1 is None && b.hev1 is None && b.vp09 is None && b.mp4a is None }
pub open spec fn stsd_muxed_any(b: StsdBox) -> bool { stsd_muxed_avc(b) || stsd_muxed_aac(b) || stsd_muxed_hevc(b) || stsd_muxed_vp9(b) || stsd_muxed_ttxt(b) }
#[verifier::rlimit(300)]
pub proof fn lemma_stsd_roundtrip_any(d: Seq<u8>, p: int, b: StsdBox)
    requires 0 <= p, stsd_wire(b), stsd_muxed_any(b)
    ensures stsd_at(wr(d, p, stsd_bytes(b)), p + 8, stsd_norm(b)), hdr_at(wr(d, p, stsd_bytes(b)), p, stsd_len(b) as u64, 0x73747364)
{
    if stsd_muxed_avc(b) || stsd_muxed_aac(b) {
        lemma_stsd_roundtrip(d, p, b);
    } else {
        broadcast use lemma_be_bytes_len;
        let all = stsd_bytes(b);
        let s = wr(d, p, all);
        let l = be_bytes(stsd_len(b) as nat, 4); let t = be_bytes(0x73747364, 4);
        let eb = stsd_entry_bytes(b);
        let pre2 = l + t + seq![b.version];
        assert(all =~= ((pre2 + be_bytes(b.flags as nat, 3)) + be_bytes(1, 4)) + eb);
        lemma_prefix_refl(all);
        lemma_prefix_app((pre2 + be_bytes(b.flags as nat, 3)) + be_bytes(1, 4), eb, all);
        lemma_prefix_app(pre2 + be_bytes(b.flags as nat, 3), be_bytes(1, 4), all);
        lemma_rd3(d, p, pre2, b.flags as nat, all);
        lemma_prefix_app(pre2, be_bytes(b.flags as nat, 3), all);
        lemma_rd1s(d, p, l + t, b.version, all);
        lemma_prefix_app(l + t, seq![b.version], all);
        lemma_rd4(d, p, l, 0x73747364, all);
        lemma_prefix_app(l, t, all);
        assert(Seq::<u8>::empty() + l =~= l);
        lemma_rd4(d, p, Seq::<u8>::empty(), stsd_len(b) as nat, all);
        assert(stsd_head(b).len() == 16);
        lemma_wr_wr(d, p, stsd_head(b), eb);
        let d1 = wr(d, p, stsd_head(b));
        assert(s == wr(d1, p + 16, eb));
        assert(stsd_norm(b).hev1 == b.hev1 && stsd_norm(b).vp09 == b.vp09 && stsd_norm(b).tx3g == b.tx3g && stsd_norm(b).mp4a == b.mp4a && stsd_norm(b).avc1 is None);
        if stsd_muxed_hevc(b) {
            let x = b.hev1->Some_0;
            lemma_hev1_roundtrip(d1, p + 16, x);
            lemma_box_here(s, p + 16, hev1_len(x), 0x68657631);
        } else if stsd_muxed_vp9(b) {
            let x = b.vp09->Some_0;
            lemma_vp09_roundtrip(d1, p + 16, x);
            lemma_box_here(s, p + 16, 0x6a, 0x76703039);
        } else {
            let x = b.tx3g->Some_0;
            lemma_tx3g_roundtrip(d1, p + 16, x);
            lemma_box_here(s, p + 16, 46, 0x74783367);
        }
    }
}
