"""Parser for /verif/contracts/*.vpc -- contracts keyed by function path and loop ordinal.

Grammar (line oriented, '#' at line start = comment):

  policy
    drop-fn  <name> [<name>...]            # functions not extracted at all (by method name or Type::method)
    drop-impl <Trait> [...]                # trait impls not extracted
    drop-item <name> [...]                 # top level items (struct/enum/trait/const/mod) not extracted
    external <fnpath> : <reason>           # extracted with #[verifier::external_body]; contract is ASSUMED by Verus
    derive-spec <Type> [...]               # replace derive(Clone/PartialEq) by structural external_body impls
  end

  template <name>(<p1>, <p2>, ...)
    ... any fn-section lines using $p1 ...
  end

  fn <pattern> [except A,B]                # pattern: Type::method | name | *::method | Type::* ; Type::m<TraitArg> for trait impls
    ret <name>
    attr <attribute text>
    props C01 C02                          # default property tags for unlabelled / safety obligations of this fn
    from_spec <expr over v>                # for From impls
    requires / ensures / decreases         # clause lists:  [label] expr (continuation lines allowed)
    loop <n> [iter <name>]
      invariant / decreases / invariant_except_break / ensures
      body-start / body-end  ... end       # proof text
    proof body-start | fn-end | before "<text>" | after "<text>" [#k]
      <verus proof statements>
    end
    use <template>(<args>)
"""
import re, os, glob
from dataclasses import dataclass, field
from typing import List, Dict, Optional, Tuple


class ContractError(Exception):
    pass


@dataclass
class Clause:
    label: str
    text: str
    src: str   # file:line


@dataclass
class LoopSpec:
    ordinal: int
    iter_name: Optional[str] = None
    invariant: List[Clause] = field(default_factory=list)
    invariant_except_break: List[Clause] = field(default_factory=list)
    ensures: List[Clause] = field(default_factory=list)
    decreases: List[Clause] = field(default_factory=list)
    body_start: List[Tuple[str, str]] = field(default_factory=list)   # (text, src)
    body_end: List[Tuple[str, str]] = field(default_factory=list)


@dataclass
class ProofInj:
    where: str            # body-start | fn-end | before | after
    anchor: str
    nth: int
    text: str
    src: str
    raw: bool = False
    label: str = ''       # `proof [Cxx.name] ...`: a witness step of that labelled obligation (its failure counts as the obligation's)


@dataclass
class ClosureSpec:
    ordinal: int
    header: str
    requires: List[Clause] = field(default_factory=list)
    ensures: List[Clause] = field(default_factory=list)
    src: str = ''


@dataclass
class Outline:
    frm: str
    to: str
    sha: str
    text: str
    src: str
    expr: bool = False     # outline-expr: frm is the exact (whitespace-normalised) text of one expression


@dataclass
class FnContract:
    pattern: str
    excepts: List[str]
    src: str
    ret: Optional[str] = None
    attrs: List[str] = field(default_factory=list)
    props: List[str] = field(default_factory=list)
    from_spec: Optional[str] = None
    requires: List[Clause] = field(default_factory=list)
    ensures: List[Clause] = field(default_factory=list)
    decreases: List[Clause] = field(default_factory=list)
    loops: Dict[int, LoopSpec] = field(default_factory=dict)
    proofs: List[ProofInj] = field(default_factory=list)
    outlines: List[Outline] = field(default_factory=list)
    closures: Dict[int, ClosureSpec] = field(default_factory=dict)

    def matches(self, path: str) -> bool:
        base = path
        if base in self.excepts or base.split('::')[0] in self.excepts:
            return False
        p = self.pattern
        if p == path:
            return True
        m = re.match(r'^\{([^}]*)\}(.*)$', p)
        if m:
            return any((alt.strip() + m.group(2)) == path for alt in m.group(1).split(','))
        if '*' in p:
            rx = '^' + re.escape(p).replace(r'\*', r'[^:]*') + '$'
            return re.match(rx, path) is not None
        return False


@dataclass
class Policy:
    drop_fn: List[str] = field(default_factory=list)
    drop_impl: List[str] = field(default_factory=list)
    drop_item: List[str] = field(default_factory=list)
    external: Dict[str, str] = field(default_factory=dict)
    external_sha: Dict[str, str] = field(default_factory=dict)
    derive_spec: List[str] = field(default_factory=list)
    opaque_body: Dict[str, str] = field(default_factory=dict)


CLAUSE_KW = ('requires', 'ensures', 'decreases', 'invariant', 'invariant_except_break')
LABEL_RE = re.compile(r'^\[([A-Za-z0-9_.\-:+]+)\]\s*(.*)$')


class ContractSet:
    def __init__(self):
        self.policy = Policy()
        self.fns: List[FnContract] = []
        self.templates: Dict[str, Tuple[List[str], List[Tuple[str, str]]]] = {}
        self.files: List[str] = []

    def load_dir(self, d: str):
        for f in sorted(glob.glob(os.path.join(d, '*.vpc'))):
            self.load_file(f)

    def load_file(self, path: str):
        self.files.append(path)
        with open(path) as fh:
            raw = fh.read().split('\n')
        lines = [(l, '%s:%d' % (os.path.basename(path), i + 1)) for i, l in enumerate(raw)]
        self._parse(lines)

    # -- parsing -----------------------------------------------------------
    def _parse(self, lines):
        i = 0
        n = len(lines)
        while i < n:
            l, src = lines[i]
            s = l.strip()
            if not s or s.startswith('#'):
                i += 1; continue
            if s == 'policy':
                i = self._parse_policy(lines, i + 1); continue
            m = re.match(r'^template\s+(\w+)\s*\(([^)]*)\)\s*$', s)
            if m:
                params = [p.strip() for p in m.group(2).split(',') if p.strip()]
                body = []
                i += 1
                while i < n and lines[i][0].strip() != 'end template':
                    body.append(lines[i]); i += 1
                if i >= n:
                    raise ContractError('%s: unterminated template' % src)
                self.templates[m.group(1)] = (params, body)
                i += 1; continue
            m = re.match(r'^fn\s+(\S+)(?:\s+except\s+(.*))?$', s)
            if m:
                fc = FnContract(m.group(1), [e.strip() for e in (m.group(2) or '').split(',') if e.strip()], src)
                i = self._parse_fn(lines, i + 1, fc)
                self.fns.append(fc); continue
            raise ContractError('%s: unexpected line %r' % (src, s))

    def _parse_policy(self, lines, i):
        while i < len(lines):
            s, src = lines[i][0].strip(), lines[i][1]
            i += 1
            if not s or s.startswith('#'):
                continue
            if s == 'end':
                return i
            w = s.split()
            if w[0] == 'drop-fn': self.policy.drop_fn += w[1:]
            elif w[0] == 'drop-impl': self.policy.drop_impl += w[1:]
            elif w[0] == 'drop-item': self.policy.drop_item += w[1:]
            elif w[0] == 'derive-spec': self.policy.derive_spec += w[1:]
            elif w[0] == 'external':
                m = re.match(r'^external\s+(\S+)\s*(?:sha256\s+(\w+)\s*)?:\s*(.*)$', s)
                if not m: raise ContractError('%s: bad external line' % src)
                self.policy.external[m.group(1)] = m.group(3)
                if m.group(2):
                    self.policy.external_sha[m.group(1)] = m.group(2)
            else:
                raise ContractError('%s: bad policy line %r' % (src, s))
        raise ContractError('unterminated policy')

    def _expand_use(self, s, src):
        m = re.match(r'^use\s+(\w+)\s*\((.*)\)\s*$', s)
        if not m:
            raise ContractError('%s: bad use' % src)
        name = m.group(1)
        if name not in self.templates:
            raise ContractError('%s: unknown template %s' % (src, name))
        params, body = self.templates[name]
        args = split_args(m.group(2))
        if len(args) != len(params):
            raise ContractError('%s: template %s expects %d args' % (src, name, len(params)))
        out = []
        for l, lsrc in body:
            for p, a in zip(params, args):
                l = l.replace('$' + p, a)
            out.append((l, lsrc + '<-' + src))
        return out

    def _parse_fn(self, lines, i, fc: FnContract):
        # expand templates first (one level, recursively)
        sect = []
        while i < len(lines):
            l, src = lines[i]
            s = l.strip()
            if re.match(r'^(fn\s|template\s|policy$)', s) and not l.startswith((' ', '\t')):
                break
            sect.append((l, src)); i += 1
        changed = True
        depth = 0
        while changed:
            changed = False
            depth += 1
            if depth > 8: raise ContractError('%s: template recursion' % fc.src)
            out = []
            for l, src in sect:
                if l.strip().startswith('use ') and re.match(r'^use\s+\w+\s*\(', l.strip()):
                    out += self._expand_use(l.strip(), src); changed = True
                else:
                    out.append((l, src))
            sect = out
        self._parse_fn_body(sect, fc)
        return i

    def _parse_fn_body(self, sect, fc: FnContract):
        cur_list = None      # list of Clause being appended
        cur_loop: Optional[LoopSpec] = None
        j = 0
        n = len(sect)
        while j < n:
            l, src = sect[j]
            s = l.strip()
            j += 1
            if not s or s.startswith('#'):
                continue
            w = s.split()
            if s in CLAUSE_KW:
                tgt = cur_loop if (cur_loop is not None and (s != 'requires' or isinstance(cur_loop, ClosureSpec))) else fc
                if s in ('invariant', 'invariant_except_break') and cur_loop is None:
                    raise ContractError('%s: invariant outside loop' % src)
                cur_list = getattr(tgt, s)
                continue
            if s in ('end loop', 'end closure'):
                cur_loop = None; cur_list = None; continue
            m = re.match(r'^closure\s+(\d+)\s+(\|.*)$', s)
            if m:
                cur_loop = fc.closures.setdefault(int(m.group(1)), ClosureSpec(int(m.group(1)), m.group(2), src=src))
                cur_list = None; continue
            if w[0] == 'ret' and len(w) == 2:
                fc.ret = w[1]; cur_list = None; continue
            if w[0] == 'attr':
                fc.attrs.append(s[5:].strip()); cur_list = None; continue
            if w[0] == 'props':
                fc.props += w[1:]; cur_list = None; continue
            if w[0] == 'from_spec':
                fc.from_spec = s[len('from_spec'):].strip(); cur_list = None; continue
            m = re.match(r'^loop\s+(\d+|\*)(?:\s+iter\s+(\w+))?$', s)
            if m:
                k = 0 if m.group(1) == '*' else int(m.group(1))
                cur_loop = fc.loops.setdefault(k, LoopSpec(k))
                if m.group(2): cur_loop.iter_name = m.group(2)
                cur_list = None; continue
            if s in ('body-start', 'body-end') and cur_loop is not None:
                txt, j = self._take_block(sect, j, src)
                getattr(cur_loop, s.replace('-', '_')).append((txt, src)); cur_list = None; continue
            m = re.match(r'^(?:proof|ghost)(?:\s+\[([^\]]+)\])?\s+(body-start|fn-end|before|after|tail|after-write)(?:\s+"((?:[^"\\]|\\.)*)")?(?:\s+#(\d+))?$', s)
            if m:
                txt, j = self._take_block(sect, j, src)
                anchor = (m.group(3) or '').replace('\\"', '"')
                fc.proofs.append(ProofInj(m.group(2), anchor, int(m.group(4) or 1), txt, src, raw=s.startswith('ghost'), label=m.group(1) or ''))
                cur_list = None; continue
            m = re.match(r'^outline\s+"((?:[^"\\]|\\.)*)"\s+"((?:[^"\\]|\\.)*)"(?:\s+sha256\s+(\w+))?$', s)
            if m:
                txt, j = self._take_block(sect, j, src)
                fc.outlines.append(Outline(m.group(1), m.group(2), m.group(3) or '', txt, src))
                cur_list = None; continue
            m = re.match(r'^outline-expr\s+"((?:[^"\\]|\\.)*)"(?:\s+sha256\s+(\w+))?$', s)
            if m:
                txt, j = self._take_block(sect, j, src)
                fc.outlines.append(Outline(m.group(1).replace('\\"', '"'), '', m.group(2) or '', txt.strip(), src, expr=True))
                cur_list = None; continue
            lm = LABEL_RE.match(s)
            if lm and cur_list is not None:
                cur_list.append(Clause(lm.group(1), lm.group(2), src)); continue
            if cur_list is not None and cur_list:
                cur_list[-1].text += '\n        ' + s; continue
            raise ContractError('%s: unexpected line %r' % (src, s))

    def _take_block(self, sect, j, src):
        buf = []
        while j < len(sect):
            l, _ = sect[j]
            j += 1
            if l.strip() == 'end':
                return '\n'.join(buf), j
            buf.append(l)
        raise ContractError('%s: unterminated proof block' % src)

    # -- lookup --------------------------------------------------------------
    def for_fn(self, path: str) -> List[FnContract]:
        return [c for c in self.fns if c.matches(path)]


def split_args(s: str) -> List[str]:
    args, depth, cur = [], 0, ''
    for ch in s:
        if ch in '([{': depth += 1
        if ch in ')]}': depth -= 1
        if ch == ',' and depth == 0:
            args.append(cur.strip()); cur = ''
        else:
            cur += ch
    if cur.strip():
        args.append(cur.strip())
    return args
