#!/bin/bash
# run the concrete replays of /verif/findings against a repo tree:  tool/run_findings.sh [/repo] [test filter...]
REPO=${1:-/repo}; shift
D=$(mktemp -d /var/tmp/vp-findings.XXXXXX)
trap 'rm -rf "$D"' EXIT
cp -r /verif/findings/. "$D"/
sed -i "s#REPO_PATH#$REPO#" "$D"/Cargo.toml
cp "$REPO"/Cargo.lock "$D"/Cargo.lock 2>/dev/null || cp /verif/kani/Cargo.lock "$D"/Cargo.lock
cd "$D" && RUST_BACKTRACE=0 CARGO_NET_OFFLINE=true CARGO_TARGET_DIR="$D/target" cargo test --offline --no-fail-fast "$@" 2>&1 | grep -v "^\s*Compiling\|^\s*Finished\|^\s*Running\|^$\|Downloaded\|Locking\|Adding"
