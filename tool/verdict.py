#!/usr/bin/env python3
"""Per-property verdicts from the shared Verus result (+ Kani results): known-findings matching,
VIOLATION / KNOWN-FINDING lines, replay files, evidence files."""
import os, sys, json, re, time, hashlib

sys.path.insert(0, os.path.dirname(os.path.abspath(__file__)))
VERIF = os.path.dirname(os.path.dirname(os.path.abspath(__file__)))

SAFETY_CLASSES = {'overflow', 'div0', 'shift', 'assert', 'unreachable', 'truncation', 'index'}
TERM_CLASSES = {'decreases', 'no-measure'}


def label_props(label: str):
    """'C04+C12.consumed' -> {'C04','C12'}"""
    if not label:
        return set()
    head = label.split('.')[0]
    return {p for p in head.split('+') if re.match(r'^C\d\d+$', p)}


def fn_props(props):
    """['safety:C06','term:C07','C10'] -> {'safety': {'C06'}, 'term': {'C07'}, '*': {'C10'}}"""
    d = {}
    for p in props or []:
        if ':' in p:
            k, v = p.split(':', 1)
        else:
            k, v = '*', p
        d.setdefault(k, set()).add(v)
    return d


def failure_props(f, fninfo):
    """Which properties does this failed obligation serve?"""
    cls = f['class']
    lab = f.get('label') or ''
    ps = set()
    if lab and not lab.startswith('prelude:'):
        ps |= label_props(lab)
        if ps:
            return ps, 'label'
    fp = fn_props((fninfo or {}).get('props'))
    allp = fp.get('*', set())
    if cls in SAFETY_CLASSES:
        return fp.get('safety', set()) | allp, 'safety'
    if cls in TERM_CLASSES:
        return fp.get('term', set()) | allp, 'term'
    if cls == 'pre':
        if 'failed()' in lab:
            return fp.get('io', set()) | allp, 'io'
        return fp.get('safety', set()) | allp, 'safety'
    if cls in ('post', 'inv-end', 'inv-init'):
        # unlabeled clause (prelude trait ensures, From spec ...)
        return fp.get('spec', set()) | allp, 'spec'
    if cls == 'rlimit':
        return set().union(*fp.values()) if fp else set(), 'rlimit'
    return allp, cls


def obligation_name(f):
    fn = f.get('fn') or '?'
    cls = f['class']
    lab = f.get('label')
    if lab and not lab.startswith('prelude:'):
        if cls == 'pre':
            return '%s#pre[%s]@%s' % (fn, lab, f.get('site_text', '')[:80])
        if cls == 'assert':
            m = re.search(r'alloc_bounded\(\((.*?)\) as int', f.get('site_text', ''))
            return '%s#%s@%s' % (fn, lab, m.group(1) if m else f.get('site_text', '')[:60])
        return '%s#%s' % (fn, lab)
    if cls == 'pre':
        return '%s#pre(%s)@%s' % (fn, (lab or '')[8:] or f.get('clause_text', '')[:60], f.get('site_text', '')[:80])
    return '%s#%s@%s' % (fn, cls, f.get('site_text', '')[:80])


def load_known():
    p = os.path.join(VERIF, 'known_findings.json')
    if not os.path.exists(p):
        return {'known': [], 'fixed': []}
    return json.load(open(p))


def match_known(f, known):
    for k in known:
        if k.get('fn') and k['fn'] != f.get('fn'):
            continue
        if k.get('class') and k['class'] != f['class']:
            continue
        if k.get('label') and k['label'] != (f.get('label') or ''):
            continue
        if k.get('match') and k['match'] not in (f.get('site_text', '') + ' | ' + f.get('clause_text', '')):
            continue
        return k
    return None


def decide(prop: str, vres: dict, kani: dict, tier: str, seed: int, t0: float, manifest_entry=None):
    """Returns (exit_code, lines_to_print, evidence_dict)."""
    lines = []
    known_all = load_known()
    known = [k for k in known_all.get('known', [])]
    ev = {'property_id': prop, 'tier': tier, 'seed': seed, 'level': 'proof', 'coverage': {}, 'assumptions': [],
          'wall_s': 0.0, 'violations': 0}
    undecided = []
    if vres.get('nothing_verified'):
        first = next((f for f in vres.get('failures', []) if f.get('class') == 'unsupported'), None)
        undecided.append('Verus stopped before verification (no obligation was checked on this tree): %s'
                         % ((('%s: %s' % (first.get('fn'), first.get('message', '')[:120])) if first else (vres.get('error') or 'compile error'))))
    if vres['status'] in ('extract-error', 'verus-error'):
        undecided.append('%s: %s' % (vres['status'], vres.get('error') or '; '.join(vres.get('hard_errors', [])[:3])))
    rep = vres.get('extraction', {})
    fninfo = {f['path']: f for f in rep.get('fns', [])}
    # --- inventory of obligations serving this property
    fns_serving = {}
    obligations = []
    for f in rep.get('fns', []):
        labs = []
        for lab, src in f.get('ensures', []):
            if prop in label_props(lab):
                labs.append(lab)
        for lab, src, _k in f.get('invariants', []):
            if prop in label_props(lab):
                labs.append(lab)
        fp = fn_props(f.get('props'))
        classes = [k for k, v in fp.items() if prop in v]
        if labs or classes:
            fns_serving[f['path']] = {'file': f['file'], 'lines': [f['line'], f.get('end_line', f['line'])],
                                      'labels': labs, 'classes': classes, 'external': f.get('external', False)}
            for lab in labs:
                obligations.append('%s#%s' % (f['path'], lab))
            for c in classes:
                obligations.append('%s#%s(all)' % (f['path'], c))
    # requires clauses with this property are proved at each call site; count them as obligations of the callee contract
    for f in rep.get('fns', []):
        for lab, src in f.get('requires', []):
            if prop in label_props(lab):
                obligations.append('%s#requires[%s](at every call site)' % (f['path'], lab))
                fns_serving.setdefault(f['path'], {'file': f['file'], 'lines': [f['line'], f.get('end_line', f['line'])],
                                                   'labels': [], 'classes': [], 'external': f.get('external', False)})
    # F5 allocation sites are obligations of C08
    if prop == 'C08':
        for a in rep.get('alloc_sites', []):
            obligations.append('%s#C08.alloc-bound@%s' % (a['fn'], a['expr']))
            fns_serving.setdefault(a['fn'], {'file': a['file'], 'lines': [a['line'], a['line']], 'labels': ['C08.alloc-bound'], 'classes': [], 'external': False})
    # --- failures
    viol, known_hits, uncovered = [], [], []
    failed_obls = set()
    # functions whose proof is incomplete on this tree (a proof hint / loop contract lost its anchor, an outlined region changed):
    # their failing obligations are "undecided", never alarms -- an unprovable overflow or postcondition there may only mean
    # that the hint which proves it is gone
    incomplete = set()
    for u in rep.get('unanchored', []):
        w = u['what']
        incomplete.add(w[3:] if w.startswith('fn ') else w.split()[0])
    for o in rep.get('outlines', []):
        if not o['unchanged']:
            incomplete.add(o['fn'])
    # degraded run (tool/run_verus.py): functions Verus could not take on this tree were left out (contract assumed, body not
    # seen). They and everything that (transitively) calls them are not decided on this tree.
    degraded = {d_['fn']: d_['reason'] for d_ in rep.get('degraded', [])}
    if degraded:
        def last(pth): return re.sub(r'<.*$', '', pth.split('::')[-1])
        tainted = set(degraded)
        changed = True
        while changed:
            changed = False
            for fi_ in rep.get('fns', []):
                if fi_['path'] in tainted:
                    continue
                owner = fi_['path'].split('::')[0] if '::' in fi_['path'] else None
                for c_ in fi_.get('calls', []):
                    hit = False
                    for t_ in tainted:
                        if c_.startswith('.'):
                            hit = last(t_) == c_[1:]
                        elif c_.startswith('Self::'):
                            hit = owner is not None and re.sub(r'<.*$', '', t_) == owner + '::' + c_[6:]
                        elif '::' in c_:
                            hit = re.sub(r'<.*$', '', t_) == c_ or (last(t_) == c_.split('::')[-1] and c_.split('::')[0] in ('ReadBox', 'WriteBox', 'Mp4Box', 'From', 'TryFrom', 'Default'))
                        else:
                            hit = t_ == c_
                        if hit:
                            break
                    if hit:
                        tainted.add(fi_['path']); changed = True
                        break
        for t_ in sorted(tainted):
            if t_ in fns_serving:
                if t_ in degraded:
                    undecided.append('%s is outside what Verus can take on this tree (%s): not verified' % (t_, degraded[t_][:120]))
                else:
                    undecided.append('%s relies on a function that could not be verified on this tree' % t_)
        incomplete |= tainted
    for f in vres.get('failures', []):
        fi = fninfo.get(f.get('fn'))
        raw0 = (fi or {}).get('raw_transfers') or []
        c10_raw = prop == 'C10' and f['class'] == 'post' and any(not x['in_loop'] for x in raw0)
        if f.get('fn') in incomplete and f['class'] != 'unsupported' and not c10_raw:
            if f.get('fn') in fns_serving:
                undecided.append('%s fails in %s, whose proof lost an anchor on this tree' % (f['class'], f.get('fn')))
            continue
        if (f.get('fn') or '').startswith('spec::'):
            undecided.append('specification library does not verify: %s (%s)' % (f['fn'], f['message'][:80]))
            continue
        if f['class'] == 'unsupported':
            # undecided only if the function serves this property
            if f.get('fn') in fns_serving or f.get('fn') is None:
                undecided.append('unsupported construct in %s: %s' % (f.get('fn'), f['message'][:120]))
            continue
        so = f.get('site_origin') or []
        if len(so) >= 2 and so[0] == 'inj' and so[1] in ('proof', 'loop-body-start', 'loop-body-end') and not (f.get('label') or '').startswith('C'):
            # a step of an injected proof (ghost assert / lemma precondition) no longer verifies: the proof is incomplete, which is
            # "undecided" for every property this function serves -- never an alarm (Verus assumes the failed step afterwards, so
            # the function's other obligations are not trustworthy either)
            if f.get('fn') in fns_serving:
                undecided.append('proof hint no longer verifies in %s: %s' % (f.get('fn'), (f.get('site_text') or '')[:100]))
            continue
        if f['class'] == 'rlimit' and f.get('fn') in fns_serving:
            # the solver gave up inside this function: none of its obligations is decided on this tree, whichever way the function
            # serves this property (labelled clause, safety / termination / io class): undecided, never pass and never alarm
            undecided.append('resource limit in %s' % f.get('fn'))
            continue
        ps, why = failure_props(f, fi)
        raw_ = (fi or {}).get('raw_transfers') or []
        if prop == 'C10' and raw_ and f['class'] in ('post', 'inv-end', 'inv-init', 'assert') and prop not in ps:
            # the function hands a buffer to Read::read / Write::write, which may legally transfer less than asked (prelude: weak
            # contract), and one of its output / advance obligations no longer holds. Outside a loop nothing retries the
            # shortfall: short transfers are not transparent (C10). Inside a loop it may be a retry loop that merely lacks an
            # invariant: not decidable here.
            if any(not x['in_loop'] for x in raw_):
                ps = set(ps) | {'C10'}
                f = dict(f, label=(f.get('label') or f['class']) + ' [short transfer of ' + '/'.join(sorted(set('.%s()' % x['name'] for x in raw_ if not x['in_loop']))) + ' not retried]')
            else:
                undecided.append('%s uses a raw short-transfer primitive inside a loop and %s no longer verifies' % (f.get('fn'), obligation_name(f)))
                continue
        if prop not in ps:
            continue
        if f['class'] == 'pre' and why == 'label' and f.get('fn') not in fns_serving:
            # a callee's labelled precondition failing in a caller that is not (yet) under contract for this property:
            # outside the claimed coverage, listed in evidence
            uncovered.append('%s (caller not under contract): %s' % (f.get('fn'), obligation_name(f)))
            continue
        name = obligation_name(f)
        if f['class'] == 'rlimit':
            undecided.append('resource limit in %s' % f.get('fn'))
            continue
        k = match_known(f, known)
        failed_obls.add(name)
        if k is not None and prop in k.get('properties', [prop]):
            known_hits.append((k, f, name))
        else:
            viol.append((f, name))
    # anchors / outlines
    for u in rep.get('unanchored', []):
        fn = u['what'].split()[0] if not u['what'].startswith('fn ') else u['what'][3:]
        if fn in fns_serving or u['what'].startswith('fn '):
            # a contract that matches no function: only relevant if its labels serve this property -> conservative
            undecided.append('lost contract anchor: %s (%s)' % (u['what'], u.get('src')))
    for e in rep.get('external_body', []):
        if e.get('sha256') and not e.get('unchanged') and e['fn'] in fns_serving:
            undecided.append('assumed (external_body) function %s changed: its contract is no longer backed by the pinned text' % e['fn'])
    for o in rep.get('outlines', []):
        if not o['unchanged'] and o['fn'] in fns_serving:
            undecided.append('unverified (outlined) region changed in %s lines %s' % (o['fn'], o['lines']))
    for l in rep.get('loops', []):
        if not l.get('measure') and l['fn'] in fns_serving and 'term' in fns_serving[l['fn']]['classes']:
            undecided.append('loop %d of %s has no termination measure' % (l['ordinal'], l['fn']))
    # --- kani
    kani_obl, kani_fail = [], []
    for h in (kani or {}).get('harnesses', []):
        if prop not in h.get('properties', []):
            continue
        kani_obl.append('kani:%s' % h['name'])
        if h['status'] == 'success':
            continue
        if h['status'] == 'failed':
            f = {'fn': h.get('fn'), 'class': 'kani', 'label': h['name'], 'site_text': h.get('failed_checks', '')[:200],
                 'clause_text': '', 'message': 'Kani harness %s failed' % h['name'], 'rendered': h.get('output_tail', ''),
                 'file': h.get('file'), 'cex': h.get('cex'), 'replay': h.get('replay')}
            k = match_known(f, known)
            if k is not None and prop in k.get('properties', [prop]):
                known_hits.append((k, f, 'kani:' + h['name']))
            else:
                viol.append((f, 'kani:' + h['name']))
            failed_obls.add('kani:' + h['name'])
        else:
            undecided.append('kani harness %s: %s' % (h['name'], h['status']))
    obligations += kani_obl
    # --- report
    seen = set()
    for k, f, name in known_hits:
        if k['id'] in seen:
            continue
        seen.add(k['id'])
        lines.append('KNOWN-FINDING: property=%s %s [%s] %s' % (prop, k['id'], name, k.get('what', '')))
    exit_code = 0
    os.makedirs(os.path.join(VERIF, 'replay'), exist_ok=True)
    n = 0
    vseen = set()
    for f, name in viol:
        if name in vseen:
            continue
        vseen.add(name)
        n += 1
        rp = os.path.join(VERIF, 'replay', '%s-%d.json' % (prop, n))
        cex = f.get('cex')
        with open(rp, 'w') as fh:
            json.dump({'property': prop, 'obligation': name, 'function': f.get('fn'), 'class': f['class'],
                       'label': f.get('label'), 'repo_file': f.get('file'), 'repo_line': f.get('line'),
                       'failing_expression': f.get('site_text'), 'clause': f.get('clause_text'),
                       'verifier_message': f.get('message'), 'verifier_output': f.get('rendered'),
                       'counterexample': cex,
                       'counterexample_replayed_on_real_code': f.get('replay'),
                       'note': 'obligation discharged on the pinned tree and failing on this tree' if not cex else
                               'counterexample from Kani concrete playback; `counterexample_replayed_on_real_code` is the result of running that generated unit test against the real (scratch-copied) crate'},
                      fh, indent=1)
        lines.append('VIOLATION property=%s replay=%s%s' % (prop, rp, '' if cex else ' no-failing-input-found'))
        exit_code = 1
    if not obligations and exit_code == 0:
        undecided.append('no obligations generated for %s (vacuous)' % prop)
    if undecided and exit_code == 0:
        exit_code = 2
        for u in sorted(set(undecided)):
            lines.append('UNDECIDED property=%s %s' % (prop, u))
    # --- evidence
    total = len(set(obligations))
    discharged = total - len({o for o in failed_obls})
    discharged = max(discharged, 0)
    if vres.get('nothing_verified'):
        discharged = 0
    ext = [e for e in rep.get('external_body', [])]
    vfn = vres.get('verus_fn', {})
    fdetail = []
    for path, info in sorted(fns_serving.items()):
        ms = None
        for k, v in vfn.items():
            if k.endswith('::' + path.split('<')[0]) or k.endswith('::' + path):
                ms = sum(x.get('ms') or 0 for x in v)
        fdetail.append({'fn': path, 'file': info['file'], 'lines': info['lines'], 'labels': info['labels'],
                        'unlabelled_classes': info['classes'], 'backend': 'assumed (external_body)' if info['external'] else 'verus/z3',
                        'solver_ms': ms})
    cov = {
        'obligations': total,
        'discharged': discharged,
        'checker_cmd': (vres.get('verus_cmd') or 'verus mp4_verus.rs') + ' (in /verif/gen, file re-extracted from /repo/src on this run)',
        'trusted_base': ['verus ' + str(vres.get('verus_version')), 'z3 (bundled with verus)',
                         'prelude/*.rs: assumed contracts of std::io, byteorder, bytes, num_rational, Duration, slice/String helpers']
                        + ['external_body %s: %s' % (e['fn'], e['reason']) for e in ext if e['fn'] in fns_serving or True][:40],
        'functions_under_contract': fdetail,
        'samples': sorted(set(obligations))[:12],
        'known_findings_hit': sorted({k['id'] for k, _, _ in known_hits}),
        'failed_obligations': sorted(failed_obls)[:50],
        'undecided': sorted(set(undecided)),
        'outside_coverage': sorted(set(uncovered))[:60],
        'solver_ms_total': vres.get('smt_ms'),
        'verus_wall_s': vres.get('verus_s'),
        'cache_hit': vres.get('cache_hit'),
        'kani': [h for h in (kani or {}).get('harnesses', []) if prop in h.get('properties', [])],
        'bounded': [{'harness': h['name'], 'bound': h.get('bound')} for h in (kani or {}).get('harnesses', []) if prop in h.get('properties', []) and h.get('bounded')],
        # proof functions of the specification library (spec/*.rs): lemmas Verus proved on this run (a failing one makes every
        # property undecided); the spec-level round-trip lemmas serve C04/C05
        'spec_lemmas_proved': len([k for k, v in vfn.items() if k.count('::') == 1 and all(x.get('success') for x in v) and any(x.get('mode') == 'proof' for x in v)]),
        'roundtrip_lemmas_proved': sorted(k.split('::')[-1] for k, v in vfn.items() if (k.endswith('_roundtrip') or k.split('::')[-1] in ('lemma_muxed_file', 'lemma_moov_muxed_of_final', 'lemma_layout_start', 'lemma_layout_step')) and all(x.get('success') for x in v)) if prop in ('C01', 'C02', 'C04', 'C05', 'C14') else None,
        'degraded_functions': sorted(d_['fn'] for d_ in rep.get('degraded', [])),
        'extraction_rules_applied': len(rep.get('rules', [])),
        'items_dropped': len(rep.get('dropped', [])),
    }
    ev['coverage'] = cov
    ev['assumptions'] = [
        'std / byteorder / bytes / num_rational behave as prelude/*.rs states (incl. read_exact/write_all retry on short transfers and Interrupted)',
        'machine integers are NOT idealised: u8..u64/usize(64-bit) ranges are enforced by Verus',
        'derive(Clone/PartialEq/Default) output is compiler generated and not verified',
        'extraction rewrites R1..R9 (DESIGN.md 2.1) preserve meaning; dropped items: rendering (to_json, summary, Display/Debug), File based read_mp4, f64 code',
    ] + ['ASSUMED contract (not proved by Verus): %s -- %s' % (e['fn'], e['reason']) for e in ext]
    ev['violations'] = len(vseen)
    ev['wall_s'] = round(time.time() - t0, 2)
    if discharged < total or undecided:
        # schema: proof level wants discharged == obligations; be honest when not
        ev['coverage']['explanation'] = 'not all obligations discharged: %d known finding(s), %d violation(s), %d undecided' % (
            len(seen), len(vseen), len(set(undecided)))
    return exit_code, lines, ev
