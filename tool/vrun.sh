#!/bin/bash
# debugging helper: typecheck/verify a generated file and summarise errors
f=$1; shift
cd $(dirname $f)
verus $(basename $f) --error-format=json --output-json "$@" > out.json 2> err.txt
echo "exit $?"
python3 - <<'PY'
import json,collections
n=0; c=collections.Counter()
for l in open('err.txt'):
    try: d=json.loads(l)
    except: print(l[:300]); continue
    if d.get('level')=='error':
        n+=1
        c[d['message'][:80]]+=1
        if n<=int(__import__('os').environ.get('NERR','25')): print(d['rendered'][:700])
print(n,'errors')
for k,v in c.most_common(40): print(v,k)
PY
