#!/usr/bin/env python3
"""Generate the container round-trip lemmas of spec/roundtrip_containers.rs (stbl, minf, mdia, trak): for each container one
lemma per child ("the child's reference bytes sit at position c of the written stream, so the child is a box there and its own
decode-side relation holds on that stream"), one walk lemma ("the child fold finds exactly the written children"), one lemma
per conjunct of X_at and the final X_at(wr(d, p, X_bytes(b)), p + 8, X_len(b), X_norm(b)).
The hand-written first part of that file (everything before the marker line `// ---- stbl`) is kept; the rest is regenerated.
Usage: python3 tool/gen_cont.py"""
import os
VERIF = os.path.dirname(os.path.dirname(os.path.abspath(__file__)))
def gen(name, Ty, code, fold, muxed_def, norm_def, N, kids, at_name, at_args_norm):
    """kids: list of dict(k, field, opt, cname, code, bt, at, rt, muxed_of_child)"""
    o=[]
    o.append('\n// ---- %s\n%s\n%s\npub open spec fn %s_c(b: %s, p: int, k: int) -> int { p + %s_pre(b, k - 1).len() }\n' % (name, norm_def, muxed_def, name, Ty, name))
    for kd in kids:
        k=kd['k']; f=kd['field']; n=kd['cname']
        sel = 'b.%s->Some_0' % f if kd['opt'] else 'b.%s' % f
        cond = 'b.%s is Some' % f if kd['opt'] else 'true'
        o.append('''#[verifier::rlimit(200)]
pub proof fn lemma_%s_child_%d(d: Seq<u8>, p: int, b: %s)
    requires 0 <= p, %s_muxed(b), %s
    ensures ({ let s = wr(d, p, %s_bytes(b)); let c = %s_c(b, p, %d); let x = %s;
               box_here(s, c, %s_len(x), %#x) && %s })
{
    let all = %s_bytes(b); let s = wr(d, p, all); let c = %s_c(b, p, %d); let x = %s;
    lemma_%s_pre(b);
    lemma_%s_pre_mono(b, %d, %d);
    lemma_%s_starts(x);
    assert(%s_pre(b, %d) == %s_pre(b, %d) + %s_bytes(x));
    lemma_child_placed(d, p, all, %s_pre(b, %d), %s_bytes(x), %s_len(x), %#x);
    %s
}
''' % (name,k,Ty,name,cond,name,name,k,sel,n,kd['code'],kd['at'],name,name,k,sel,name,name,k,N,n,name,k,name,k-1,n,name,k-1,n,n,kd['code'],kd['rt']))
    # boxes predicate
    lines=[]
    for kd in kids:
        if kd['opt']:
            lines.append('(b.%s matches Some(x) ==> box_here(s, %s_c(b, p, %d), %s_len(x), %#x))' % (kd['field'],name,kd['k'],kd['cname'],kd['code']))
        else:
            lines.append('box_here(s, %s_c(b, p, %d), %s_len(b.%s), %#x)' % (name,kd['k'],kd['cname'],kd['field'],kd['code']))
    o.append('pub open spec fn %s_boxes(s: Seq<u8>, p: int, b: %s) -> bool {\n    %s\n}\n' % (name,Ty,'\n    && '.join(lines)))
    # walk
    pick='None::<int>'
    for kd in kids:
        cnd='ty == %s' % kd['bt'] + (' && b.%s is Some' % kd['field'] if kd['opt'] else '')
        pick='(if %s { Some(%s_c(b, p, %d)) } else { %s })' % (cnd,name,kd['k'],pick)
    # chain args: positions for 8 slots
    ks=[kd['k'] for kd in kids]
    pos=[]; pres=[]; names=[]
    for i,kd in enumerate(kids):
        pos.append('%s_c(b, p, %d)' % (name,kd['k'])); pres.append('b.%s is Some' % kd['field'] if kd['opt'] else 'true'); names.append(kd['bt'])
    while len(pos)<8:
        pos.append('end'); pres.append('false'); names.append('BoxType::FreeBox')
    bh=''
    for kd in kids:
        call='lemma_box_here(s, %s_c(b, p, %d), %s_len(%s), %#x);' % (name,kd['k'],kd['cname'],('b.%s->Some_0'%kd['field']) if kd['opt'] else ('b.%s'%kd['field']),kd['code'])
        bh+='    '+(('if b.%s is Some { %s }' % (kd['field'],call)) if kd['opt'] else call)+'\n'
    chain='lemma_chain8' if fold=='last_of' else 'lemma_chain8_m'
    catfn='child_at' if fold=='last_of' else 'child_at_m'
    o.append('''pub proof fn lemma_%s_walk(s: Seq<u8>, p: int, b: %s, ty: BoxType)
    requires 0 <= p, %s_muxed(b), %s_boxes(s, p, b)
    ensures %s(s, p + 8, %s_len(b) as u64, ty) == %s
{
    lemma_%s_pre(b);
    let end = p + %s_len(b);
%s    %s(s, ty, end, %s, end, %s,
        %s);
}
''' % (name,Ty,name,name,catfn,name,pick,name,name,bh,chain,', '.join(pos),', '.join(pres),', '.join(names)))
    # boxes lemma
    calls=''
    for kd in kids:
        c='lemma_%s_child_%d(d, p, b);' % (name,kd['k'])
        calls+='    '+(('if b.%s is Some { %s }' % (kd['field'],c)) if kd['opt'] else c)+'\n'
    o.append('''#[verifier::rlimit(200)]
pub proof fn lemma_%s_boxes(d: Seq<u8>, p: int, b: %s)
    requires 0 <= p, %s_muxed(b)
    ensures %s_boxes(wr(d, p, %s_bytes(b)), p, b)
{
%s}
''' % (name,Ty,name,name,name,calls))
    # one lemma per conjunct of X_at
    rels = at_args_norm['rels']
    for i,(bt, concl, childk) in enumerate(rels):
        cc = ''
        if childk is not None:
            kd=[x for x in kids if x['k']==childk][0]
            c='lemma_%s_child_%d(d, p, b); lemma_box_here(s, %s_c(b, p, %d), %s_len(%s), %#x);' % (name,childk,name,childk,kd['cname'],('b.%s->Some_0'%kd['field']) if kd['opt'] else ('b.%s'%kd['field']),kd['code'])
            cc='    '+(('if b.%s is Some { %s }' % (kd['field'],c)) if kd['opt'] else c)+'\n'
        o.append('''#[verifier::rlimit(200)]
pub proof fn lemma_%s_rel_%d(d: Seq<u8>, p: int, b: %s)
    requires 0 <= p, %s_muxed(b)
    ensures ({ let s = wr(d, p, %s_bytes(b)); let q = p + 8; let size = %s_len(b) as u64; %s })
{
    let s = wr(d, p, %s_bytes(b));
    lemma_%s_boxes(d, p, b);
    lemma_%s_walk(s, p, b, %s);
%s}
''' % (name,i+1,Ty,name,name,name,concl,name,name,name,bt,cc))
    rcalls=''.join('    lemma_%s_rel_%d(d, p, b);\n' % (name,i+1) for i in range(len(rels)))
    o.append('''pub proof fn lemma_%s_roundtrip(d: Seq<u8>, p: int, b: %s)
    requires 0 <= p, %s_muxed(b)
    ensures %s_at(wr(d, p, %s_bytes(b)), p + 8, %s_len(b) as u64, %s_norm(b)),
            box_here(wr(d, p, %s_bytes(b)), p, %s_len(b), %#x)
{
    lemma_%s_pre(b);
    lemma_%s_starts(b);
    lemma_hdr_of_bytes(d, p, %s_bytes(b), %s_len(b), %#x);
%s}
''' % (name,Ty,name,name,name,name,name,name,name,code,name,name,name,name,code,rcalls))
    return ''.join(o)

out=[]
out.append(gen('stbl','StblBox',0x7374626c,'last_of',
  'pub open spec fn stbl_muxed(b: StblBox) -> bool { stbl_wire(b) && (stsd_muxed_avc(b.stsd) || stsd_muxed_aac(b.stsd)) }',
  'pub open spec fn stbl_norm(b: StblBox) -> StblBox { StblBox { stsd: stsd_norm(b.stsd), ..b } }', 8,
  [dict(k=1,field='stsd',opt=False,cname='stsd',code=0x73747364,bt='BoxType::StsdBox',at='stsd_at(s, c + 8, stsd_norm(x))',rt='lemma_stsd_roundtrip(s, c, x);'),
   dict(k=2,field='stts',opt=False,cname='stts',code=0x73747473,bt='BoxType::SttsBox',at='stts_at(s, c, x)',rt='lemma_stts_roundtrip(s, c, x);'),
   dict(k=3,field='ctts',opt=True,cname='ctts',code=0x63747473,bt='BoxType::CttsBox',at='ctts_at(s, c, x)',rt='lemma_ctts_roundtrip(s, c, x);'),
   dict(k=4,field='stss',opt=True,cname='stss',code=0x73747373,bt='BoxType::StssBox',at='stss_at(s, c, x)',rt='lemma_stss_roundtrip(s, c, x);'),
   dict(k=5,field='stsc',opt=False,cname='stsc',code=0x73747363,bt='BoxType::StscBox',at='stsc_at(s, c, x)',rt='lemma_stsc_roundtrip(s, c, x);'),
   dict(k=6,field='stsz',opt=False,cname='stsz',code=0x7374737a,bt='BoxType::StszBox',at='stsz_at(s, c, x)',rt='lemma_stsz_roundtrip(s, c, x);'),
   dict(k=7,field='stco',opt=True,cname='stco',code=0x7374636f,bt='BoxType::StcoBox',at='stco_at(s, c, x)',rt='lemma_stco_roundtrip(s, c, x);'),
   dict(k=8,field='co64',opt=True,cname='co64',code=0x636f3634,bt='BoxType::Co64Box',at='co64_at(s, c, x)',rt='lemma_co64_roundtrip(s, c, x);')],
  'stbl_at', dict(rels=[('BoxType::StsdBox','rel_stsd(s, Some(stsd_norm(b.stsd)), child_at(s, q, size, BoxType::StsdBox))',1),('BoxType::SttsBox','rel_stts(s, Some(b.stts), child_at(s, q, size, BoxType::SttsBox))',2),
     ('BoxType::CttsBox','rel_ctts(s, b.ctts, child_at(s, q, size, BoxType::CttsBox))',3),('BoxType::StssBox','rel_stss(s, b.stss, child_at(s, q, size, BoxType::StssBox))',4),
     ('BoxType::StscBox','rel_stsc(s, Some(b.stsc), child_at(s, q, size, BoxType::StscBox))',5),('BoxType::StszBox','rel_stsz(s, Some(b.stsz), child_at(s, q, size, BoxType::StszBox))',6),
     ('BoxType::StcoBox','rel_stco(s, b.stco, child_at(s, q, size, BoxType::StcoBox))',7),('BoxType::Co64Box','rel_co64(s, b.co64, child_at(s, q, size, BoxType::Co64Box))',8)])))
out.append(gen('minf','MinfBox',0x6d696e66,'last_of',
  'pub open spec fn minf_muxed(b: MinfBox) -> bool { minf_wire(b) && stbl_muxed(b.stbl) }',
  'pub open spec fn minf_norm(b: MinfBox) -> MinfBox { MinfBox { stbl: stbl_norm(b.stbl), ..b } }', 4,
  [dict(k=1,field='vmhd',opt=True,cname='vmhd',code=0x766d6864,bt='BoxType::VmhdBox',at='vmhd_at(s, c, x)',rt='lemma_vmhd_roundtrip(s, c, x);'),
   dict(k=2,field='smhd',opt=True,cname='smhd',code=0x736d6864,bt='BoxType::SmhdBox',at='smhd_at(s, c, x)',rt='lemma_smhd_roundtrip(s, c, x);'),
   dict(k=3,field='dinf',opt=False,cname='dinf',code=0x64696e66,bt='BoxType::DinfBox',at='true',rt='lemma_dinf_bytes_len(x);'),
   dict(k=4,field='stbl',opt=False,cname='stbl',code=0x7374626c,bt='BoxType::StblBox',at='stbl_at(s, c + 8, stbl_len(x) as u64, stbl_norm(x))',rt='lemma_stbl_roundtrip(s, c, x);')],
  'minf_at', dict(rels=[('BoxType::VmhdBox','rel_vmhd(s, b.vmhd, child_at(s, q, size, BoxType::VmhdBox))',1),('BoxType::SmhdBox','rel_smhd(s, b.smhd, child_at(s, q, size, BoxType::SmhdBox))',2),('BoxType::DinfBox','child_at(s, q, size, BoxType::DinfBox) is Some',None),('BoxType::StblBox','rel_stbl(s, Some(stbl_norm(b.stbl)), child_at(s, q, size, BoxType::StblBox))',4)])))
out.append(gen('mdia','MdiaBox',0x6d646961,'last_of',
  'pub open spec fn mdia_muxed(b: MdiaBox) -> bool { mdia_wire(b) && minf_muxed(b.minf) && b.mdhd.language@ == lang_string_spec(lang_code_spec(b.mdhd.language@)) }',
  'pub open spec fn mdia_norm(b: MdiaBox) -> MdiaBox { MdiaBox { minf: minf_norm(b.minf), ..b } }', 3,
  [dict(k=1,field='mdhd',opt=False,cname='mdhd',code=0x6d646864,bt='BoxType::MdhdBox',at='mdhd_at(s, c, x)',rt='lemma_mdhd_roundtrip(s, c, x);'),
   dict(k=2,field='hdlr',opt=False,cname='hdlr',code=0x68646c72,bt='BoxType::HdlrBox',at='hdlr_at(s, c + 8, x)',rt='lemma_hdlr_roundtrip(s, c, x); lemma_hdlr_bytes_len(x);'),
   dict(k=3,field='minf',opt=False,cname='minf',code=0x6d696e66,bt='BoxType::MinfBox',at='minf_at(s, c + 8, minf_len(x) as u64, minf_norm(x))',rt='lemma_minf_roundtrip(s, c, x);')],
  'mdia_at', dict(rels=[('BoxType::MdhdBox','rel_mdhd(s, Some(b.mdhd), child_at(s, q, size, BoxType::MdhdBox))',1),('BoxType::HdlrBox','rel_hdlr(s, Some(b.hdlr), child_at(s, q, size, BoxType::HdlrBox))',2),('BoxType::MinfBox','rel_minf(s, Some(minf_norm(b.minf)), child_at(s, q, size, BoxType::MinfBox))',3)])))
out.append(gen('trak','TrakBox',0x7472616b,'last_of_m',
  'pub open spec fn trak_muxed(b: TrakBox) -> bool { trak_wire(b) && mdia_muxed(b.mdia) }',
  'pub open spec fn trak_norm(b: TrakBox) -> TrakBox { TrakBox { mdia: mdia_norm(b.mdia), ..b } }', 4,
  [dict(k=1,field='tkhd',opt=False,cname='tkhd',code=0x746b6864,bt='BoxType::TkhdBox',at='tkhd_at(s, c, x)',rt='lemma_tkhd_roundtrip(s, c, x);'),
   dict(k=4,field='mdia',opt=False,cname='mdia',code=0x6d646961,bt='BoxType::MdiaBox',at='mdia_at(s, c + 8, mdia_len(x) as u64, mdia_norm(x))',rt='lemma_mdia_roundtrip(s, c, x);')],
  'trak_at', dict(rels=[('BoxType::TkhdBox','rel_tkhd(s, Some(b.tkhd), child_at_m(s, q, size, BoxType::TkhdBox))',1),('BoxType::EdtsBox','child_at_m(s, q, size, BoxType::EdtsBox) is None',None),('BoxType::MetaBox','child_at_m(s, q, size, BoxType::MetaBox) is None',None),('BoxType::MdiaBox','rel_mdia(s, Some(mdia_norm(b.mdia)), child_at_m(s, q, size, BoxType::MdiaBox))',4)])))
p = os.path.join(VERIF, 'spec', 'roundtrip_containers.rs')
t = open(p).read()
if '// ---- stbl\n' in t:
    t = t[:t.index('// ---- stbl\n')].rstrip('\n') + '\n'
open(p, 'w').write(t + ''.join(out))
