#!/usr/bin/env python3
"""Generate the container round-trip lemmas of spec/roundtrip_containers.rs (stbl, minf, mdia, trak): for each container one
lemma per child ("the child's reference bytes sit at position c of the written stream, so the child is a box there and its own
decode-side relation holds on that stream"), one walk lemma ("the child fold finds exactly the written children"), one lemma
per conjunct of X_at and the final X_at(wr(d, p, X_bytes(b)), p + 8, X_len(b), X_norm(b)).
The hand-written first part of that file (everything before the marker line `// ---- stbl`) is kept; the rest is regenerated.
Usage: python3 tool/gen_cont.py"""
import os
VERIF = os.path.dirname(os.path.dirname(os.path.abspath(__file__)))
def gen(name, Ty, code, fold, muxed_def, norm_def, N, kids, at_name, at_args_norm):
    """kids: list of dict(k, field, opt, cname, code, bt, at, rt, muxed_of_child)"""
    o=[]
    o.append('\n// ---- %s\n%s\n%s\npub open spec fn %s_c(b: %s, p: int, k: int) -> int { p + %s_pre(b, k - 1).len() }\n' % (name, norm_def, muxed_def, name, Ty, name))
    for kd in kids:
        k=kd['k']; f=kd['field']; n=kd['cname']
        sel = 'b.%s->Some_0' % f if kd['opt'] else 'b.%s' % f
        cond = 'b.%s is Some' % f if kd['opt'] else 'true'
        o.append('''#[verifier::rlimit(200)]
pub proof fn lemma_%s_child_%d(d: Seq<u8>, p: int, b: %s)
    requires 0 <= p, %s_muxed(b), %s
    ensures ({ let s = wr(d, p, %s_bytes(b)); let c = %s_c(b, p, %d); let x = %s;
               box_here(s, c, %s_len(x), %#x) && %s })
{
    let all = %s_bytes(b); let s = wr(d, p, all); let c = %s_c(b, p, %d); let x = %s;
    lemma_%s_pre(b);
    lemma_%s_pre_mono(b, %d, %d);
    lemma_%s_starts(x);
    assert(%s_pre(b, %d) == %s_pre(b, %d) + %s_bytes(x));
    lemma_child_placed(d, p, all, %s_pre(b, %d), %s_bytes(x), %s_len(x), %#x);
    %s
}
''' % (name,k,Ty,name,cond,name,name,k,sel,n,kd['code'],kd['at'],name,name,k,sel,name,name,k,N,n,name,k,name,k-1,n,name,k-1,n,n,kd['code'],kd['rt']))
    # boxes predicate
    lines=[]
    for kd in kids:
        if kd['opt']:
            lines.append('(b.%s matches Some(x) ==> box_here(s, %s_c(b, p, %d), %s_len(x), %#x))' % (kd['field'],name,kd['k'],kd['cname'],kd['code']))
        else:
            lines.append('box_here(s, %s_c(b, p, %d), %s_len(b.%s), %#x)' % (name,kd['k'],kd['cname'],kd['field'],kd['code']))
    o.append('pub open spec fn %s_boxes(s: Seq<u8>, p: int, b: %s) -> bool {\n    %s\n}\n' % (name,Ty,'\n    && '.join(lines)))
    # walk
    pick='None::<int>'
    for kd in kids:
        cnd='ty == %s' % kd['bt'] + (' && b.%s is Some' % kd['field'] if kd['opt'] else '')
        pick='(if %s { Some(%s_c(b, p, %d)) } else { %s })' % (cnd,name,kd['k'],pick)
    # chain args: positions for 8 slots
    ks=[kd['k'] for kd in kids]
    pos=[]; pres=[]; names=[]
    for i,kd in enumerate(kids):
        pos.append('%s_c(b, p, %d)' % (name,kd['k'])); pres.append('b.%s is Some' % kd['field'] if kd['opt'] else 'true'); names.append(kd['bt'])
    while len(pos)<8:
        pos.append('end'); pres.append('false'); names.append('BoxType::FreeBox')
    bh=''
    for kd in kids:
        call='lemma_box_here(s, %s_c(b, p, %d), %s_len(%s), %#x);' % (name,kd['k'],kd['cname'],('b.%s->Some_0'%kd['field']) if kd['opt'] else ('b.%s'%kd['field']),kd['code'])
        bh+='    '+(('if b.%s is Some { %s }' % (kd['field'],call)) if kd['opt'] else call)+'\n'
    chain='lemma_chain8' if fold=='last_of' else 'lemma_chain8_m'
    catfn='child_at' if fold=='last_of' else 'child_at_m'
    o.append('''pub proof fn lemma_%s_walk(s: Seq<u8>, p: int, b: %s, ty: BoxType)
    requires 0 <= p, %s_muxed(b), %s_boxes(s, p, b)
    ensures %s(s, p + 8, %s_len(b) as u64, ty) == %s
{
    lemma_%s_pre(b);
    let end = p + %s_len(b);
%s    %s(s, ty, end, %s, end, %s,
        %s);
}
''' % (name,Ty,name,name,catfn,name,pick,name,name,bh,chain,', '.join(pos),', '.join(pres),', '.join(names)))
    # boxes lemma
    calls=''
    for kd in kids:
        c='lemma_%s_child_%d(d, p, b);' % (name,kd['k'])
        calls+='    '+(('if b.%s is Some { %s }' % (kd['field'],c)) if kd['opt'] else c)+'\n'
    o.append('''#[verifier::rlimit(200)]
pub proof fn lemma_%s_boxes(d: Seq<u8>, p: int, b: %s)
    requires 0 <= p, %s_muxed(b)
    ensures %s_boxes(wr(d, p, %s_bytes(b)), p, b)
{
%s}
''' % (name,Ty,name,name,name,calls))
    # one lemma per conjunct of X_at
    rels = at_args_norm['rels']
    for i,(bt, concl, childk) in enumerate(rels):
        cc = ''
        if childk is not None:
            kd=[x for x in kids if x['k']==childk][0]
            c='lemma_%s_child_%d(d, p, b); lemma_box_here(s, %s_c(b, p, %d), %s_len(%s), %#x);' % (name,childk,name,childk,kd['cname'],('b.%s->Some_0'%kd['field']) if kd['opt'] else ('b.%s'%kd['field']),kd['code'])
            cc='    '+(('if b.%s is Some { %s }' % (kd['field'],c)) if kd['opt'] else c)+'\n'
        o.append('''#[verifier::rlimit(200)]
pub proof fn lemma_%s_rel_%d(d: Seq<u8>, p: int, b: %s)
    requires 0 <= p, %s_muxed(b)
    ensures ({ let s = wr(d, p, %s_bytes(b)); let q = p + 8; let size = %s_len(b) as u64; %s })
{
    let s = wr(d, p, %s_bytes(b));
    lemma_%s_boxes(d, p, b);
    lemma_%s_walk(s, p, b, %s);
%s}
''' % (name,i+1,Ty,name,name,name,concl,name,name,name,bt,cc))
    rcalls=''.join('    lemma_%s_rel_%d(d, p, b);\n' % (name,i+1) for i in range(len(rels)))
    o.append('''pub proof fn lemma_%s_roundtrip(d: Seq<u8>, p: int, b: %s)
    requires 0 <= p, %s_muxed(b)
    ensures %s_at(wr(d, p, %s_bytes(b)), p + 8, %s_len(b) as u64, %s_norm(b)),
            box_here(wr(d, p, %s_bytes(b)), p, %s_len(b), %#x)
{
    lemma_%s_pre(b);
    lemma_%s_starts(b);
    lemma_hdr_of_bytes(d, p, %s_bytes(b), %s_len(b), %#x);
%s}
''' % (name,Ty,name,name,name,name,name,name,name,code,name,name,name,name,code,rcalls))
    return ''.join(o)

out=[]
out.append(gen('stbl','StblBox',0x7374626c,'last_of',
  'pub open spec fn stbl_muxed(b: StblBox) -> bool { stbl_wire(b) && (stsd_muxed_avc(b.stsd) || stsd_muxed_aac(b.stsd)) }',
  'pub open spec fn stbl_norm(b: StblBox) -> StblBox { StblBox { stsd: stsd_norm(b.stsd), ..b } }', 8,
  [dict(k=1,field='stsd',opt=False,cname='stsd',code=0x73747364,bt='BoxType::StsdBox',at='stsd_at(s, c + 8, stsd_norm(x))',rt='lemma_stsd_roundtrip(s, c, x);'),
   dict(k=2,field='stts',opt=False,cname='stts',code=0x73747473,bt='BoxType::SttsBox',at='stts_at(s, c, x)',rt='lemma_stts_roundtrip(s, c, x);'),
   dict(k=3,field='ctts',opt=True,cname='ctts',code=0x63747473,bt='BoxType::CttsBox',at='ctts_at(s, c, x)',rt='lemma_ctts_roundtrip(s, c, x);'),
   dict(k=4,field='stss',opt=True,cname='stss',code=0x73747373,bt='BoxType::StssBox',at='stss_at(s, c, x)',rt='lemma_stss_roundtrip(s, c, x);'),
   dict(k=5,field='stsc',opt=False,cname='stsc',code=0x73747363,bt='BoxType::StscBox',at='stsc_at(s, c, x)',rt='lemma_stsc_roundtrip(s, c, x);'),
   dict(k=6,field='stsz',opt=False,cname='stsz',code=0x7374737a,bt='BoxType::StszBox',at='stsz_at(s, c, x)',rt='lemma_stsz_roundtrip(s, c, x);'),
   dict(k=7,field='stco',opt=True,cname='stco',code=0x7374636f,bt='BoxType::StcoBox',at='stco_at(s, c, x)',rt='lemma_stco_roundtrip(s, c, x);'),
   dict(k=8,field='co64',opt=True,cname='co64',code=0x636f3634,bt='BoxType::Co64Box',at='co64_at(s, c, x)',rt='lemma_co64_roundtrip(s, c, x);')],
  'stbl_at', dict(rels=[('BoxType::StsdBox','rel_stsd(s, Some(stsd_norm(b.stsd)), child_at(s, q, size, BoxType::StsdBox))',1),('BoxType::SttsBox','rel_stts(s, Some(b.stts), child_at(s, q, size, BoxType::SttsBox))',2),
     ('BoxType::CttsBox','rel_ctts(s, b.ctts, child_at(s, q, size, BoxType::CttsBox))',3),('BoxType::StssBox','rel_stss(s, b.stss, child_at(s, q, size, BoxType::StssBox))',4),
     ('BoxType::StscBox','rel_stsc(s, Some(b.stsc), child_at(s, q, size, BoxType::StscBox))',5),('BoxType::StszBox','rel_stsz(s, Some(b.stsz), child_at(s, q, size, BoxType::StszBox))',6),
     ('BoxType::StcoBox','rel_stco(s, b.stco, child_at(s, q, size, BoxType::StcoBox))',7),('BoxType::Co64Box','rel_co64(s, b.co64, child_at(s, q, size, BoxType::Co64Box))',8)])))
out.append(gen('minf','MinfBox',0x6d696e66,'last_of',
  'pub open spec fn minf_muxed(b: MinfBox) -> bool { minf_wire(b) && stbl_muxed(b.stbl) }',
  'pub open spec fn minf_norm(b: MinfBox) -> MinfBox { MinfBox { stbl: stbl_norm(b.stbl), ..b } }', 4,
  [dict(k=1,field='vmhd',opt=True,cname='vmhd',code=0x766d6864,bt='BoxType::VmhdBox',at='vmhd_at(s, c, x)',rt='lemma_vmhd_roundtrip(s, c, x);'),
   dict(k=2,field='smhd',opt=True,cname='smhd',code=0x736d6864,bt='BoxType::SmhdBox',at='smhd_at(s, c, x)',rt='lemma_smhd_roundtrip(s, c, x);'),
   dict(k=3,field='dinf',opt=False,cname='dinf',code=0x64696e66,bt='BoxType::DinfBox',at='true',rt='lemma_dinf_bytes_len(x);'),
   dict(k=4,field='stbl',opt=False,cname='stbl',code=0x7374626c,bt='BoxType::StblBox',at='stbl_at(s, c + 8, stbl_len(x) as u64, stbl_norm(x))',rt='lemma_stbl_roundtrip(s, c, x);')],
  'minf_at', dict(rels=[('BoxType::VmhdBox','rel_vmhd(s, b.vmhd, child_at(s, q, size, BoxType::VmhdBox))',1),('BoxType::SmhdBox','rel_smhd(s, b.smhd, child_at(s, q, size, BoxType::SmhdBox))',2),('BoxType::DinfBox','child_at(s, q, size, BoxType::DinfBox) is Some',None),('BoxType::StblBox','rel_stbl(s, Some(stbl_norm(b.stbl)), child_at(s, q, size, BoxType::StblBox))',4)])))
out.append(gen('mdia','MdiaBox',0x6d646961,'last_of',
  'pub open spec fn mdia_muxed(b: MdiaBox) -> bool { mdia_wire(b) && minf_muxed(b.minf) && b.mdhd.language@ == lang_string_spec(lang_code_spec(b.mdhd.language@)) }',
  'pub open spec fn mdia_norm(b: MdiaBox) -> MdiaBox { MdiaBox { minf: minf_norm(b.minf), ..b } }', 3,
  [dict(k=1,field='mdhd',opt=False,cname='mdhd',code=0x6d646864,bt='BoxType::MdhdBox',at='mdhd_at(s, c, x)',rt='lemma_mdhd_roundtrip(s, c, x);'),
   dict(k=2,field='hdlr',opt=False,cname='hdlr',code=0x68646c72,bt='BoxType::HdlrBox',at='hdlr_at(s, c + 8, x)',rt='lemma_hdlr_roundtrip(s, c, x); lemma_hdlr_bytes_len(x);'),
   dict(k=3,field='minf',opt=False,cname='minf',code=0x6d696e66,bt='BoxType::MinfBox',at='minf_at(s, c + 8, minf_len(x) as u64, minf_norm(x))',rt='lemma_minf_roundtrip(s, c, x);')],
  'mdia_at', dict(rels=[('BoxType::MdhdBox','rel_mdhd(s, Some(b.mdhd), child_at(s, q, size, BoxType::MdhdBox))',1),('BoxType::HdlrBox','rel_hdlr(s, Some(b.hdlr), child_at(s, q, size, BoxType::HdlrBox))',2),('BoxType::MinfBox','rel_minf(s, Some(minf_norm(b.minf)), child_at(s, q, size, BoxType::MinfBox))',3)])))
out.append(gen('trak','TrakBox',0x7472616b,'last_of_m',
  'pub open spec fn trak_muxed(b: TrakBox) -> bool { trak_wire(b) && mdia_muxed(b.mdia) }',
  'pub open spec fn trak_norm(b: TrakBox) -> TrakBox { TrakBox { mdia: mdia_norm(b.mdia), ..b } }', 4,
  [dict(k=1,field='tkhd',opt=False,cname='tkhd',code=0x746b6864,bt='BoxType::TkhdBox',at='tkhd_at(s, c, x)',rt='lemma_tkhd_roundtrip(s, c, x);'),
   dict(k=4,field='mdia',opt=False,cname='mdia',code=0x6d646961,bt='BoxType::MdiaBox',at='mdia_at(s, c + 8, mdia_len(x) as u64, mdia_norm(x))',rt='lemma_mdia_roundtrip(s, c, x);')],
  'trak_at', dict(rels=[('BoxType::TkhdBox','rel_tkhd(s, Some(b.tkhd), child_at_m(s, q, size, BoxType::TkhdBox))',1),('BoxType::EdtsBox','child_at_m(s, q, size, BoxType::EdtsBox) is None',None),('BoxType::MetaBox','child_at_m(s, q, size, BoxType::MetaBox) is None',None),('BoxType::MdiaBox','rel_mdia(s, Some(mdia_norm(b.mdia)), child_at_m(s, q, size, BoxType::MdiaBox))',4)])))

MOOV = """
// ---- moov: mvhd, then the tracks (hand-written: induction over the track list)
pub open spec fn moov_muxed(b: MoovBox) -> bool {
    moov_wire(b) && b.mvex is None && forall|i: int| 0 <= i < b.traks@.len() ==> trak_muxed(#[trigger] b.traks@[i])
}
/// position of track i in the reference bytes written at p
pub open spec fn moov_t(b: MoovBox, p: int, i: int) -> int { p + 8 + mvhd_len(b.mvhd) + traks_len(b.traks@, i) }
pub open spec fn moov_track_boxes(s: Seq<u8>, p: int, b: MoovBox) -> bool {
    forall|i: int| 0 <= i < b.traks@.len() ==> box_here(s, #[trigger] moov_t(b, p, i), trak_len(b.traks@[i]), 0x7472616b)
}
pub proof fn lemma_traks_bytes_mono(v: Seq<TrakBox>, j: int, k: int)
    requires 0 <= j <= k <= v.len()
    ensures is_prefix(traks_bytes(v, j), traks_bytes(v, k))
    decreases k
{
    if j < k { lemma_traks_bytes_mono(v, j, k - 1); }
}
pub proof fn lemma_prefix_left(a: Seq<u8>, x: Seq<u8>, y: Seq<u8>)
    requires is_prefix(x, y)
    ensures is_prefix(a + x, a + y)
{
    assert forall|i: int| 0 <= i < (a + x).len() implies (a + x)[i] == (a + y)[i] by {
        if i >= a.len() { assert((a + x)[i] == x[i - a.len()]); assert((a + y)[i] == y[i - a.len()]); }
    }
}
#[verifier::rlimit(200)]
pub proof fn lemma_moov_trak(d: Seq<u8>, p: int, b: MoovBox, i: int)
    requires 0 <= p, moov_muxed(b), 0 <= i < b.traks@.len()
    ensures ({ let s = wr(d, p, moov_bytes(b)); let c = moov_t(b, p, i); let x = b.traks@[i];
               box_here(s, c, trak_len(x), 0x7472616b) && trak_at(s, c + 8, trak_len(x) as u64, trak_norm(x)) })
{
    let v = b.traks@; let n = v.len() as int; let x = v[i];
    let all = moov_bytes(b); let s = wr(d, p, all); let c = moov_t(b, p, i);
    assert(trak_muxed(x));
    lemma_moov_bytes_len(b);
    lemma_traks_bytes_len(v, i);
    lemma_trak_pre(x);
    lemma_trak_starts(x);
    let pre = moov_head(b) + traks_bytes(v, i);
    assert(all =~= moov_head(b) + traks_bytes(v, n));
    assert(pre + trak_bytes(x) =~= moov_head(b) + traks_bytes(v, i + 1));
    lemma_traks_bytes_mono(v, i + 1, n);
    lemma_prefix_left(moov_head(b), traks_bytes(v, i + 1), traks_bytes(v, n));
    lemma_child_placed(d, p, all, pre, trak_bytes(x), trak_len(x), 0x7472616b);
    lemma_trak_roundtrip(s, c, x);
}
#[verifier::rlimit(200)]
pub proof fn lemma_moov_mvhd(d: Seq<u8>, p: int, b: MoovBox)
    requires 0 <= p, moov_muxed(b)
    ensures ({ let s = wr(d, p, moov_bytes(b)); box_here(s, p + 8, mvhd_len(b.mvhd), 0x6d766864) && mvhd_at(s, p + 8, b.mvhd)
               && box_here(s, p, moov_len(b), 0x6d6f6f76) })
{
    broadcast use lemma_be_bytes_len;
    let v = b.traks@; let n = v.len() as int;
    let all = moov_bytes(b); let s = wr(d, p, all);
    let h = hdr_bytes(moov_len(b) as u64, 0x6d6f6f76);
    lemma_moov_bytes_len(b);
    lemma_mvhd_pre_len(b.mvhd);
    lemma_mvhd_starts(b.mvhd);
    assert(all =~= (h + mvhd_bytes(b.mvhd)) + traks_bytes(v, n));
    lemma_prefix_concat(h + mvhd_bytes(b.mvhd), traks_bytes(v, n));
    lemma_child_placed(d, p, all, h, mvhd_bytes(b.mvhd), mvhd_len(b.mvhd), 0x6d766864);
    lemma_mvhd_roundtrip(s, p + 8, b.mvhd);
    lemma_prefix_concat(h, mvhd_bytes(b.mvhd));
    lemma_prefix_trans(h, h + mvhd_bytes(b.mvhd), all);
    lemma_hdr_of_bytes(d, p, all, moov_len(b), 0x6d6f6f76);
}
/// the walk over the run of track boxes leaves every other type's accumulator alone ...
pub proof fn lemma_moov_walk_other(s: Seq<u8>, p: int, b: MoovBox, k: int, ty: BoxType, acc: Option<int>)
    requires moov_muxed(b), moov_track_boxes(s, p, b), 0 <= k <= b.traks@.len(), ty != BoxType::TrakBox
    ensures last_of_m(s, moov_t(b, p, k), moov_t(b, p, b.traks@.len() as int), ty, acc) == acc
    decreases b.traks@.len() - k
{
    let n = b.traks@.len() as int;
    if k < n {
        assert(trak_wire(b.traks@[k]));
        lemma_box_here(s, moov_t(b, p, k), trak_len(b.traks@[k]), 0x7472616b);
        assert(moov_t(b, p, k + 1) == moov_t(b, p, k) + trak_len(b.traks@[k]));
        lemma_traks_len_mono(b.traks@, k + 1, n);
        lemma_moov_walk_other(s, p, b, k + 1, ty, acc);
    }
}
/// ... and collects the positions of the tracks in order
pub open spec fn moov_offs(b: MoovBox, p: int, k: int) -> Seq<int> { Seq::new((b.traks@.len() - k) as nat, |j: int| moov_t(b, p, k + j)) }
pub proof fn lemma_moov_walk_traks(s: Seq<u8>, p: int, b: MoovBox, k: int, acc: Seq<int>)
    requires moov_muxed(b), moov_track_boxes(s, p, b), 0 <= k <= b.traks@.len()
    ensures all_of_m(s, moov_t(b, p, k), moov_t(b, p, b.traks@.len() as int), BoxType::TrakBox, acc) == acc + moov_offs(b, p, k)
    decreases b.traks@.len() - k
{
    let n = b.traks@.len() as int;
    if k < n {
        assert(trak_wire(b.traks@[k]));
        lemma_box_here(s, moov_t(b, p, k), trak_len(b.traks@[k]), 0x7472616b);
        assert(moov_t(b, p, k + 1) == moov_t(b, p, k) + trak_len(b.traks@[k]));
        lemma_traks_len_mono(b.traks@, k + 1, n);
        lemma_moov_walk_traks(s, p, b, k + 1, acc.push(moov_t(b, p, k)));
        assert(acc.push(moov_t(b, p, k)) + moov_offs(b, p, k + 1) =~= acc + moov_offs(b, p, k));
    } else {
        assert(acc + moov_offs(b, p, k) =~= acc);
    }
}
/// what the reader's relation says about a movie box b2 that is b with every track normalised (9.2: avcC length size)
pub open spec fn moov_same_norm(b: MoovBox, b2: MoovBox) -> bool {
    &&& b2.mvhd == b.mvhd && b2.mvex is None && b2.meta is None && b2.udta is None
    &&& b2.traks@.len() == b.traks@.len() && forall|i: int| 0 <= i < b.traks@.len() ==> #[trigger] b2.traks@[i] == trak_norm(b.traks@[i])
}
#[verifier::rlimit(300)]
pub proof fn lemma_moov_roundtrip(d: Seq<u8>, p: int, b: MoovBox, b2: MoovBox)
    requires 0 <= p, moov_muxed(b), moov_same_norm(b, b2)
    ensures moov_at(wr(d, p, moov_bytes(b)), p + 8, moov_len(b) as u64, b2), box_here(wr(d, p, moov_bytes(b)), p, moov_len(b), 0x6d6f6f76)
{
    let s = wr(d, p, moov_bytes(b)); let n = b.traks@.len() as int;
    let q = p + 8; let end = p + moov_len(b);
    lemma_moov_mvhd(d, p, b);
    assert forall|i: int| 0 <= i < n implies box_here(s, #[trigger] moov_t(b, p, i), trak_len(b.traks@[i]), 0x7472616b)
        && trak_at(s, moov_t(b, p, i) + 8, trak_len(b.traks@[i]) as u64, trak_norm(b.traks@[i])) by { lemma_moov_trak(d, p, b, i); }
    assert(moov_track_boxes(s, p, b));
    lemma_box_here(s, q, mvhd_len(b.mvhd), 0x6d766864);
    assert(end == moov_t(b, p, n) && q + mvhd_len(b.mvhd) == moov_t(b, p, 0));
    lemma_traks_len_mono(b.traks@, 0, n);
    assert forall|i: int| 0 <= i < n implies trak_len(#[trigger] b.traks@[i]) >= 0 by { assert(trak_wire(b.traks@[i])); }
    // the first child is mvhd; then the tracks
    lemma_moov_walk_other(s, p, b, 0, BoxType::MvhdBox, Some(q));
    lemma_moov_walk_other(s, p, b, 0, BoxType::MvexBox, None);
    lemma_moov_walk_other(s, p, b, 0, BoxType::MetaBox, None);
    lemma_moov_walk_other(s, p, b, 0, BoxType::UdtaBox, None);
    lemma_moov_walk_traks(s, p, b, 0, Seq::empty());
    assert(Seq::<int>::empty() + moov_offs(b, p, 0) =~= moov_offs(b, p, 0));
    assert(child_at_m(s, q, moov_len(b) as u64, BoxType::MvhdBox) == Some(q));
    assert(child_at_m(s, q, moov_len(b) as u64, BoxType::MvexBox) is None);
    assert(child_at_m(s, q, moov_len(b) as u64, BoxType::MetaBox) is None);
    assert(child_at_m(s, q, moov_len(b) as u64, BoxType::UdtaBox) is None);
    assert(all_of_m(s, q, end, BoxType::TrakBox, Seq::empty()) == moov_offs(b, p, 0));
    assert forall|i: int| 0 <= i < n implies trak_at(s, child_q(s, moov_offs(b, p, 0)[i]), child_size(s, moov_offs(b, p, 0)[i]), #[trigger] b2.traks@[i]) by {
        lemma_box_here(s, moov_t(b, p, i), trak_len(b.traks@[i]), 0x7472616b);
    }
}
"""
out.append(MOOV)

p = os.path.join(VERIF, 'spec', 'roundtrip_containers.rs')
t = open(p).read()
if '// ---- stbl\n' in t:
    t = t[:t.index('// ---- stbl\n')].rstrip('\n') + '\n'
open(p, 'w').write(t + ''.join(out))
