#!/usr/bin/env python3
"""Apply each seeded change to /repo, run the registered checks, undo.  usage: seed_test.py <seed-dir>...  (dirs containing patch.diff)"""
import sys, os, subprocess, json
VERIF = os.path.dirname(os.path.dirname(os.path.abspath(__file__)))
man = json.load(open(os.path.join(VERIF, 'MANIFEST.json')))
props = [c['property_id'] for c in man['checks']]
# work on a private worktree of /repo's HEAD so that /repo itself is never touched
REPO = '/var/tmp/vp-seedrepo-%d' % os.getpid()
subprocess.run(['git', '-C', '/repo', 'worktree', 'add', '--detach', REPO], capture_output=True)
import atexit
atexit.register(lambda: subprocess.run(['git', '-C', '/repo', 'worktree', 'remove', '--force', REPO], capture_output=True))
for d in sys.argv[1:]:
    d = os.path.abspath(d.rstrip('/'))
    pf = os.path.join(d, 'patch.diff')
    if subprocess.run(['git', '-C', REPO, 'status', '--porcelain', '--untracked-files=no'], capture_output=True, text=True).stdout.strip():
        print('REPO DIRTY, abort'); sys.exit(3)
    r = subprocess.run(['git', '-C', REPO, 'apply', '--3way', pf], capture_output=True, text=True)
    if r.returncode != 0:
        r = subprocess.run(['git', '-C', REPO, 'apply', pf], capture_output=True, text=True)
    if r.returncode != 0:
        print('%-8s APPLY-FAILED %s' % (os.path.basename(d), r.stderr.strip()[:100]))
        subprocess.run(['git', '-C', REPO, 'reset', '-q', '--hard'])
        continue
    res = {}
    try:
        for p in props:
            rr = subprocess.run([os.path.join(VERIF, 'check'), p, '--repo', REPO], capture_output=True, text=True, cwd=VERIF)
            res[p] = rr.returncode
            if rr.returncode == 1 and 'VIOLATION property=' not in rr.stdout:
                res[p] = 3   # crashed check: neither alarm nor pass
            if rr.returncode != 0:
                lines = [l for l in rr.stdout.split('\n') if l.startswith(('VIOLATION', 'UNDECIDED'))][:3]
                res[p + '_why'] = lines
    finally:
        subprocess.run(['git', '-C', REPO, 'reset', '-q', '--hard'])
    alarms = [p for p in props if res.get(p) == 1]
    und = [p for p in props if res.get(p) in (2, 3)]
    target = os.path.basename(d).split('-')[0]
    verdict = 'CAUGHT' if alarms else ('UNDECIDED' if und else 'MISSED')
    print('%-8s %-9s alarms=%s undecided=%s' % (os.path.basename(d), verdict, ','.join(alarms), ','.join(und)))
    for p in alarms[:2]:
        for l in res.get(p + '_why', [])[:1]:
            rp = l.split('replay=')[1].split()[0] if 'replay=' in l else None
            if rp and os.path.exists(rp):
                print('          ', p, json.load(open(rp))['obligation'][:140])
    for p in und[:1]:
        print('          ', res.get(p + '_why'))
    sys.stdout.flush()
