#!/bin/bash
# debugging helper: verify one function of the generated file with expanded errors:  tool/vf.sh m_stts write_box [extra verus args]
cd /verif/gen && verus mp4_verus.rs --verify-only-module "$1" --verify-function "$2" --expand-errors --multiple-errors 5 --error-format=json "${@:3}" 2>&1 | python3 -c "
import sys,json
for l in sys.stdin:
    l=l.strip()
    if l.startswith('{'):
        try: d=json.loads(l)
        except: continue
        if d.get('level') in ('error','note') : print(d.get('rendered','')[:3000])
    elif l: print(l)
"
