#!/usr/bin/env python3
"""Kani side: scratch copy of /repo's sources + harness module, cargo kani, result parsing, caching.
Results are cached per (tree hash, harness file) under /verif/.cache/kani-<key>.json; one cargo-kani invocation
runs every harness of the requested tier, property checks then pick the harnesses that serve them."""
import os, sys, json, re, subprocess, hashlib, shutil, tempfile, time, fcntl

VERIF = os.path.dirname(os.path.dirname(os.path.abspath(__file__)))
KDIR = os.path.join(VERIF, 'kani')


def _hash(repo, tier):
    h = hashlib.sha256()
    for root, dirs, files in sorted(os.walk(os.path.join(repo, 'src'))):
        dirs.sort()
        for f in sorted(files):
            if f.endswith('.rs'):
                p = os.path.join(root, f)
                h.update(p.encode()); h.update(open(p, 'rb').read())
    for f in ('verif_kani.rs', 'harnesses.json'):
        h.update(open(os.path.join(KDIR, f), 'rb').read())
    h.update(open(os.path.abspath(__file__), 'rb').read())
    h.update(tier.encode())
    return h.hexdigest()[:24]


def registry():
    return json.load(open(os.path.join(KDIR, 'harnesses.json')))


def run(repo='/repo', prop=None, tier='quick'):
    reg = registry()
    wanted = [h for h in reg['harnesses'] if (tier == 'thorough' or h['tier'] == 'quick')]
    if prop is not None and not any(prop in h['properties'] for h in wanted):
        return {'harnesses': []}
    cache_dir = os.path.join(VERIF, '.cache')
    os.makedirs(cache_dir, exist_ok=True)
    key = _hash(repo, tier)
    cpath = os.path.join(cache_dir, 'kani-%s.json' % key)
    lock = open(os.path.join(cache_dir, 'kani.lock'), 'w')
    fcntl.flock(lock, fcntl.LOCK_EX)
    try:
        if os.path.exists(cpath) and not os.environ.get('VP_NO_CACHE'):
            res = json.load(open(cpath))
        else:
            res = run_uncached(repo, wanted, reg)
            with open(cpath + '.tmp', 'w') as fh:
                json.dump(res, fh)
            os.replace(cpath + '.tmp', cpath)
    finally:
        fcntl.flock(lock, fcntl.LOCK_UN)
        lock.close()
    return res


def run_uncached(repo, wanted, reg):
    t0 = time.time()
    d = tempfile.mkdtemp(prefix='vp-kani.', dir=os.environ.get('TMPDIR', '/var/tmp'))
    out = {'harnesses': [], 'wall_s': 0, 'cmd': ''}
    try:
        shutil.copytree(os.path.join(repo, 'src'), os.path.join(d, 'src'))
        # Cargo.lock is git-ignored in /repo: a fresh checkout / worktree has none, fall back to the committed copy
        lock = os.path.join(repo, 'Cargo.lock')
        shutil.copy(lock if os.path.exists(lock) else os.path.join(KDIR, 'Cargo.lock'), os.path.join(d, 'Cargo.lock'))
        ct = open(os.path.join(repo, 'Cargo.toml')).read()
        ct = re.sub(r'\[\[bench\]\][^\[]*', '', ct)
        ct = re.sub(r'\[dev-dependencies\][^\[]*', '', ct)
        ct += '\n[workspace]\n'
        open(os.path.join(d, 'Cargo.toml'), 'w').write(ct)
        os.makedirs(os.path.join(d, '.cargo'))
        open(os.path.join(d, '.cargo', 'config.toml'), 'w').write('[net]\noffline = true\n')
        shutil.copy(os.path.join(KDIR, 'verif_kani.rs'), os.path.join(d, 'src', 'verif_kani.rs'))
        with open(os.path.join(d, 'src', 'lib.rs'), 'a') as fh:
            fh.write('\n#[cfg(kani)]\nmod verif_kani;\n')
        exposed = []
        for f, a, b in reg.get('expose', []):
            p = os.path.join(d, f)
            s = open(p).read()
            if a in s and b not in s:
                s = s.replace(a, b, 1)
                open(p, 'w').write(s)
                exposed.append('%s: %s' % (f, b))
            elif b not in s:
                exposed.append('%s: MISSING %s' % (f, a))
        out['exposed'] = exposed
        # per-harness timeout: a harness that blows up on a changed tree is "undecided" for its properties, it must not stall the check
        cmd = ['cargo', 'kani', '-Z', 'unstable-options', '--harness-timeout', '10m' if any(h['tier'] != 'quick' for h in wanted) else '4m',
               '--output-format', 'terse', '-j', '8']
        for h in wanted:
            cmd += ['--harness', h['name']]
        out['cmd'] = ' '.join(cmd)
        env = dict(os.environ, CARGO_NET_OFFLINE='true')
        # Kani's own --harness-timeout did not stop a runaway CBMC here: watchdog on the whole run (own process group, killed on
        # expiry); harnesses that produced no verdict by then are reported 'not-run' (undecided for their properties)
        import signal
        budget = 900 if all(h['tier'] == 'quick' for h in wanted) else 2400
        pr = subprocess.Popen(cmd, cwd=d, stdout=subprocess.PIPE, stderr=subprocess.PIPE, text=True, env=env, start_new_session=True)
        try:
            so, se = pr.communicate(timeout=budget)
            txt = so + '\n' + se
        except subprocess.TimeoutExpired:
            try:
                os.killpg(pr.pid, signal.SIGKILL)
            except Exception:
                pass
            so, se = pr.communicate()
            txt = (so or '') + '\n' + (se or '') + '\nWATCHDOG: run killed after %d s' % budget
        out['exit'] = pr.returncode
        try:
            os.makedirs(os.path.join(VERIF, 'gen'), exist_ok=True)
            open(os.path.join(VERIF, 'gen', 'kani_last_output.txt'), 'w').write(txt)
        except Exception:
            pass
        # parse per-harness sections
        status = {}
        cur = {}
        # with -j the output is a sequence of "Thread N: Checking harness X..." and "Thread N: <result block>" chunks
        chunks = re.split(r'(?m)^(?=Thread \d+: )', txt)
        if len(chunks) <= 1:
            chunks = re.split(r'(?m)^(?=Checking harness )', txt)
        for ch in chunks:
            m = re.match(r'(?:Thread (\d+): )?Checking harness (\S+?)\.\.\.', ch)
            th = (re.match(r'Thread (\d+): ', ch) or [None, '-'])[1] if ch.startswith('Thread') else '-'
            if m:
                cur[m.group(1) or '-'] = m.group(2).split('::')[-1]
                rest = ch[m.end():]
            else:
                rest = ch
            name = cur.get(th)
            if name is None:
                continue
            if 'CBMC timed out' in rest or 'timed out' in rest.lower():
                status[name] = ('timeout', rest[:1500])      # a time limit is never a verdict
            elif 'VERIFICATION:- SUCCESSFUL' in rest:
                status[name] = ('success', rest[:3000])
            elif 'VERIFICATION:- FAILED' in rest and name not in status:
                status[name] = ('failed', rest[:3000])
        for h in wanted:
            st, s = status.get(h['name'], ('not-run', txt[-3000:]))
            e = dict(h)
            e['status'] = st
            if st == 'failed':
                fc = re.findall(r'(?m)^Failed Checks: (.*)$', s)
                e['failed_checks'] = '; '.join(fc)[:400]
                cex = re.findall(r'(?s)Concrete playback unit test.*?```(.*?)```', s)
                e['cex'] = cex[0].strip()[:2000] if cex else None
                e['output_tail'] = s[-1500:]
            elif st != 'success':
                e['output_tail'] = s[-1500:]
            m = re.search(r'Verification Time: ([0-9.]+)s', s)
            if m:
                e['solver_s'] = float(m.group(1))
            if st == 'failed':
                # second pass for this harness alone: Kani writes its counterexample as a unit test into the scratch copy of the
                # source (concrete playback, in place) and that test is then RUN against the real code (cargo kani playback):
                # the replay reproduces the violation iff the generated test fails
                try:
                    p2 = subprocess.run(['cargo', 'kani', '-Z', 'concrete-playback', '--concrete-playback=inplace', '--output-format', 'terse',
                                         '--harness', h['name']], cwd=d, capture_output=True, text=True, env=env, timeout=1200)
                    src_h = open(os.path.join(d, 'src', 'verif_kani.rs')).read()
                    tests = re.findall(r'(?s)(#\[test\]\s*fn (kani_concrete_playback_\w+)\(\).*?\n}\n)', src_h)
                    if tests:
                        e['cex'] = tests[0][0].strip()[:2500]
                        p3 = subprocess.run(['cargo', 'kani', 'playback', '-Z', 'concrete-playback', '--', tests[0][1]],
                                            cwd=d, capture_output=True, text=True, env=env, timeout=1200)
                        t3 = p3.stdout + p3.stderr
                        e['replay'] = {'test': tests[0][1], 'reproduced': ('FAILED' in t3 or 'panicked' in t3) and 'test result' in t3,
                                       'output_tail': t3[-1200:]}
                    else:
                        e['cex_error'] = 'no concrete playback test generated: ' + (p2.stdout + p2.stderr)[-300:]
                except Exception as ex:
                    e['cex_error'] = str(ex)[:200]
            out['harnesses'].append(e)
    finally:
        shutil.rmtree(d, ignore_errors=True)
    out['wall_s'] = round(time.time() - t0, 1)
    return out


if __name__ == '__main__':
    tier = sys.argv[1] if len(sys.argv) > 1 else 'quick'
    r = run('/repo', None, tier)
    print('wall', r.get('wall_s'), 'exposed', r.get('exposed'))
    for h in r['harnesses']:
        print('%-42s %-8s %s %s' % (h['name'], h['status'], h.get('solver_s', ''), h.get('failed_checks', '')[:100]))
        if h['status'] not in ('success',):
            print('    ', (h.get('output_tail') or '')[-800:].replace('\n', '\n     '))
