"""Minimal, lexer-correct Rust tokenizer and item locator used by vp-extract.

It never re-prints an expression: callers slice the original text by token offsets.
"""
import re
from dataclasses import dataclass, field
from typing import List, Optional

IDENT_RE = re.compile(r'[A-Za-z_][A-Za-z0-9_]*')
NUM_RE = re.compile(r'(0x[0-9a-fA-F_]+|0b[01_]+|0o[0-7_]+|[0-9][0-9_]*(\.[0-9][0-9_]*)?([eE][+-]?[0-9_]+)?)([iuf](8|16|32|64|128|size))?')
PUNCT3 = ['<<=', '>>=', '...', '..=']
PUNCT2 = ['::', '->', '=>', '==', '!=', '<=', '>=', '&&', '||', '+=', '-=', '*=', '/=', '%=', '^=', '&=', '|=', '<<', '>>', '..']


@dataclass
class Tok:
    kind: str   # ident, num, str, char, lifetime, punct, comment, ws, open, close
    text: str
    start: int
    end: int
    line: int


class LexError(Exception):
    pass


def lex(src: str, keep_trivia: bool = False) -> List[Tok]:
    toks: List[Tok] = []
    i, n, line = 0, len(src), 1

    def emit(kind, s, e):
        nonlocal line
        t = Tok(kind, src[s:e], s, e, line)
        if keep_trivia or kind not in ('ws', 'comment'):
            toks.append(t)
        line += src.count('\n', s, e)

    while i < n:
        c = src[i]
        if c in ' \t\r\n':
            j = i
            while j < n and src[j] in ' \t\r\n':
                j += 1
            emit('ws', i, j); i = j; continue
        if src.startswith('//', i):
            j = src.find('\n', i)
            j = n if j < 0 else j
            emit('comment', i, j); i = j; continue
        if src.startswith('/*', i):
            depth, j = 1, i + 2
            while j < n and depth:
                if src.startswith('/*', j): depth += 1; j += 2
                elif src.startswith('*/', j): depth -= 1; j += 2
                else: j += 1
            if depth: raise LexError('unterminated block comment at line %d' % line)
            emit('comment', i, j); i = j; continue
        # raw strings / byte strings
        m = re.match(r'(b|c)?r(#*)"', src[i:i + 40])
        if m:
            hashes = m.group(2)
            endpat = '"' + hashes
            j = src.find(endpat, i + m.end())
            if j < 0: raise LexError('unterminated raw string at line %d' % line)
            j += len(endpat)
            emit('str', i, j); i = j; continue
        if c == '"' or (c in 'bc' and i + 1 < n and src[i + 1] == '"'):
            j = i + (1 if c == '"' else 2)
            while j < n and src[j] != '"':
                j += 2 if src[j] == '\\' else 1
            if j >= n: raise LexError('unterminated string at line %d' % line)
            emit('str', i, j + 1); i = j + 1; continue
        if c == "'" or (c == 'b' and i + 1 < n and src[i + 1] == "'"):
            k = i + (1 if c == "'" else 2)
            # char literal or lifetime
            if k < n and src[k] == '\\':
                j = k + 2
                while j < n and src[j] != "'":
                    j += 1
                emit('char', i, j + 1); i = j + 1; continue
            if k + 1 < n and src[k + 1] == "'" :
                emit('char', i, k + 2); i = k + 2; continue
            # multi-byte char literal like 'é'
            mm = IDENT_RE.match(src, k)
            if c == "'" and mm:
                if mm.end() < n and src[mm.end()] == "'" and mm.end() - k == 1:
                    emit('char', i, mm.end() + 1); i = mm.end() + 1; continue
                emit('lifetime', i, mm.end()); i = mm.end(); continue
            # non-ascii single char
            j = src.find("'", k)
            if j > 0 and j - k <= 4:
                emit('char', i, j + 1); i = j + 1; continue
            raise LexError('bad quote at line %d' % line)
        m = IDENT_RE.match(src, i)
        if m:
            # raw identifiers r#foo
            emit('ident', i, m.end()); i = m.end(); continue
        if c.isdigit():
            m = NUM_RE.match(src, i)
            j = m.end()
            emit('num', i, j); i = j; continue
        if c in '([{':
            emit('open', i, i + 1); i += 1; continue
        if c in ')]}':
            emit('close', i, i + 1); i += 1; continue
        for p in PUNCT3:
            if src.startswith(p, i):
                emit('punct', i, i + 3); i += 3; break
        else:
            for p in PUNCT2:
                if src.startswith(p, i):
                    emit('punct', i, i + 2); i += 2; break
            else:
                emit('punct', i, i + 1); i += 1
    return toks


def match_close(toks: List[Tok], i: int) -> int:
    """toks[i] is an open delimiter; return index of its matching close."""
    pairs = {'(': ')', '[': ']', '{': '}'}
    stack = []
    j = i
    while j < len(toks):
        t = toks[j]
        if t.kind == 'open':
            stack.append(pairs[t.text])
        elif t.kind == 'close':
            if not stack or stack[-1] != t.text:
                raise LexError('mismatched delimiter %r at line %d' % (t.text, t.line))
            stack.pop()
            if not stack:
                return j
        j += 1
    raise LexError('unclosed delimiter at line %d' % toks[i].line)


@dataclass
class Item:
    kind: str                 # use, mod, struct, enum, impl, fn, const, static, type, trait, macro_rules, macro_call, other
    name: str
    attrs: List[str]
    start: int                # byte offset of first token (after attrs) in source
    end: int                  # byte offset one past the last token
    attr_start: int
    line: int
    toks: List[Tok] = field(default_factory=list)   # tokens of the item (without attrs)
    body_open: Optional[int] = None    # index into toks of the `{` opening the body (if any)
    body_close: Optional[int] = None


ITEM_KW = {'use', 'mod', 'struct', 'enum', 'impl', 'fn', 'const', 'static', 'type', 'trait', 'macro_rules', 'union', 'extern'}


def split_items(src: str, toks: List[Tok], lo: int, hi: int) -> List[Item]:
    """Split toks[lo:hi] (a module or impl body) into items."""
    items = []
    i = lo
    while i < hi:
        attrs = []
        attr_start = toks[i].start
        # attributes
        while i < hi and toks[i].text == '#':
            j = i + 1
            if toks[j].text == '!':
                j += 1
            assert toks[j].text == '[', 'bad attribute at line %d' % toks[i].line
            k = match_close(toks, j)
            attrs.append(src[toks[i].start:toks[k].end])
            i = k + 1
        if i >= hi:
            break
        first = i
        # visibility / qualifiers
        j = i
        while j < hi:
            t = toks[j]
            if t.text == 'pub':
                j += 1
                if j < hi and toks[j].text == '(':
                    j = match_close(toks, j) + 1
                continue
            if t.text in ('unsafe', 'async', 'default'):
                j += 1; continue
            if t.text == 'const' and j + 1 < hi and toks[j + 1].text in ('fn', 'unsafe'):
                j += 1; continue
            if t.text == 'extern' and j + 1 < hi and toks[j + 1].kind == 'str':
                j += 2; continue
            break
        kw = toks[j].text if j < hi else ''
        kind, name = 'other', ''
        if kw in ITEM_KW:
            kind = kw
            if kw == 'macro_rules':
                # macro_rules ! name { ... }
                name = toks[j + 2].text
            elif kw == 'impl':
                name = ''
            elif kw == 'use':
                name = ''
            else:
                name = toks[j + 1].text
        elif toks[j].kind == 'ident' and j + 1 < hi and toks[j + 1].text == '!':
            kind, name = 'macro_call', toks[j].text
        # find end: first `;` or `{...}` at depth 0
        k = j
        body_open = body_close = None
        while k < hi:
            t = toks[k]
            if t.kind == 'open':
                c = match_close(toks, k)
                if t.text == '{':
                    body_open, body_close = k, c
                    k = c
                    # struct X {..} / fn {..} / impl {..} end here; macro_rules too
                    # `macro_call! {...}` ends here as well; `macro_call!(...);` handled by `;`
                    if kind in ('use', 'const', 'static', 'type'):
                        k += 1; continue
                    break
                k = c + 1
                continue
            if t.text == ';':
                break
            k += 1
        if k >= hi:
            k = hi - 1
        # tuple struct `struct X(..);` ends with ';' ; unit items end with ';'
        it = Item(kind, name, attrs, toks[first].start, toks[k].end, attr_start, toks[first].line,
                  toks[first:k + 1],
                  None if body_open is None else body_open - first,
                  None if body_close is None else body_close - first)
        items.append(it)
        i = k + 1
    return items


def parse_file(src: str):
    toks = lex(src)
    return toks, split_items(src, toks, 0, len(toks))
