#!/usr/bin/env python3
"""Authoring aid (NOT part of the checks): emits spec + contract text for the fixed-layout boxes from field lists
transcribed from the syntax tables of ISO/IEC 14496-12.  Output files are committed and read like hand-written ones:
  spec/layouts_fixed.rs   contracts/fixed.vpc
Field kinds:
  F(val, w, kind='u', cond=None)   value field: `val` is a spec expression over `b`; kind 'i' = signed two's complement
  R(w, cond=None)                  reserved / pre_defined integer field: the encoder writes 0, the decoder ignores it
  Z(n)                             n reserved zero bytes
"""
import sys


class F:
    def __init__(self, val, w, kind='u', cond=None, name=None, rd=None, rt=None):
        self.val, self.w, self.kind, self.cond, self.name, self.rd, self.rt = val, w, kind, cond, name, rd, rt


def R(w, cond=None):
    return F(None, w, 'u', cond)


class Z:
    def __init__(self, n):
        self.n, self.w, self.cond, self.val, self.kind = n, n, None, None, 'z'


V1 = 'b.version == 1'
V0 = 'b.version == 0'
MATRIX = [F('b.matrix.%s' % x, 4, 'i') for x in 'abucdvxyw']


def versioned(val, name=None):
    return [F(val, 8, 'u', V1), F('(%s as u32)' % val, 4, 'u', V0)]


BOXES = [
    dict(name='mvhd', ty='MvhdBox', code=0x6d766864, iso='8.2.2 MovieHeaderBox', versioned=True,
         fields=versioned('b.creation_time')[0:1] + versioned('b.modification_time')[0:1] + [F('b.timescale', 4, cond=V1)] + versioned('b.duration')[0:1]
                + versioned('b.creation_time')[1:2] + versioned('b.modification_time')[1:2] + [F('b.timescale', 4, cond=V0)] + versioned('b.duration')[1:2]
                + [F('b.rate.0.numer', 4), F('b.volume.0.numer', 2), R(2), R(8)] + MATRIX + [Z(24), F('b.next_track_id', 4)],
         wire='b.rate.0.denom == 0x10000 && b.volume.0.denom == 0x100 && (b.version == 0 ==> b.creation_time <= 0xffff_ffff && b.modification_time <= 0xffff_ffff && b.duration <= 0xffff_ffff)',
         rd='b.rate.0.denom == 0x10000 && b.volume.0.denom == 0x100 && (b.version == 0 ==> b.creation_time <= 0xffff_ffff && b.modification_time <= 0xffff_ffff && b.duration <= 0xffff_ffff)'),
    dict(name='tkhd', ty='TkhdBox', code=0x746b6864, iso='8.3.2 TrackHeaderBox', versioned=True,
         fields=[F('b.creation_time', 8, cond=V1), F('b.modification_time', 8, cond=V1), F('b.track_id', 4, cond=V1), R(4, V1), F('b.duration', 8, cond=V1),
                 F('(b.creation_time as u32)', 4, cond=V0), F('(b.modification_time as u32)', 4, cond=V0), F('b.track_id', 4, cond=V0), R(4, V0), F('(b.duration as u32)', 4, cond=V0),
                 R(8), F('b.layer', 2), F('b.alternate_group', 2), F('b.volume.0.numer', 2), R(2)] + MATRIX + [F('b.width.0.numer', 4), F('b.height.0.numer', 4)],
         wire='b.volume.0.denom == 0x100 && b.width.0.denom == 0x10000 && b.height.0.denom == 0x10000 && (b.version == 0 ==> b.creation_time <= 0xffff_ffff && b.modification_time <= 0xffff_ffff && b.duration <= 0xffff_ffff)',
         rd='b.volume.0.denom == 0x100 && b.width.0.denom == 0x10000 && b.height.0.denom == 0x10000 && (b.version == 0 ==> b.creation_time <= 0xffff_ffff && b.modification_time <= 0xffff_ffff && b.duration <= 0xffff_ffff)'),
    dict(name='mdhd', ty='MdhdBox', code=0x6d646864, iso='8.4.2 MediaHeaderBox', versioned=True,
         fields=[F('b.creation_time', 8, cond=V1), F('b.modification_time', 8, cond=V1), F('b.timescale', 4, cond=V1), F('b.duration', 8, cond=V1),
                 F('(b.creation_time as u32)', 4, cond=V0), F('(b.modification_time as u32)', 4, cond=V0), F('b.timescale', 4, cond=V0), F('(b.duration as u32)', 4, cond=V0),
                 F('lang_code_spec(b.language@)', 2, rd='b.language@ == lang_string_spec({dec})'), R(2)],
         rt_requires='b.language@ == lang_string_spec(lang_code_spec(b.language@))',
         wire='(b.version == 0 ==> b.creation_time <= 0xffff_ffff && b.modification_time <= 0xffff_ffff && b.duration <= 0xffff_ffff)',
         rd='(b.version == 0 ==> b.creation_time <= 0xffff_ffff && b.modification_time <= 0xffff_ffff && b.duration <= 0xffff_ffff)'),
    dict(name='mfhd', ty='MfhdBox', code=0x6d666864, iso='8.8.5 MovieFragmentHeaderBox', versioned=False,
         fields=[F('b.sequence_number', 4)], wire='true', rd='true'),
    dict(name='mehd', ty='MehdBox', code=0x6d656864, iso='8.8.2 MovieExtendsHeaderBox', versioned=True,
         fields=[F('b.fragment_duration', 8, cond=V1), F('(b.fragment_duration as u32)', 4, cond=V0)],
         wire='(b.version == 0 ==> b.fragment_duration <= 0xffff_ffff)', rd='(b.version == 0 ==> b.fragment_duration <= 0xffff_ffff)'),
    dict(name='trex', ty='TrexBox', code=0x74726578, iso='8.8.3 TrackExtendsBox', versioned=False,
         fields=[F('b.track_id', 4), F('b.default_sample_description_index', 4), F('b.default_sample_duration', 4), F('b.default_sample_size', 4), F('b.default_sample_flags', 4)],
         wire='true', rd='true'),
    dict(name='tfdt', ty='TfdtBox', code=0x74666474, iso='8.8.12 TrackFragmentBaseMediaDecodeTimeBox', versioned=True,
         fields=[F('b.base_media_decode_time', 8, cond=V1), F('(b.base_media_decode_time as u32)', 4, cond=V0)],
         wire='(b.version == 0 ==> b.base_media_decode_time <= 0xffff_ffff)', rd='(b.version == 0 ==> b.base_media_decode_time <= 0xffff_ffff)'),
    dict(name='tfhd', ty='TfhdBox', code=0x74666864, iso='8.8.7 TrackFragmentHeaderBox', versioned=False,
         fields=[F('b.track_id', 4),
                 F('b.base_data_offset->Some_0', 8, cond='0x01u32 & b.flags > 0'),
                 F('b.sample_description_index->Some_0', 4, cond='0x02u32 & b.flags > 0'),
                 F('b.default_sample_duration->Some_0', 4, cond='0x08u32 & b.flags > 0'),
                 F('b.default_sample_size->Some_0', 4, cond='0x10u32 & b.flags > 0'),
                 F('b.default_sample_flags->Some_0', 4, cond='0x20u32 & b.flags > 0')],
         wire='((0x01u32 & b.flags > 0) <==> b.base_data_offset is Some) && ((0x02u32 & b.flags > 0) <==> b.sample_description_index is Some) && ((0x08u32 & b.flags > 0) <==> b.default_sample_duration is Some) && ((0x10u32 & b.flags > 0) <==> b.default_sample_size is Some) && ((0x20u32 & b.flags > 0) <==> b.default_sample_flags is Some)',
         rd='((0x01u32 & b.flags > 0) <==> b.base_data_offset is Some) && ((0x02u32 & b.flags > 0) <==> b.sample_description_index is Some) && ((0x08u32 & b.flags > 0) <==> b.default_sample_duration is Some) && ((0x10u32 & b.flags > 0) <==> b.default_sample_size is Some) && ((0x20u32 & b.flags > 0) <==> b.default_sample_flags is Some)'),
    dict(name='vmhd', ty='VmhdBox', code=0x766d6864, iso='12.1.2 VideoMediaHeaderBox', versioned=False,
         fields=[F('b.graphics_mode', 2), F('b.op_color.red', 2), F('b.op_color.green', 2), F('b.op_color.blue', 2)], wire='true', rd='true'),
    dict(name='smhd', ty='SmhdBox', code=0x736d6864, iso='12.2.2 SoundMediaHeaderBox', versioned=False,
         fields=[F('b.balance.0.numer', 2, 'i'), R(2)], wire='b.balance.0.denom == 0x100', rd='b.balance.0.denom == 0x100'),
]

VPCC_PACK = '((b.bit_depth << 4) | (b.chroma_subsampling << 1) | (b.video_full_range_flag as u8))'
BOXES.append(
    dict(name='vpcc', ty='VpccBox', code=0x76706343, iso='VP Codec ISO Media File Format Binding 2.2 VPCodecConfigurationBox', versioned=False,
         fields=[F('b.profile', 1), F('b.level', 1),
                 F(VPCC_PACK, 1, rd='b.bit_depth == {dec} >> 4 && b.chroma_subsampling == ({dec} << 4) >> 5 && b.video_full_range_flag == ({dec} & 0x01 == 1)',
                   rt='let bd = b.bit_depth; let cs = b.chroma_subsampling; let fr = b.video_full_range_flag as u8; let pk = (bd << 4) | (cs << 1) | fr; '
                      'assert(pk >> 4 == bd && (pk << 4) >> 5 == cs && (pk & 0x01 == 1) == (fr == 1)) by(bit_vector) requires bd < 16, cs < 8, fr <= 1, pk == (bd << 4) | (cs << 1) | fr;'),
                 F('b.color_primaries', 1), F('b.transfer_characteristics', 1), F('b.matrix_coefficients', 1), F('b.codec_initialization_data_size', 2)],
         wire='b.bit_depth < 16 && b.chroma_subsampling < 8', rd='true'))

DEC = {1: None, 2: 'be16', 3: 'be24', 4: 'be32', 6: 'be48', 8: 'be64'}


def spec(bx):
    n, ty, code = bx['name'], bx['ty'], bx['code']
    fs = bx['fields']
    o = []
    o.append('// ---- %s: ISO/IEC 14496-12 section %s extends FullBox(\'%s\', version, flags)' % (n, bx['iso'], n))
    o.append('pub open spec fn %s_off_0(b: %s) -> int { 12 }' % (n, ty))
    for k, f in enumerate(fs):
        inc = ('(if %s { %dint } else { 0int })' % (f.cond, f.w)) if f.cond else str(f.w)
        o.append('pub open spec fn %s_off_%d(b: %s) -> int { %s_off_%d(b) + %s }' % (n, k + 1, ty, n, k, inc))
    o.append('pub open spec fn %s_len(b: %s) -> int { %s_off_%d(b) }' % (n, ty, n, len(fs)))
    o.append('')
    o.append('pub open spec fn %s_rd_wire(b: %s) -> bool { flags_wire(b.flags)%s && (%s) }' % (n, ty, ' && b.version <= 1' if bx['versioned'] else '', bx['rd']))
    o.append('pub open spec fn %s_wire(b: %s) -> bool { flags_wire(b.flags)%s && (%s) }' % (n, ty, ' && b.version <= 1' if bx['versioned'] else '', bx['wire']))
    o.append('')
    o.append('/// layout: what the decoder must have seen (reserved fields are not constrained on input)')
    o.append('pub open spec fn %s_at(d: Seq<u8>, p: int, b: %s) -> bool {' % (n, ty))
    o.append('    &&& fullbox_at(d, p, b.version, b.flags)')
    for k, f in enumerate(fs):
        if f.val is None:
            continue
        dec = ('d[p + %s_off_%d(b)]' % (n, k)) if f.w == 1 else '%s(d, p + %s_off_%d(b))' % (DEC[f.w], n, k)
        if f.kind == 'i':
            dec = '(%s as i%d)' % (dec, f.w * 8)
        c = ('(%s) ==> ' % f.cond) if f.cond else ''
        if getattr(f, 'rd', None):
            o.append('    &&& (%s%s)' % (c, f.rd.replace('{dec}', dec)))
        else:
            o.append('    &&& (%s%s == %s)' % (c, dec, f.val))
    o.append('}')
    o.append('')
    o.append('/// reference encoder, field by field')
    o.append('pub open spec fn %s_pre_0(b: %s) -> Seq<u8> { hdr_bytes(%s_len(b) as u64, 0x%08x) + fullbox_bytes(b.version, b.flags) }' % (n, ty, n, code))
    for k, f in enumerate(fs):
        if f.kind == 'z':
            by = 'Seq::new(%dnat, |i: int| 0u8)' % f.n
        elif f.val is None:
            by = 'be_bytes(0, %d)' % f.w
        elif f.kind == 'i':
            by = 'be_bytes((%s as u%d) as nat, %d)' % (f.val, f.w * 8, f.w)
        elif f.w == 1:
            by = 'seq![%s]' % f.val
        else:
            by = 'be_bytes(%s as nat, %d)' % (f.val, f.w)
        if f.cond:
            o.append('pub open spec fn %s_pre_%d(b: %s) -> Seq<u8> { if %s { %s_pre_%d(b) + %s } else { %s_pre_%d(b) } }' % (n, k + 1, ty, f.cond, n, k, by, n, k))
        else:
            o.append('pub open spec fn %s_pre_%d(b: %s) -> Seq<u8> { %s_pre_%d(b) + %s }' % (n, k + 1, ty, n, k, by))
    o.append('pub open spec fn %s_bytes(b: %s) -> Seq<u8> { %s_pre_%d(b) }' % (n, ty, n, len(fs)))
    o.append('')
    o.append('pub proof fn lemma_%s_pre_len(b: %s)' % (n, ty))
    o.append('    ensures ' + ', '.join('%s_pre_%d(b).len() == %s_off_%d(b)' % (n, k, n, k) for k in range(len(fs) + 1)))
    o.append('{')
    o.append('    broadcast use lemma_be_bytes_len;')
    o.append('}')
    o.append('')
    return '\n'.join(o)


def contract(bx):
    n, ty = bx['name'], bx['ty']
    o = []
    o.append('# src/mp4box/%s.rs' % n)
    o.append('fn {%s::get_type,%s::box_type}' % (ty, ty))
    o.append('  ensures')
    o.append('    [C05.%s.type]  r == BoxType::%s' % (n, ty))
    o.append('')
    o.append('fn {%s::get_size,%s::box_size}' % (ty, ty))
    o.append('  props safety:C17')
    if bx['versioned']:
        o.append('  requires')
        o.append('    [C04.%s.version]  self.version <= 1' % n)
    o.append('  ensures')
    o.append('    [C04+C02.%s.size]  r == %s_len(*self)' % (n, n))
    o.append('')
    o.append('fn %s::read_box' % ty)
    o.append('  ensures')
    # the decoded header fields feed the fragment lookups (C09) / the reported track and movie configuration (C14)
    extra = {'tfhd': '+C09', 'tfdt': '+C09', 'trex': '+C09', 'mehd': '+C09', 'mvhd': '+C14', 'tkhd': '+C14', 'mdhd': '+C14'}.get(n, '')
    o.append('    [C04+C05%s.%s.decode]  r matches Ok(b) ==> %s_at(old(reader).data(), old(reader).pos() - 8, b) && %s_rd_wire(b)' % (extra, n, n, n))
    o.append('')
    o.append('fn %s::write_box' % ty)
    o.append('  requires')
    o.append('    [C04+C17.%s.wire]  %s_wire(*self)' % (n, n))
    o.append('  ensures')
    o.append('    [C04+C02.%s.written]   r matches Ok(n) ==> n == %s_len(*self) && final(writer).pos() == old(writer).pos() + n' % (n, n))
    o.append('    [C04+C05.%s.encode]    r is Ok ==> final(writer).data() == wr(old(writer).data(), old(writer).pos() as int, %s_bytes(*self))' % (n, n))
    o.append('    [C10.%s.only-io]       r matches Err(e) ==> e is IoError' % n)
    o.append('  proof body-start')
    o.append('    broadcast use lemma_be_bytes_len;')
    o.append('    lemma_%s_pre_len(*self);' % n)
    o.append('  end')
    # stepwise: after the j-th write statement (1 = box header, 2 = version/flags, 3.. = fields in source order)
    o.append('  proof [C04+C05.encode.step] after-write #2')
    o.append('    lemma_wr_wr(old(writer).data(), old(writer).pos() as int, hdr_bytes(%s_len(*self) as u64, 0x%08x), fullbox_bytes(self.version, self.flags));' % (n, bx['code']))
    o.append('    assert(writer.data() == wr(old(writer).data(), old(writer).pos() as int, %s_pre_0(*self)));' % n)
    o.append('  end')
    for k, f in enumerate(bx['fields']):
        if f.kind == 'z':
            by = 'Seq::new(%dnat, |i: int| 0u8)' % f.n
        elif f.val is None:
            by = 'be_bytes(0, %d)' % f.w
        elif f.kind == 'i':
            by = 'be_bytes((%s as u%d) as nat, %d)' % (f.val.replace('b.', 'self.'), f.w * 8, f.w)
        elif f.w == 1:
            by = 'seq![%s]' % f.val.replace('b.', 'self.')
        else:
            by = 'be_bytes(%s as nat, %d)' % (f.val.replace('b.', 'self.'), f.w)
        o.append('  proof [C04+C05.encode.step] after-write #%d' % (k + 3))
        o.append('    lemma_wr_wr(old(writer).data(), old(writer).pos() as int, %s_pre_%d(*self), %s);' % (n, k, by))
        o.append('    assert(writer.data() == wr(old(writer).data(), old(writer).pos() as int, %s_pre_%d(*self)));' % (n, k + 1))
        o.append('    assert(writer.pos() == old(writer).pos() + %s_off_%d(*self));' % (n, k + 1))
        o.append('  end')
    o.append('')
    return '\n'.join(o)


def roundtrip(bx):
    """lemma: the layout predicate holds on the stream obtained by writing the reference bytes (spec-level round trip)"""
    n, ty, code = bx['name'], bx['ty'], bx['code']
    fs = bx['fields']
    o = []
    o.append('pub proof fn lemma_%s_roundtrip(d: Seq<u8>, p: int, b: %s)' % (n, ty))
    o.append('    requires 0 <= p, %s_wire(b)%s' % (n, (', ' + bx['rt_requires']) if bx.get('rt_requires') else ''))
    o.append('    ensures %s_at(wr(d, p, %s_bytes(b)), p, b)' % (n, n))
    o.append('{')
    o.append('    broadcast use lemma_be_bytes_len;')
    o.append('    lemma_%s_pre_len(b);' % n)
    o.append('    let all = %s_bytes(b);' % n)
    o.append('    lemma_prefix_refl(all);')

    def by_of(f):
        if f.kind == 'z':
            return 'Seq::new(%dnat, |i: int| 0u8)' % f.n
        if f.val is None:
            return 'be_bytes(0, %d)' % f.w
        if f.kind == 'i':
            return 'be_bytes((%s as u%d) as nat, %d)' % (f.val, f.w * 8, f.w)
        if f.w == 1:
            return 'seq![%s]' % f.val
        return 'be_bytes(%s as nat, %d)' % (f.val, f.w)
    # every prefix pre_k is a prefix of the whole
    for k in range(len(fs) - 1, -1, -1):
        f = fs[k]
        call = 'lemma_prefix_app(%s_pre_%d(b), %s, all);' % (n, k, by_of(f))
        o.append('    ' + (('if %s { %s }' % (f.cond, call)) if f.cond else call))
    # FullBox header
    o.append('    let h = hdr_bytes(%s_len(b) as u64, 0x%08x);' % (n, code))
    o.append('    assert(%s_pre_0(b) == (h + seq![b.version]) + be_bytes(b.flags as nat, 3)) by { assert(h + (seq![b.version] + be_bytes(b.flags as nat, 3)) =~= (h + seq![b.version]) + be_bytes(b.flags as nat, 3)); }' % n)
    o.append('    lemma_rd3(d, p, h + seq![b.version], b.flags as nat, all);')
    o.append('    lemma_prefix_app(h + seq![b.version], be_bytes(b.flags as nat, 3), all);')
    o.append('    assert((h + seq![b.version])[8] == b.version);')
    o.append('    lemma_wr_index(d, p, all, 8);')
    for k, f in enumerate(fs):
        if f.val is None:
            continue
        v = ('(%s as u%d) as nat' % (f.val, f.w * 8)) if f.kind == 'i' else ('%s as nat' % f.val)
        if f.kind == 'i':
            o.append('    let x%d = %s; assert(((x%d as u%d) as i%d) == x%d) by(bit_vector);' % (k, f.val, k, f.w * 8, f.w * 8, k))
        call = ('lemma_rd1s(d, p, %s_pre_%d(b), %s, all);' % (n, k, f.val)) if (f.w == 1 and f.kind != 'i') else 'lemma_rd%d(d, p, %s_pre_%d(b), %s, all);' % (f.w, n, k, v)
        if getattr(f, 'rt', None):
            o.append('    ' + f.rt)
        o.append('    ' + (('if %s { %s }' % (f.cond, call)) if f.cond else call))
    o.append('}')
    o.append('')
    return '\n'.join(o)


if __name__ == '__main__':
    what = sys.argv[1]
    if what == 'roundtrip':
        print('// GENERATED by tool/gen_layouts.py roundtrip (committed text): spec-level round trip of the fixed-layout boxes.')
        print('// X_at(wr(d, p, X_bytes(b)), p, b): the decoder\'s layout predicate holds on what the reference encoder writes.')
    for bx in BOXES:
        print(spec(bx) if what == 'spec' else roundtrip(bx) if what == 'roundtrip' else contract(bx))
