#!/usr/bin/env python3
"""Authoring aid (NOT part of the checks): emits the spec + contract text for the run-length / list table boxes,
which all share the 14496-12 shape  FullBox + entry_count + entry[entry_count].
Outputs are committed files (spec/layouts_tables.rs, contracts/tables.vpc) and are read like hand-written ones."""
import sys

TABLES = [
    # box, entry type (None = scalar), code, fourcc, iso ref, fields (name, width, kind)
    ('stts', 'SttsBox', 'SttsEntry', 0x73747473, '8.6.1.2 TimeToSampleBox', [('sample_count', 4, 'u'), ('sample_delta', 4, 'u')]),
    ('ctts', 'CttsBox', 'CttsEntry', 0x63747473, '8.6.1.3 CompositionOffsetBox', [('sample_count', 4, 'u'), ('sample_offset', 4, 'i')]),
    ('stss', 'StssBox', None, 0x73747373, '8.6.2 SyncSampleBox', [('sample_number', 4, 'u')]),
    ('stco', 'StcoBox', None, 0x7374636f, '8.7.5 ChunkOffsetBox', [('chunk_offset', 4, 'u')]),
    ('co64', 'Co64Box', None, 0x636f3634, '8.7.5 ChunkLargeOffsetBox', [('chunk_offset', 8, 'u')]),
    ('stsc', 'StscBox', 'StscEntry', 0x73747363, '8.7.4 SampleToChunkBox', [('first_chunk', 4, 'u'), ('samples_per_chunk', 4, 'u'), ('sample_description_index', 4, 'u')]),
]

DEC = {4: 'be32', 8: 'be64', 2: 'be16'}


def spec(t):
    name, box, ety, code, iso, fields = t
    W = sum(w for _, w, _ in fields)
    elem = ety or {4: 'u32', 8: 'u64'}[fields[0][1]]
    o = []
    o.append('// ---- %s: ISO/IEC 14496-12 section %s extends FullBox(\'%s\', version, flags)' % (name, iso, name))
    o.append('//   unsigned int(32) entry_count; { %s } [entry_count]' % ' '.join(
        '%s int(%d) %s;' % ('signed' if k == 'i' else 'unsigned', w * 8, n) for n, w, k in fields))
    o.append('pub open spec fn %s_len(b: %s) -> int { 16 + %d * (b.entries@.len() as int) }' % (name, box, W))
    o.append('')
    o.append('/// every field fits the width the format gives it')
    o.append('pub open spec fn %s_fields_wire(b: %s) -> bool {' % (name, box))
    o.append('    flags_wire(b.flags) && b.entries@.len() <= 0xffff_ffff')
    o.append('}')
    o.append('')
    o.append('/// ... and the whole box uses the compact header form (boxes over 4 GiB: DESIGN D-20)')
    o.append('pub open spec fn %s_wire(b: %s) -> bool { %s_fields_wire(b) && %s_len(b) <= 0xffff_ffff }' % (name, box, name, name))
    o.append('')
    o.append('pub open spec fn %s_entries_at(d: Seq<u8>, p: int, e: Seq<%s>, n: int) -> bool {' % (name, elem))
    conj = []
    off = 0
    first = True
    for fn_, w, k in fields:
        acc = ('(#[trigger] e[j])' if first else 'e[j]') + (('.' + fn_) if ety else '')
        dec = '%s(d, p + %d + %d * j)' % (DEC[w], 16 + off, W)
        if k == 'i':
            dec = '(%s as i%d)' % (dec, w * 8)
        conj.append('%s == %s' % (dec, acc))
        off += w
        first = False
    o.append('    forall|j: int| 0 <= j < n ==> ' + '\n                               && '.join(conj))
    o.append('}')
    o.append('')
    o.append('pub open spec fn %s_at(d: Seq<u8>, p: int, b: %s) -> bool {' % (name, box))
    o.append('    &&& fullbox_at(d, p, b.version, b.flags)')
    o.append('    &&& be32(d, p + 12) == b.entries@.len()')
    o.append('    &&& %s_entries_at(d, p, b.entries@, b.entries@.len() as int)' % name)
    o.append('}')
    o.append('')
    o.append('/// the layout determines the value (decode is a function): used for the round trip and for C15')
    o.append('pub proof fn lemma_%s_functional(d: Seq<u8>, p: int, a: %s, b: %s)' % (name, box, box))
    o.append('    requires %s_at(d, p, a), %s_at(d, p, b), %s_fields_wire(a), %s_fields_wire(b)' % (name, name, name, name))
    if name == 'stsc':
        # first_sample is derived, not on the wire: equality of the wire fields only (first_sample: stsc_first_sample)
        o.append('    ensures a.version == b.version, a.flags == b.flags, a.entries@.len() == b.entries@.len(),')
        o.append('        forall|j: int| 0 <= j < a.entries@.len() ==> stsc_entry_wire_eq(#[trigger] a.entries@[j], b.entries@[j])')
        o.append('{')
        o.append('    assert(a.entries@.len() == b.entries@.len());')
        o.append('    assert forall|j: int| 0 <= j < a.entries@.len() implies stsc_entry_wire_eq(#[trigger] a.entries@[j], b.entries@[j]) by {')
        o.append('        assert(a.entries@[j].first_chunk == b.entries@[j].first_chunk);')
        o.append('    }')
        o.append('}')
        o.append('')
        o.append('pub open spec fn stsc_entry_wire_eq(x: StscEntry, y: StscEntry) -> bool {')
        o.append('    x.first_chunk == y.first_chunk && x.samples_per_chunk == y.samples_per_chunk && x.sample_description_index == y.sample_description_index')
        o.append('}')
    else:
        o.append('    ensures a.version == b.version, a.flags == b.flags, a.entries@ == b.entries@')
        o.append('{')
        o.append('    assert(a.entries@.len() == b.entries@.len());')
        o.append('    assert forall|j: int| 0 <= j < a.entries@.len() implies a.entries@[j] == b.entries@[j] by {')
        if ety:
            o.append('            assert(a.entries@[j].%s == b.entries@[j].%s);' % (fields[0][0], fields[0][0]))
        else:
            o.append('            assert(%s(d, p + 16 + %d * j) == a.entries@[j]);' % (DEC[fields[0][1]], W))
        o.append('        }')
        o.append('        assert(a.entries@ =~= b.entries@);')
        o.append('    }')
    o.append('')
    o.append('/// reference encoder: bytes of the box up to and including entry n-1')
    o.append('pub open spec fn %s_prefix(b: %s, n: int) -> Seq<u8>' % (name, box))
    o.append('    decreases n')
    o.append('{')
    o.append('    if n <= 0 {')
    o.append('        hdr_bytes(%s_len(b) as u64, 0x%08x) + fullbox_bytes(b.version, b.flags) + be_bytes(b.entries@.len(), 4)' % (name, code))
    o.append('    } else {')
    parts = []
    for fn_, w, k in fields:
        acc = 'b.entries@[n - 1]' + (('.' + fn_) if ety else '')
        if k == 'i':
            acc = '(%s as u%d)' % (acc, w * 8)
        parts.append('be_bytes(%s as nat, %d)' % (acc, w))
    o.append('        %s_prefix(b, n - 1) + %s' % (name, ' + '.join(parts)))
    o.append('    }')
    o.append('}')
    o.append('')
    o.append('pub open spec fn %s_bytes(b: %s) -> Seq<u8> { %s_prefix(b, b.entries@.len() as int) }' % (name, box, name))
    o.append('')
    o.append('pub broadcast proof fn lemma_%s_prefix_len(b: %s, n: int)' % (name, box))
    o.append('    requires %s_wire(b), 0 <= n' % name)
    o.append('    ensures (#[trigger] %s_prefix(b, n)).len() == 16 + %d * n' % (name, W))
    o.append('    decreases n')
    o.append('{')
    o.append('    broadcast use group_stream;')
    o.append('    if n > 0 { lemma_%s_prefix_len(b, n - 1); }' % name)
    o.append('}')
    o.append('')
    return '\n'.join(o)


def contract(t):
    name, box, ety, code, iso, fields = t
    W = sum(w for _, w, _ in fields)
    o = []
    o.append('# src/mp4box/%s.rs' % name)
    o.append('fn {%s::get_type,%s::box_type}' % (box, box))
    o.append('  ensures')
    o.append('    [C05.%s.type]  r == BoxType::%s' % (name, box))
    o.append('')
    o.append('fn {%s::get_size,%s::box_size}' % (box, box))
    o.append('  props safety:C17')
    o.append('  requires')
    o.append('    [C04.%s.count-fits]  self.entries@.len() <= 0xffff_ffff' % name)
    o.append('  ensures')
    o.append('    [C04+C02.%s.size]  r == %s_len(*self)' % (name, name))
    o.append('')
    o.append('fn %s::read_box' % box)
    o.append('  use read_box_family(reader, size)')
    o.append('  ensures')
    o.append('    [C04+C05+C03.%s.decode]  r matches Ok(b) ==> %s_at(old(reader).data(), old(reader).pos() - 8, b) && %s_fields_wire(b)' % (name, name, name))
    o.append('    [C08.%s.count-bound]     r matches Ok(b) ==> %d * b.entries@.len() <= size' % (name, W))
    o.append('  loop 1 iter it')
    o.append('    invariant')
    o.append('      [C04.%s.inv]  entries@.len() == it.index@ && it.index@ <= entry_count' % name)
    o.append('                      && reader.pos() == old(reader).pos() - 8 + 16 + %d * it.index@' % W)
    o.append('                      && %s_entries_at(reader.data(), old(reader).pos() - 8, entries@, it.index@ as int)' % name)
    o.append('  end loop')
    o.append('')
    o.append('fn %s::write_box' % box)
    o.append('  use write_box_family(writer)')
    o.append('  requires')
    o.append('    [C04.%s.wire]  %s_wire(*self)' % (name, name))
    o.append('  ensures')
    o.append('    [C04+C02.%s.written]   r matches Ok(n) ==> n == %s_len(*self) && final(writer).pos() == old(writer).pos() + n' % (name, name))
    o.append('    [C04+C05.%s.encode]    r is Ok ==> final(writer).data() == wr(old(writer).data(), old(writer).pos() as int, %s_bytes(*self))' % (name, name))
    o.append('    [C10.%s.only-io]       r matches Err(e) ==> e is IoError' % name)
    o.append('  proof body-start')
    o.append('    broadcast use group_stream, lemma_%s_prefix_len;' % name)
    o.append('  end')
    o.append('  loop 1 iter it')
    o.append('    invariant')
    o.append('      [C04.%s.winv.pos]    writer.pos() == old(writer).pos() + 16 + %d * it.index@' % (name, W))
    o.append('      [C04.%s.winv.bytes]  writer.data() == wr(old(writer).data(), old(writer).pos() as int, %s_prefix(*self, it.index@ as int))' % (name, name))
    o.append('  end loop')
    o.append('')
    return '\n'.join(o)


def roundtrip(t):
    """spec-level round trip: the layout predicate holds on what the reference encoder writes (induction over the entries)"""
    name, box, ety, code, iso, fields = t
    W = sum(w for _, w, _ in fields)
    o = []
    # prefixes are prefixes of each other
    o.append('pub proof fn lemma_%s_prefix_mono(b: %s, n: int, m: int)' % (name, box))
    o.append('    requires 0 <= n <= m')
    o.append('    ensures is_prefix(%s_prefix(b, n), %s_prefix(b, m))' % (name, name))
    o.append('    decreases m')
    o.append('{')
    o.append('    if n < m {')
    o.append('        lemma_%s_prefix_mono(b, n, m - 1);' % name)
    o.append('        let a = %s_prefix(b, n); let x = %s_prefix(b, m - 1); let y = %s_prefix(b, m);' % (name, name, name))
    o.append('        assert forall|i: int| 0 <= i < a.len() implies a[i] == y[i] by { assert(x[i] == y[i]); }')
    o.append('    }')
    o.append('}')
    o.append('')
    o.append('pub proof fn lemma_%s_roundtrip(d: Seq<u8>, p: int, b: %s)' % (name, box))
    o.append('    requires 0 <= p, %s_wire(b)' % name)
    o.append('    ensures %s_at(wr(d, p, %s_bytes(b)), p, b)' % (name, name))
    o.append('{')
    o.append('    broadcast use lemma_be_bytes_len;')
    o.append('    let all = %s_bytes(b); let n = b.entries@.len() as int; let s = wr(d, p, all);' % name)
    o.append('    // header part: prefix 0')
    o.append('    lemma_%s_prefix_mono(b, 0, n);' % name)
    o.append('    let h = hdr_bytes(%s_len(b) as u64, 0x%08x);' % (name, code))
    o.append('    let p0 = %s_prefix(b, 0);' % name)
    o.append('    assert(p0 == ((h + seq![b.version]) + be_bytes(b.flags as nat, 3)) + be_bytes(b.entries@.len(), 4)) by {')
    o.append('        assert(h + (seq![b.version] + be_bytes(b.flags as nat, 3)) + be_bytes(b.entries@.len(), 4) =~= ((h + seq![b.version]) + be_bytes(b.flags as nat, 3)) + be_bytes(b.entries@.len(), 4));')
    o.append('    }')
    o.append('    lemma_rd4(d, p, (h + seq![b.version]) + be_bytes(b.flags as nat, 3), b.entries@.len(), all);')
    o.append('    lemma_prefix_app((h + seq![b.version]) + be_bytes(b.flags as nat, 3), be_bytes(b.entries@.len(), 4), all);')
    o.append('    lemma_rd3(d, p, h + seq![b.version], b.flags as nat, all);')
    o.append('    lemma_prefix_app(h + seq![b.version], be_bytes(b.flags as nat, 3), all);')
    o.append('    assert((h + seq![b.version])[8] == b.version);')
    o.append('    lemma_wr_index(d, p, all, 8);')
    o.append('    // entries')
    o.append('    assert forall|j: int| 0 <= j < n implies %s by {' % ' && '.join(
        '%s == %s' % ((('(%s(s, p + %d + %d * j) as i%d)' % (DEC[w], 16 + sum(x[1] for x in fields[:i]), W, w * 8)) if k == 'i'
                      else '%s(s, p + %d + %d * j)' % (DEC[w], 16 + sum(x[1] for x in fields[:i]), W)),
                     ('(#[trigger] b.entries@[j])' if i == 0 else 'b.entries@[j]') + (('.' + fn_) if ety else ''))
        for i, (fn_, w, k) in enumerate(fields)))
    o.append('        lemma_%s_prefix_mono(b, j + 1, n);' % name)
    o.append('        lemma_%s_prefix_len(b, j);' % name)
    o.append('        let pj = %s_prefix(b, j);' % name)
    pre = 'pj'
    chain = []
    for i, (fn_, w, k) in enumerate(fields):
        acc = 'b.entries@[j]' + (('.' + fn_) if ety else '')
        if k == 'i':
            o.append('        let x%d = %s; assert(((x%d as u%d) as i%d) == x%d) by(bit_vector);' % (i, acc, i, w * 8, w * 8, i))
            v = '(%s as u%d) as nat' % (acc, w * 8)
        else:
            v = '%s as nat' % acc
        chain.append((pre, v, w))
        pre = '(%s + be_bytes(%s, %d))' % (pre, v, w)
    o.append('        assert(%s_prefix(b, j + 1) == %s);' % (name, pre[1:-1] if pre.startswith('(') else pre))
    # from the last field backwards: each (pre + bytes) is a prefix of all
    o.append('        assert(is_prefix(%s, all));' % (pre[1:-1] if pre.startswith('(') else pre))
    for (pr, v, w) in reversed(chain):
        o.append('        lemma_rd%d(d, p, %s, %s, all);' % (w, pr, v))
        o.append('        lemma_prefix_app(%s, be_bytes(%s, %d), all);' % (pr, v, w))
    o.append('    }')
    o.append('}')
    o.append('')
    # C04's statement at the level of the specifications: whatever value the decoder's contract admits on the encoder's bytes
    # is the encoded value
    o.append('pub proof fn lemma_%s_decode_of_encode(d: Seq<u8>, p: int, b: %s, b2: %s)' % (name, box, box))
    o.append('    requires 0 <= p, %s_wire(b), %s_at(wr(d, p, %s_bytes(b)), p, b2), %s_fields_wire(b2)' % (name, name, name, name))
    if name == 'stsc':
        o.append('    ensures b2.version == b.version, b2.flags == b.flags, b2.entries@.len() == b.entries@.len(),')
        o.append('        forall|j: int| 0 <= j < b.entries@.len() ==> stsc_entry_wire_eq(#[trigger] b2.entries@[j], b.entries@[j])')
    else:
        o.append('    ensures b2.version == b.version, b2.flags == b.flags, b2.entries@ == b.entries@')
    o.append('{')
    o.append('    lemma_%s_roundtrip(d, p, b);' % name)
    o.append('    lemma_%s_functional(wr(d, p, %s_bytes(b)), p, b2, b);' % (name, name))
    o.append('}')
    o.append('')
    return '\n'.join(o)


if __name__ == '__main__':
    what = sys.argv[1]
    if what == 'roundtrip':
        print('// GENERATED by tool/gen_tables.py roundtrip (committed text): spec-level round trip of the table boxes.')
    for t in TABLES:
        print(spec(t) if what == 'spec' else roundtrip(t) if what == 'roundtrip' else contract(t))
