#!/usr/bin/env python3
"""Writes /verif/MANIFEST.json from the table below (kept next to the checks so that claims and checks move together)."""
import json, os
VERIF = os.path.dirname(os.path.dirname(os.path.abspath(__file__)))

TRUST = ("Trusted base: Verus 0.2026.09.13 + its Z3; /verif/prelude/*.rs (assumed contracts of std::io / byteorder / bytes / "
         "num_rational / Duration / slice+String helpers, ghost stream model with sticky `failed`); extraction rules R1-R11 "
         "(DESIGN 2.1) preserve meaning; functions listed as external_body in the evidence are ASSUMED by Verus "
         "(Kani discharges the ones marked so); derive(Clone/PartialEq/Default) output not verified. Machine integers are not idealised.")

P = {
 'C01': dict(claim=True, cat='proof', technique='Verus refinement contracts: every muxer step proved against an abstract sample history (views of the run-length tables)',
   text=("Every step of the track writer (update_sample_sizes/_times/_rendering_offsets/_sync_samples, update_sample_to_chunk, update_chunk_offsets, write_chunk, write_sample, write_end, new) "
         "and of Mp4Writer (write_start, add_track, write_sample, update_mdat_size, write_end) is proved to transform the abstract views (per-sample sizes, durations, composition offsets, sync flags, chunk map) exactly as "
         "appending the written sample does, for all histories; rejected calls are proved to leave the writer observationally unchanged; the pending bytes are proved to be appended verbatim and flushed at the recorded offset. "
         "The views are the ISO expansions that C03 proves the reader to implement."),
   note=TRUST + " Both halves are mechanised separately -- muxer: history -> tables -> bytes (reference encoders); reader: bytes -> moov -> trak -> ... -> tables (file_parsed / moov_at / stbl_at, decoding of the last child of each type on the sibling chain) -> lookups -- and the table / header codecs are connected by proved spec-level round-trip lemmas; Mp4Writer::write_end's postcondition mw_final names the finished file, and the specification-level lemmas lemma_moov_roundtrip / lemma_file_roundtrip prove that such a file satisfies the reader's file relation for the muxer's own (normalised) movie box and ftyp; the invariant that carries write_start's layout through the appending steps (stream_grows, mw_layout) is proved too (lemma_muxed_file); lemma_moov_muxed_of_final supplies its hypothesis on the movie box for tracks with canonical language codes; not linked by proof: the sample-bytes half (lookups on the muxer's tables return the offsets where write_sample put the bytes). Histories < 2^32-2 samples per track and sample length < 4 GiB are stated preconditions."),
 'C02': dict(claim=True, cat='proof', technique='Verus: representation invariant = mutual consistency of the tables, chunk-map step lemma, duration contracts, byte-exact layout of write_start / update_mdat_size, size contracts on every box of the moov tree',
   text=("The writer invariant tw_wf is literally the mutual consistency of the sample tables (size, time-to-sample, composition-offset, sample-to-chunk tables each account for exactly n samples; sync numbers strictly increasing and in range; "
         "every chunk holds at least one sample); write_end is proved to return tables satisfying muxed_tables_consistent; mdhd.duration is proved equal to the summed durations, tkhd.duration to its floor conversion, the movie duration to the maximum; "
         "write_start's bytes (ftyp + mdat/wide placeholders) and the mdat size patch are proved byte-exactly; for every box of the movie tree box_size() is proved equal to the ISO length and write_box to advance the stream by exactly that "
         "(containers: 8 + sum of children), so sibling boxes tile their parent."),
   note=TRUST + " Not covered: disjointness of chunks across tracks as a whole-file statement (each chunk is proved to be written at the recorded offset with the recorded length)."),
 'C03': dict(claim=True, cat='proof', technique='Verus contracts on the extracted real functions; ISO 14496-12 sample-table semantics as postconditions',
   text=("Deductive proof, for all table shapes and all sample ids, that the real Mp4Track::{sample_count, stsc_index, chunk_offset, ctts_index, sample_size, "
         "sample_time, sample_rendering_offset, is_sync_sample, sample_offset, read_sample} and Mp4Reader::{sample_count, sample_offset, read_sample} return what "
         "spec/tables.rs (written from ISO/IEC 14496-12 8.6/8.7, no code shared) prescribes under the property's own hypothesis `stbl_consistent`; "
         "StscBox::read_box is proved to derive first_sample by the ISO formula; the seven table decoders are proved against layout predicates."),
   note=TRUST + " Hypothesis n < 2^32-1 samples. The path of the tables from the file through read_header / moov / trak / mdia / minf / stbl is proved (file_parsed, moov_at ... stbl_at: each table is the decoding of the last child of its type on the sibling chain); the outlined track-table construction in read_header (tracks[id].trak == moov.traks[i]) is assumed, sha-pinned."),
 'C04': dict(claim=True, cat='proof', technique='Verus: layout predicate (reader) + reference encoder (writer) per box, size/position family on every box',
   text=("Byte level, both directions, for ftyp, stts, ctts, stss, stsc, stsz, stco, co64, mvhd, tkhd, mdhd, mfhd, mehd, trex, tfdt, tfhd, vmhd, smhd, the box header (32/64-bit) and the FullBox header: write_box is proved to append exactly the bytes of an "
         "independently generated reference encoder and to return box_size(); read_box to consume exactly the box and return a value satisfying the layout predicate. Size level for every other box of the muxer's tree and emsg "
         "(box_size() == ISO length, write_box advances by exactly that, read_box consumes exactly the declared size for both header forms, trailing bytes skipped), also for elst, edts, trun, traf, moof, mvex under their wire predicates; data box byte-exact both ways. "
         "Every box type is proved to report its own BoxType. Decoders of stbl, minf, mdia, trak, moov, moof, traf, trun, stsd, avc1, avcC (incl. NAL units), hev1, the hvcC fixed header, vp09, vpcC, tx3g, mp4a (esds selection), the AudioSpecificConfig and the descriptor length coding, data / ilst / meta / udta: functional, against layout predicates and forward folds over the sibling chain; vpcC and avcC encoders byte-exact with proved round trips. "
         "The spec-level round trip X_at(wr(d, p, X_bytes(b)), p, b) is proved for the 11 fixed-layout boxes, the 7 table boxes, ftyp, avcC, avc1, esds (descriptor tree), mp4a, stsd and hdlr (generated / hand-written lemmas), with decode-is-a-function lemmas for the tables. "
         "Byte-exact encoders, proved write by write against reference bytes (tool/gen_pieces.py), additionally for the esds descriptors, vp09, hev1, hvcC (incl. the NAL-unit arrays), tx3g, url, dref, dinf, stbl, minf, mdia, trak, moov, and on the fragment side elst, edts, trun, traf, moof, mvex, emsg (metadata boxes have no byte-exact encoder and are required absent, as in everything the muxer builds). "
         "Kani proves decode(encode(x)) == x on the compiled code for smhd, mfhd, trex, vmhd with every field symbolic (complete; a violation there is reported with a replayed counterexample)."),
   note=TRUST + " Domain: box_size <= u32::MAX (D-20). Round trip not mechanised for the size-level boxes. "
        "Not under functional contract: hdlr name / url location strings on the decode side, encoders of ilst / meta / udta (HashMap iteration); the two NUL-terminated string helpers of emsg are assumed (their contracts state the bytes); the esds descriptor tree is decoded functionally for well-formed chains only (malformed chains: safety / termination only); container-level decode round trips are proved for stbl, minf, mdia, trak, moov and the file layout (spec/roundtrip_containers.rs) for the shapes the muxer builds."),
 'C05': dict(claim=True, cat='proof', technique='same obligations as C04; the specs are generated from the ISO syntax tables with clause numbers (tool/gen_layouts.py, tool/gen_tables.py) or written from them; Kani full-domain harnesses for bit-level helpers',
   text="Conformance of the boxes listed under C04 (byte level), of the descriptor length coding (size_of_length, Kani all u32), the AAC object-type escape coding (Verus + Kani all 2^16), the box-type registry (Kani: independent table) and BoxHeader::read (Kani, all 16-byte inputs: complete) to layouts written from ISO/IEC 14496-12/-14/-1, proved separately for encoder and decoder so that a symmetric mistake fails on both.",
   note=TRUST + " Bit-packed records: avcC, vpcC, the AudioSpecificConfig and the DecoderConfigDescriptor are covered byte-exactly; hvcC byte-exactly on the encode side and field by field (header and NAL-unit arrays) on the decode side."),
 'C06': dict(claim=True, cat='proof', technique='Verus safety obligations (overflow, division, index, unwrap, panic!) under parser-established preconditions only',
   text=("Absence of panics proved for every decoder (all read_box functions, descriptors, NAL units, header helpers), every Mp4Track lookup/accessor in both the sample-table and the fragment branch, Mp4Reader accessors and the metadata accessors, "
         "for all inputs satisfying only what the parser itself establishes (a header was read, the declared size does not exceed the input, `track_parsed`). Fourteen genuine panics/hangs on this path were found this way and repaired by fix: commits (known_findings.json)."),
   note=TRUST + " Not covered: to_json/summary/Display (serde / format machinery, outside any contract's reach; D-21), Mp4Track::bitrate (f64), the outlined track-table construction of read_header. Domain: input < 2^62 bytes, fewer than 2^32 track fragments per track."),
 'C07': dict(claim=True, cat='proof', technique='Verus decreases / ghost-iterator termination on every loop + stream-op monotonicity + exact consumption as progress measure',
   text="Termination of every loop of every function under contract: table decoders (entry counts), container child loops (measure end - current, progress from the exact-consumption contracts of the children and the zero-size guards added by the D-22 fixes), descriptor loops, lookups, muxer loops.",
   note=TRUST + " CPU time is not expressible; only loop termination, stream-op monotonicity and per-loop iteration bounds are proved. The linear bound on total work is argued from these, not mechanised."),
 'C08': dict(claim=True, cat='other', technique='Verus: ghost assertion injected at every allocation site (vec![_; n], with_capacity, reserve): n <= enclosing box size <= input length',
   text=("23 of the 24 allocation sites whose length comes from the file are proved bounded by the declared size of the enclosing box, itself bounded by the input length (precondition chained down from read_header). "
         "The 24th, Mp4Track::read_sample's vec![0; sample_size], is a genuine defect (D-26: a 610-byte file requests 256 MiB) recorded in known_findings.json with a concrete replay; the check reports it as KNOWN-FINDING and still fails on any other site. "
         "Level is 'other' rather than 'proof' because one obligation is, by design, not discharged."),
   note=TRUST + " Vec growth policy, HashMap and Bytes internals trusted to be linear in their contents."),
 'C09': dict(claim=True, cat='proof', technique='Verus contracts: ISO 14496-12 8.8 fragment semantics as postconditions of the real lookup functions',
   text=("find_traf_idx_and_sample_idx is proved to locate the unique (fragment, index-in-run) of sample k; sample_count, sample_size, sample_offset (explicit base or moof start, signed data offset, "
         "sizes of earlier samples of the run), sample_time (base decode time + earlier durations; per-sample / tfhd default / movie default), rendering offset are proved against spec/fragments.rs; tfhd, tfdt, mfhd, mehd, trex decoders byte-exact (C04)."),
   note=TRUST + " The attachment of trafs and moof offsets to tracks in read_header is outlined (assumed, sha-pinned); trun decoder not under functional contract."),
 'C10': dict(claim=True, cat='proof', technique='Verus: ghost `failed` flag; uniform postcondition failed => Err(IoError), every stream op requires a live stream; Kani: BoxHeader::read over a reader that returns one byte per call',
   text="For every function under contract that touches a stream: any failing stream call makes the function return Err(IoError); no function reports an I/O error without one; raw read/write have only the weak POSIX contract so relying on them breaks the functional postconditions; BoxHeader::read is proved (Kani, all 16-byte inputs) to return the same header through a reader that delivers one byte per call.",
   note=TRUST + " std/byteorder retry semantics for short transfers and Interrupted are assumed by the prelude."),
 'C11': dict(claim=True, cat='other', technique='Verus: single-run core (frame, no stale bytes, returned bytes occur in the file); Kani: truncated headers are errors',
   text="Mechanised: returned sample bytes are exactly data[off..off+len] of the stream (never stale buffer contents), stream content is never modified, no panic/hang in the covered functions, a box header cut by the end of the input is an error (Kani, all inputs of 0..7 bytes). The relation to the complete file is argued, not mechanised (DESIGN section 6).",
   note=TRUST),
 'C12': dict(claim=True, cat='other', technique='Verus: exact consumption of every box (pos == start+size) for both header forms, skip helpers; Kani: both header forms over all 16-byte inputs',
   text="Mechanised sub-obligations: header contract for both forms, every decoder under contract leaves the stream at the end of its box whatever trailing bytes it has, skip_box/skip_bytes_to exactness; the value of every container decoder (top level, moov, trak, mdia, minf, stbl, stsd/avc1/mp4a, udta/meta/ilst) is proved to be a function of the sibling chain only (forward folds in which unknown children are no-ops by definition), so inserting skippable boxes cannot change it. The two-file relation itself is not stated as a lemma (DESIGN section 6).",
   note=TRUST + " D-31 (avc1/mp4a child loops skipped a 64-bit child header 8 bytes short) was found by the walk invariant and repaired. MetaBox stops where its child walk stops (proved equal to meta_stop), which containers holding a meta box mirror (child_next_m)."),
 'C13': dict(claim=True, cat='proof', technique='Verus on symbolic 64-bit quantities (no 4 GiB of data needed)',
   text=("update_mdat_size is proved to write the 32-bit size up to 2^32-1 and, beyond, size=1 plus the 64-bit size into exactly the 8 bytes of the wide placeholder, restoring the position; BoxHeader::write uses the 64-bit form iff size > u32::MAX; "
         "update_durations sets version 1 as soon as mdhd / tkhd durations exceed 32 bits and never clears it; write_end keeps co64 iff some chunk offset exceeds u32::MAX and otherwise emits stco with the same values; chunk offsets are the stream positions at flush time for any start position; "
         "mvhd / tkhd / mdhd encoders are proved to write 64-bit fields iff version == 1 (byte-exact)."),
   note=TRUST + " StcoBox::try_from is assumed in Verus (iterator adapters) and checked by Kani for tables of at most 3 entries (bounded, labelled so in the evidence)."),
 'C14': dict(claim=True, cat='other', technique='Verus: Mp4TrackWriter::new postcondition, constructor contracts, accessor contracts, ftyp/mdhd/tkhd codecs, language packing; Kani cross-checks',
   text=("Proved: Mp4TrackWriter::new stores track id, timescale, language and the media kind selected by the configuration and rejects exactly the configurations outside track_config_ok; the sample-entry constructors copy width/height, parameter sets, "
         "object type / frequency index / channel configuration codes; ftyp, mdhd (incl. the ISO-639 packing, proved inverse on all 15-bit codes), tkhd encode/decode byte-exactly; Mp4Reader brand/timescale accessors and every Mp4Track configuration accessor (track id / type, media type, sample-entry type, width, height, language, timescale, AAC object type / frequency index / channel configuration, AVC profile, SPS, PPS) are proved to return the parsed field through the code tables; durations are converted as specified. "
         "The reader side of the configuration is proved from the file bytes: stsd selects the sample entry, avc1 width/height and the avcC record (profile bytes, every SPS/PPS verbatim) are the decoding of the child found on the sibling chain; the AudioSpecificConfig encoder/decoder pair is byte-exact with a proved round-trip lemma on the encodable domain. "
         "the avcC encoder is byte-exact against a reference encoder whose output is proved (lemma_avcc_roundtrip) to decode to the same record. "
         "hev1 / hvcC header / vp09 / vpcC / tx3g entries are decoded against layout predicates as well. "
         "The esds descriptor tree (ES_Descriptor, DecoderConfigDescriptor with both bitrates, AudioSpecificConfig, SLConfigDescriptor) is byte-exact on the encode side and decoded functionally for well-formed chains; lemma_esds_roundtrip / lemma_mp4a_roundtrip / lemma_avc1_roundtrip / lemma_hdlr_roundtrip / lemma_stsd_roundtrip prove that the reference bytes of what the muxer builds decode to the same values; "
         "Mp4TrackWriter::new is proved to build exactly those shapes with the configured values, write_end to change nothing of the sample description but bufferSizeDB; hdlr, stsd, stbl ... moov encoders are byte-exact. "
         "Mp4Writer::write_end's postcondition (mw_final) names the finished file: pending chunks flushed in track order, mdat size patched, moov = byte-exact encoding of the finished tracks. "
         "lemma_trak_roundtrip / lemma_moov_roundtrip / lemma_file_roundtrip prove at specification level that the reader's relations hold on those bytes for the same (normalised) values. "
         "lemma_moov_muxed_of_final supplies the hypothesis of lemma_muxed_file from mw_final and the per-track invariant tw_static_muxed (AVC / AAC sample description as built by Mp4TrackWriter::new, canonical three-letter language code), so for such tracks the finished file satisfies the reader's file relation for the muxer's own configuration. "
         "Level 'other': the outermost induction over the call history is the usual invariant argument, not a Verus theorem; for HEVC / VP9 / subtitle tracks the entry round trips are proved too (lemma_hev1/vp09/tx3g_roundtrip), and Mp4TrackWriter::new is proved to build exactly those shapes."),
   note=TRUST),
 'C15': dict(claim=True, cat='proof', technique='Verus frame conditions + postconditions that are functions of (tables, stream data, arguments)',
   text="Reader calls leave tracks/moov/ftyp/size and the stream content unchanged (&mut self frame proved) and their results are specified purely in terms of the tables, the stream data and the arguments (never the stream position), with uniqueness lemmas, so any call history returns what a fresh reader returns. Muxer: every step's result is a function of the previous abstract state and the arguments (C01).",
   note=TRUST + " A failed call leaves the ghost `failed` flag set: later calls are covered only from a live stream."),
 'C16': dict(claim=True, cat='proof', technique='Verus contracts against defining tables (spec/enums.rs, spec/codes.rs) on the extracted functions + loop-free Kani harnesses over the full symbolic domain of the compiled functions',
   text=("Verus proves, for every input value, that AudioObjectType / SampleFreqIndex / ChannelConfig / DataType / AvcProfile / TrackType(four-byte) conversions return exactly what the defining tables prescribe and reject exactly the other values "
         "(tables proved injective with range = valid set), that SampleFreqIndex::freq is the ISO table, that the 8.8 / 16.16 wrappers store numer = value * 2^8 / 2^16 and return it, that BoxType <-> u32 is the generated registry table, and that the AAC escape-coded object type uses 5+6 bits. "
         "Kani (CBMC, no unwinding involved: loop-free harnesses over fully symbolic u8/u16/u32/[u8;4]) proves the same for the compiled code including the parts Verus assumes: FourCC <-> u32 <-> bytes <-> BoxType over all 2^32 codes, "
         "language_code on all 26^3 lower-case triples and (thorough) language_string / language_code inverse on all 2^15 codes."),
   note=TRUST + " FourCC::from_str is checked by Kani for ASCII strings up to 6 bytes only (bounded, labelled so in the evidence); Display impls (format machinery) and the &str-keyed TrackType/MediaType conversions are outside both tools' reach (string matching) and are not claimed."),
 'C17': dict(claim=True, cat='proof', technique='Verus safety obligations (overflow, division, index, unwrap, panic!, byteorder range panics) on every muxer function under the writer invariant; error postconditions; field-level representability invariant (fw) carried from add_track to write_end',
   text=("Every function reachable from Mp4Writer::{write_start, add_track, write_sample, write_end} (track writer steps, constructors of the sample entries and descriptors, box encoders of the moov tree, header helpers) is proved free of "
         "arithmetic overflow, division by zero, out-of-range indexing, unwrap on None/Err and byteorder's range panics (u24/u48 fields) for all argument values, under the representation invariant that the preceding calls are proved to establish; "
         "add_track is proved to return InvalidData exactly for the configurations outside track_config_ok (zero timescale, SPS shorter than 4 bytes, parameter sets over 64 KiB, object types the 5-bit field cannot carry) and to accept all others; "
         "write_sample with an unknown track id is proved to return TrakNotFound leaving the writer unchanged; write_end is proved to hand MoovBox::write_box a tree whose every field fits its wire width (so the output satisfies C02/C04/C14), "
         "for any history. Six panics / silent corruptions on this path were found and repaired (D-35..D-39, D-32)."),
   note=TRUST + " Domain hypotheses (stated as preconditions, DESIGN D-20): fewer than 2^32-2 samples per track, sample length < 4 GiB, mdhd duration sum < 2^64, movie box <= 4 GiB (mw_moov_fits). catch_unwind-level observation (allocation failure, stack) is outside the model."),
 'C18': dict(claim=True, cat='proof', technique='Verus: remaining-computation loop invariants against forward folds over the child boxes (spec/metadata.rs), accessor contracts through HashMap::get / Option::map with the real helper functions',
   text=("For every byte sequence: DataBox::read_box returns the type indicator's data type and the payload bytes verbatim (rejecting exactly sizes < 16 and unknown type codes); IlstItemBox::read_box returns the item's data child; "
         "IlstBox::read_box returns the map {title, year, poster, summary} -> value prescribed by the fold over the children, in which unknown items are no-ops by definition; MetaBox::read_box accepts both the ISO form (version/flags word) and the QuickTime form "
         "(hdlr first), selects the handler of the hdlr child and returns the item list iff the handler is 'mdir'; UdtaBox::read_box returns its meta child. The accessors year() / poster() / title() are proved to return None for an absent key, the 4-byte big-endian value "
         "or the decimal text for the year, the payload verbatim for the poster, and the UTF-8 decoding for the title."),
   note=TRUST + " ASSUMED and listed in the evidence: String::from_utf8_lossy on valid UTF-8, `str::parse::<u32>` = decimal_u32 (outlined expression, sha-pinned), derive(Hash/Eq) of MetadataKey lawful, byteorder BigEndian::read_u32. "
        "Not mechanised: the selection moov -> udta inside MoovBox::read_box, Mp4Reader::metadata() (`impl Trait` + blanket impls for &T / Option<T>: five lines of Option plumbing), IlstBox::summary (same code as title on another key; its name collides with the dropped Mp4Box::summary)."),
}


def main():
    checks, na = [], []
    for pid in sorted(P):
        p = P[pid]
        if not p['claim']:
            na.append({'property_id': pid, 'reason': p['reason']})
            continue
        checks.append({
            'property_id': pid,
            'quick_cmd': './check %s --tier quick' % pid,
            'thorough_cmd': './check %s --tier thorough' % pid,
            'evidence_file': '/verif/evidence/%s.json' % pid,
            'replay_cmd_template': 'cat {path}',
            'engine': 'verus-contracts',
            'level_claimed': {'category': p['cat'], 'text': p['text'], 'design_ref': 'DESIGN.md section 4 (%s)' % pid},
            'level_note': p['note'],
            'technique': p['technique'],
        })
    man = {
        'version': 1,
        'setup_cmd': './check --setup',
        'hooks': {
            'guard': 'none',
            'enable': 'no hooks in /repo: Verus verifies text re-extracted from /repo/src on every run, Kani works on a scratch copy with one appended `#[cfg(kani)] mod`',
            'baseline_off_cmd': 'cd /repo && cargo test --workspace --no-fail-fast --offline',
            'source_commits': [],
            'add_only': True,
        },
        'engines': [
            {'name': 'verus-contracts', 'path': '/verif/tool', 'serves_properties': [c['property_id'] for c in checks],
             'kind_free_text': 'contract-based deductive verification: vp-extract (mechanical extraction of the real functions) + contracts/*.vpc + prelude/spec + Verus'},
        ],
        'checks': checks,
        'not_applicable': na,
        'notes': 'All checks share one Verus run per tree (cached under /verif/.cache by a hash of /repo/src + /verif sources). Exit 0 pass, 1 VIOLATION, 2 undecided (never an alarm).',
    }
    with open(os.path.join(VERIF, 'MANIFEST.json'), 'w') as fh:
        json.dump(man, fh, indent=1)
    print('MANIFEST.json: %d checks, %d not applicable' % (len(checks), len(na)))


if __name__ == '__main__':
    main()
