#!/usr/bin/env python3
"""Generate the "piece by piece" byte-exact encoder contracts for the sample entries whose write_box is a straight line of
stream writes (avc1, vp09): reference bytes X_bytes(b) as a concatenation of pieces, one piece per write, a lemma with the
cumulative lengths, and one labelled proof step after each write saying that the stream now holds exactly pre(k).
Outputs are committed files (spec/layouts_pieces.rs, contracts/pieces.vpc) and are read like hand-written ones.
The piece expressions are written from ISO/IEC 14496-12 12.1.3 (VisualSampleEntry), 14496-15 5.4.2.1 (AVCSampleEntry)
and the VP Codec ISO Media File Format Binding 2.2 (VP9SampleEntry); they share no text with the crate."""
import os
VERIF = os.path.dirname(os.path.dirname(os.path.abspath(__file__)))

ZERO32 = 'zeros(32)'
BOXES = [
    dict(name='avc1', ty='Avc1Box', req='avc1_wire(b)', doc='AVCSampleEntry(\'avc1\') extends VisualSampleEntry: reserved(6x8)=0 data_reference_index(16) pre_defined(16)=0 reserved(16)=0 pre_defined(3x32)=0 width(16) height(16) horizresolution(32) vertresolution(32) reserved(32)=0 frame_count(16) compressorname(32x8) depth(16) pre_defined(16)=-1 AVCConfigurationBox',
         extra_start=['assert((-1i16) as u16 == 0xffffu16) by(bit_vector);', 'lemma_avcc_bytes_len(self.avcc);'],
         lemma_pre=['lemma_avcc_bytes_len(b.avcc);'],
         pieces=[('hdr_bytes(avc1_len(b) as u64, 0x61766331)', 8), ('be_bytes(0, 4)', 4), ('be_bytes(0, 2)', 2), ('be_bytes(b.data_reference_index as nat, 2)', 2),
                 ('be_bytes(0, 4)', 4), ('be_bytes(0, 8)', 8), ('be_bytes(0, 4)', 4), ('be_bytes(b.width as nat, 2)', 2), ('be_bytes(b.height as nat, 2)', 2),
                 ('be_bytes(b.horizresolution.0.numer as nat, 4)', 4), ('be_bytes(b.vertresolution.0.numer as nat, 4)', 4), ('be_bytes(0, 4)', 4),
                 ('be_bytes(b.frame_count as nat, 2)', 2), (ZERO32, 32, 'assert(Seq::new(32 as nat, |i: int| 0u8) =~= zeros(32));'), ('be_bytes(b.depth as nat, 2)', 2), ('be_bytes(0xffff, 2)', 2),
                 ('avcc_bytes(b.avcc)', 'avcc_len(b.avcc)')]),
    dict(name='vp09', ty='Vp09Box', req='vp09_wire(b)', doc='VP9SampleEntry(\'vp09\'): the crate writes it as a FullBox followed by the VisualSampleEntry fields as it stores them (start_code, reserved arrays, resolution pairs, compressorname, end_code) and the VPCodecConfigurationBox',
         extra_start=['lemma_vpcc_pre_len(self.vpcc);'],
         lemma_pre=['lemma_vpcc_pre_len(b.vpcc);'],
         pieces=[('hdr_bytes(0x6a, 0x76703039)', 8), ('fullbox_bytes(b.version, b.flags)', 4), ('be_bytes(b.start_code as nat, 2)', 2), ('be_bytes(b.data_reference_index as nat, 2)', 2),
                 ('b.reserved0@', 16), ('be_bytes(b.width as nat, 2)', 2), ('be_bytes(b.height as nat, 2)', 2),
                 ('be_bytes(b.horizresolution.0 as nat, 2)', 2), ('be_bytes(b.horizresolution.1 as nat, 2)', 2), ('be_bytes(b.vertresolution.0 as nat, 2)', 2), ('be_bytes(b.vertresolution.1 as nat, 2)', 2),
                 ('b.reserved1@', 4), ('be_bytes(b.frame_count as nat, 2)', 2), ('b.compressorname@', 32), ('be_bytes(b.depth as nat, 2)', 2), ('be_bytes(b.end_code as nat, 2)', 2),
                 ('vpcc_bytes(b.vpcc)', 'vpcc_len(b.vpcc)')]),
]

HVCC_B1 = '(((b.general_profile_space & 3) << 6) | ((if b.general_tier_flag { 1u8 } else { 0u8 }) << 5) | (b.general_profile_idc & 0x1f)) as u8'
HVCC_B2 = '(((b.constant_frame_rate & 3) << 6) | ((b.num_temporal_layers & 7) << 3) | ((if b.temporal_id_nested { 1u8 } else { 0u8 }) << 2) | (b.length_size_minus_one & 3)) as u8'
BOXES.append(
    dict(name='hvcch', ty='HvcCBox', req='hvcc_wire(b)', partial=True, doc='hvcC: box header and the 23 fixed bytes of HEVCDecoderConfigurationRecord (14496-15 8.3.3.1.2; reserved bits as the crate writes them), up to numOfArrays',
         pieces=[('hdr_bytes(hvcc_len(b) as u64, 0x68766343)', 8), ('seq![b.configuration_version]', 1), ('seq![%s]' % HVCC_B1, 1),
                 ('be_bytes(b.general_profile_compatibility_flags as nat, 4)', 4), ('be_bytes(b.general_constraint_indicator_flag as nat, 6)', 6), ('seq![b.general_level_idc]', 1),
                 ('be_bytes((b.min_spatial_segmentation_idc & 0x0fff) as nat, 2)', 2), ('seq![(b.parallelism_type & 3) as u8]', 1), ('seq![(b.chroma_format_idc & 3) as u8]', 1),
                 ('seq![(b.bit_depth_luma_minus8 & 7) as u8]', 1), ('seq![(b.bit_depth_chroma_minus8 & 7) as u8]', 1), ('be_bytes(b.avg_frame_rate as nat, 2)', 2),
                 ('seq![%s]' % HVCC_B2, 1), ('seq![b.arrays@.len() as u8]', 1)]))
BOXES.append(
    dict(name='hev1', ty='Hev1Box', req='hev1_wire(b)', doc='HEVCSampleEntry(\'hev1\') extends VisualSampleEntry (same fixed fields as avc1) followed by the HEVCConfigurationBox',
         extra_start=['assert((-1i16) as u16 == 0xffffu16) by(bit_vector);', 'lemma_hvcc_bytes_len(self.hvcc);'],
         lemma_pre=['lemma_hvcc_bytes_len(b.hvcc);'],
         pieces=[('hdr_bytes(hev1_len(b) as u64, 0x68657631)', 8), ('be_bytes(0, 4)', 4), ('be_bytes(0, 2)', 2), ('be_bytes(b.data_reference_index as nat, 2)', 2),
                 ('be_bytes(0, 4)', 4), ('be_bytes(0, 8)', 8), ('be_bytes(0, 4)', 4), ('be_bytes(b.width as nat, 2)', 2), ('be_bytes(b.height as nat, 2)', 2),
                 ('be_bytes(b.horizresolution.0.numer as nat, 4)', 4), ('be_bytes(b.vertresolution.0.numer as nat, 4)', 4), ('be_bytes(0, 4)', 4),
                 ('be_bytes(b.frame_count as nat, 2)', 2), (ZERO32, 32, 'assert(Seq::new(32 as nat, |i: int| 0u8) =~= zeros(32));'), ('be_bytes(b.depth as nat, 2)', 2), ('be_bytes(0xffff, 2)', 2),
                 ('hvcc_bytes(b.hvcc)', 'hvcc_len(b.hvcc)')]))
BOXES.append(
    dict(name='tx3gh', ty='Tx3gBox', req='true', partial=True, doc='TextSampleEntry(\'tx3g\') of 3GPP TS 26.245 5.16: reserved(6x8)=0 data_reference_index(16) displayFlags(32) horizontal-justification(8) vertical-justification(8) background-color-rgba(4x8), up to the BoxRecord',
         pieces=[('hdr_bytes(46, 0x74783367)', 8), ('be_bytes(0, 4)', 4), ('be_bytes(0, 2)', 2), ('be_bytes(b.data_reference_index as nat, 2)', 2), ('be_bytes(b.display_flags as nat, 4)', 4),
                 ('seq![b.horizontal_justification as u8]', 1), ('seq![b.vertical_justification as u8]', 1), ('seq![b.bg_color_rgba.red]', 1), ('seq![b.bg_color_rgba.green]', 1),
                 ('seq![b.bg_color_rgba.blue]', 1), ('seq![b.bg_color_rgba.alpha]', 1)]))

def opt(field, fn):
    return ('match b.%s { Some(x) => %s_bytes(x), None => Seq::<u8>::empty() }' % (field, fn), '(match b.%s { Some(x) => %s_len(x), None => 0 })' % (field, fn), '', 'opt:' + field)

CONTAINERS = [
    dict(name='stbl', ty='StblBox', req='stbl_wire(b)', cond='stbl_exact(b)', doc='SampleTableBox(\'stbl\'): stsd, stts, ctts?, stss?, stsc, stsz, stco?, co64? in the order the muxer writes them',
         lemma_pre=['lemma_stsd_bytes_len(b.stsd);', 'lemma_stts_prefix_len(b.stts, b.stts.entries@.len() as int);', 'if b.ctts is Some { lemma_ctts_prefix_len(b.ctts->Some_0, b.ctts->Some_0.entries@.len() as int); }',
                    'if b.stss is Some { lemma_stss_prefix_len(b.stss->Some_0, b.stss->Some_0.entries@.len() as int); }', 'lemma_stsc_prefix_len(b.stsc, b.stsc.entries@.len() as int);',
                    'lemma_stsz_prefix_len(b.stsz, b.stsz.sample_sizes@.len() as int);', 'if b.stco is Some { lemma_stco_prefix_len(b.stco->Some_0, b.stco->Some_0.entries@.len() as int); }',
                    'if b.co64 is Some { lemma_co64_prefix_len(b.co64->Some_0, b.co64->Some_0.entries@.len() as int); }'],
         pieces=[('hdr_bytes(stbl_len(b) as u64, 0x7374626c)', 8), ('stsd_bytes(b.stsd)', 'stsd_len(b.stsd)'), ('stts_bytes(b.stts)', 'stts_len(b.stts)'), opt('ctts', 'ctts'), opt('stss', 'stss'),
                 ('stsc_bytes(b.stsc)', 'stsc_len(b.stsc)'), ('stsz_bytes(b.stsz)', 'stsz_len(b.stsz)'), opt('stco', 'stco'), opt('co64', 'co64')]),
    dict(name='traf', ty='TrafBox', req='traf_wire(b)', doc='TrackFragmentBox(\'traf\'): tfhd tfdt? trun?',
         lemma_pre=['lemma_tfhd_pre_len(b.tfhd);', 'if b.tfdt is Some { lemma_tfdt_pre_len(b.tfdt->Some_0); }', 'if b.trun is Some { lemma_trun_bytes_len(b.trun->Some_0); }'],
         pieces=[('hdr_bytes(traf_len(b) as u64, 0x74726166)', 8), ('tfhd_bytes(b.tfhd)', 'tfhd_len(b.tfhd)'), opt('tfdt', 'tfdt'), opt('trun', 'trun')]),
    dict(name='mvex', ty='MvexBox', req='mvex_wire(b) && len_fits(mvex_len(b))', doc='MovieExtendsBox(\'mvex\'): mehd? trex',
         lemma_pre=['if b.mehd is Some { lemma_mehd_pre_len(b.mehd->Some_0); }', 'lemma_trex_pre_len(b.trex);'],
         pieces=[('hdr_bytes(mvex_len(b) as u64, 0x6d766578)', 8), opt('mehd', 'mehd'), ('trex_bytes(b.trex)', 'trex_len(b.trex)')]),
    dict(name='minf', ty='MinfBox', req='minf_wire(b)', cond='minf_exact(b)', doc='MediaInformationBox(\'minf\'): vmhd? smhd? dinf stbl',
         lemma_pre=['if b.vmhd is Some { lemma_vmhd_pre_len(b.vmhd->Some_0); }', 'if b.smhd is Some { lemma_smhd_pre_len(b.smhd->Some_0); }', 'lemma_dinf_bytes_len(b.dinf);', 'lemma_stbl_pre(b.stbl);'],
         pieces=[('hdr_bytes(minf_len(b) as u64, 0x6d696e66)', 8), opt('vmhd', 'vmhd'), opt('smhd', 'smhd'), ('dinf_bytes(b.dinf)', 'dinf_len(b.dinf)'), ('stbl_bytes(b.stbl)', 'stbl_len(b.stbl)')]),
    dict(name='mdia', ty='MdiaBox', req='mdia_wire(b)', cond='mdia_exact(b)', doc='MediaBox(\'mdia\'): mdhd hdlr minf',
         lemma_pre=['lemma_mdhd_pre_len(b.mdhd);', 'lemma_hdlr_bytes_len(b.hdlr);', 'lemma_minf_pre(b.minf);'],
         pieces=[('hdr_bytes(mdia_len(b) as u64, 0x6d646961)', 8), ('mdhd_bytes(b.mdhd)', 'mdhd_len(b.mdhd)'), ('hdlr_bytes(b.hdlr)', 'hdlr_len(b.hdlr)'), ('minf_bytes(b.minf)', 'minf_len(b.minf)')]),
    dict(name='trak', ty='TrakBox', req='trak_wire(b)', cond='trak_exact(b)', doc='TrackBox(\'trak\'): tkhd (edts, meta: absent in what the muxer writes) mdia',
         lemma_pre=['lemma_tkhd_pre_len(b.tkhd);', 'lemma_mdia_pre(b.mdia);'],
         pieces=[('hdr_bytes(trak_len(b) as u64, 0x7472616b)', 8), ('tkhd_bytes(b.tkhd)', 'tkhd_len(b.tkhd)'),
                 ('Seq::<u8>::empty()', 0, '', 'skip'), ('Seq::<u8>::empty()', 0, '', 'skip'), ('mdia_bytes(b.mdia)', 'mdia_len(b.mdia)')]),
]


def gen(BOXES, title_spec, title_vpc, zeros_def=True):
    spec = ['// GENERATED by tool/gen_pieces.py -- do not edit. Reference bytes of the straight-line sample-entry encoders, one piece per stream write.\n',
            ] + (['pub open spec fn zeros(n: nat) -> Seq<u8> { Seq::new(n, |i: int| 0u8) }\n'] if zeros_def else [])
    vpc = ['# GENERATED by tool/gen_pieces.py -- do not edit. Byte-exact encoders (C04, C05, C14): after the k-th stream write the output holds exactly X_pre(k).\n']
    for bx in BOXES:
        n, ty, ps = bx['name'], bx['ty'], bx['pieces']
        N = len(ps) - 1
        spec.append('\n/// %s\n' % bx['doc'])
        spec.append('pub open spec fn %s_piece(b: %s, k: int) -> Seq<u8> {\n    ' % (n, ty))
        spec.append(' else '.join('if k == %d { %s }' % (k, p[0]) for k, p in enumerate(ps)) + ' else { Seq::empty() }\n}\n')
        spec.append('pub open spec fn %s_pre(b: %s, k: int) -> Seq<u8>\n    decreases k\n{\n    if k <= 0 { %s_piece(b, 0) } else { %s_pre(b, k - 1) + %s_piece(b, k) }\n}\n' % (n, ty, n, n, n))
        spec.append('pub open spec fn %s_bytes(b: %s) -> Seq<u8> { %s_pre(b, %d) }\n' % (n, ty, n, N))
        cum, lens = [], []
        acc_c, acc_e = 0, []
        for p in ps:
            if isinstance(p[1], int): acc_c += p[1]
            else: acc_e.append(p[1])
            cum.append(' + '.join([str(acc_c)] + acc_e))
        spec.append('pub proof fn lemma_%s_pre(b: %s)\n    requires %s\n    ensures %s\n{\n    broadcast use lemma_be_bytes_len;\n    reveal_with_fuel(%s_pre, %d);\n%s}\n'
                    % (n, ty, (bx['req'] + (' && ' + bx['cond'] if bx.get('cond') else '')), ',\n            '.join('%s_pre(b, %d).len() == %s' % (n, k, c) for k, c in enumerate(cum)), n, N + 2,
                       ''.join('    %s\n' % l for l in bx.get('lemma_pre', []))))
        cond = bx.get('cond')                                     # exactness condition (a predicate over *self), None = always
        cs = cond.replace('(b)', '(*self)') if cond else None
        if bx.get('partial'):
            vpc.append('\nfn %s::write_box\n' % ty)
        else:
            vpc.append('\nfn %s::write_box\n  ensures\n    [C04+C05+C14.%s.encode]  r is Ok%s ==> final(writer).data() == wr(old(writer).data(), old(writer).pos() as int, %s_bytes(*self))\n'
                   % (ty, n, (' && ' + cs) if cs else '', n))
        opts = ''.join('    assert(self.%s is None ==> %s_pre(*self, %d) =~= %s_pre(*self, %d));\n' % (p_[3][4:], n, k, n, k - 1)
                       for k, p_ in enumerate(ps) if len(p_) > 3 and str(p_[3]).startswith('opt:'))
        opts += ''.join('    assert(%s_pre(*self, %d) =~= %s_pre(*self, %d));\n' % (n, k, n, k - 1) for k, p_ in enumerate(ps) if len(p_) > 3 and p_[3] == 'skip')
        wrap = (lambda body: '    if %s {\n%s    }\n' % (cs, body)) if cs else (lambda body: body)
        vpc.append('  proof body-start\n%s  end\n' % wrap('    lemma_%s_pre(*self);\n%s%s' % (n, ''.join('    %s\n' % l for l in bx.get('extra_start', [])), opts)))
        vpc.append('  proof [C04+C05.encode.step] after-write #1\n%s  end\n' % wrap('    assert(writer.data() == wr(old(writer).data(), old(writer).pos() as int, %s_pre(*self, 0)));\n' % n))
        for k in range(1, N + 1):
            extra = ''.join('    %s\n' % l for l in ps[k][2:3] if l)
            vpc.append('  proof [C04+C05.encode.step] after-write #%d\n%s  end\n' % (k + 1, wrap(
                       '%s    lemma_wr_wr(old(writer).data(), old(writer).pos() as int, %s_pre(*self, %d), %s_piece(*self, %d));\n'
                       '    assert(writer.data() == wr(old(writer).data(), old(writer).pos() as int, %s_pre(*self, %d)));\n    assert(writer.pos() == old(writer).pos() + %s_pre(*self, %d).len());\n'
                       % (extra, n, k - 1, n, k, n, k, n, k))))
    return ''.join(spec), ''.join(vpc)


if __name__ == '__main__':
    s, v = gen(BOXES, '', '')
    open(os.path.join(VERIF, 'spec', 'layouts_pieces.rs'), 'w').write(s)
    open(os.path.join(VERIF, 'contracts', 'pieces.vpc'), 'w').write(v)
    s, v = gen(CONTAINERS, '', '', zeros_def=False)
    open(os.path.join(VERIF, 'spec', 'layouts_pieces_containers.rs'), 'w').write(s)
    open(os.path.join(VERIF, 'contracts', 'pieces_containers.vpc'), 'w').write(v)
    print('wrote spec/layouts_pieces*.rs, contracts/pieces*.vpc')
