#!/usr/bin/env python3
"""Run vp-extract + Verus over /repo's working tree, map every diagnostic to (function, obligation) and cache
the result.  Output: <gen>/result.json  (shared by all property checks of the same tree)."""
import os, sys, json, re, hashlib, subprocess, time, bisect, fcntl, shutil

sys.path.insert(0, os.path.dirname(os.path.abspath(__file__)))
import extract as X

VERIF = X.VERIF


def tree_hash(repo: str, seed: int, rlimit: float) -> str:
    h = hashlib.sha256()
    def add_dir(d, exts):
        for root, dirs, files in sorted(os.walk(d)):
            dirs.sort()
            if '.git' in dirs: dirs.remove('.git')
            if '__pycache__' in dirs: dirs.remove('__pycache__')
            for f in sorted(files):
                if f.endswith(exts):
                    p = os.path.join(root, f)
                    h.update(p.encode()); h.update(open(p, 'rb').read())
    add_dir(os.path.join(repo, 'src'), ('.rs',))
    for d in ('contracts', 'prelude', 'spec', 'tool'):
        add_dir(os.path.join(VERIF, d), ('.rs', '.vpc', '.py'))
    h.update(('seed=%d rlimit=%s' % (seed, rlimit)).encode())
    return h.hexdigest()[:24]


class SrcMap:
    def __init__(self, m):
        self.starts = m['starts']
        self.origins = m['origins']
        self.fns = sorted(m['fns'], key=lambda f: f['start'])
        self.fn_starts = [f['start'] for f in self.fns]

    def origin(self, off):
        i = bisect.bisect_right(self.starts, off) - 1
        if i < 0:
            return ('gen', 'header'), 0
        return tuple(self.origins[i]), off - self.starts[i]

    def fn_at(self, off):
        i = bisect.bisect_right(self.fn_starts, off) - 1
        if i >= 0 and self.fns[i]['start'] <= off < self.fns[i].get('end', 0):
            return self.fns[i]
        return None


def norm(s):
    return re.sub(r'\s+', ' ', s or '').strip()


def span_text(sp):
    try:
        t = sp['text']
        if not t:
            return ''
        if len(t) == 1:
            return t[0]['text'][t[0]['highlight_start'] - 1:t[0]['highlight_end'] - 1]
        parts = [t[0]['text'][t[0]['highlight_start'] - 1:]] + [x['text'] for x in t[1:-1]] + [t[-1]['text'][:t[-1]['highlight_end'] - 1]]
        return ' '.join(parts)
    except Exception:
        return ''


CLASS_OF = [
    ('possible arithmetic underflow/overflow', 'overflow'),
    ('possible division by zero', 'div0'),
    ('possible bit shift underflow/overflow', 'shift'),
    ('precondition not met: index in bounds', 'index'),
    ('precondition not satisfied', 'pre'),
    ('postcondition not satisfied', 'post'),
    ('post-condition of closure', 'post'),
    ('pre-condition of closure', 'pre'),
    ('invariant not satisfied at end of loop body', 'inv-end'),
    ('invariant not satisfied before loop', 'inv-init'),
    ('decreases not satisfied', 'decreases'),
    ('loop must have a decreases', 'no-measure'),
    ('assertion failed', 'assert'),
    ('requires not satisfied', 'assert'),
    ('assertion not satisfied', 'assert'),
    ('unreachable', 'unreachable'),
    ('Resource limit', 'rlimit'),
    ('could not prove termination', 'decreases'),
    ('recommendation not met', 'recommends'),
    ('possible truncation', 'truncation'),
]


def classify(msg):
    for pat, c in CLASS_OF:
        if pat in msg:
            return c
    return 'other'


def run(repo='/repo', gen_dir=None, seed=0, rlimit=30.0, threads=16, use_cache=True, verbose=True):
    gen_dir = gen_dir or os.path.join(VERIF, 'gen')
    os.makedirs(gen_dir, exist_ok=True)
    cache_dir = os.path.join(VERIF, '.cache')
    os.makedirs(cache_dir, exist_ok=True)
    key = tree_hash(repo, seed, rlimit)
    cpath = os.path.join(cache_dir, key + '.json')
    lock = open(os.path.join(cache_dir, 'lock'), 'w')
    fcntl.flock(lock, fcntl.LOCK_EX)
    try:
        if use_cache and os.path.exists(cpath) and not os.environ.get('VP_NO_CACHE'):
            res = json.load(open(cpath))
            res['cache_hit'] = True
            return res
        res = run_uncached(repo, gen_dir, seed, rlimit, threads, verbose)
        res['cache_key'] = key
        res['cache_hit'] = False
        with open(cpath + '.tmp', 'w') as fh:
            json.dump(res, fh)
        os.replace(cpath + '.tmp', cpath)
        # keep the cache small
        ents = sorted((os.path.getmtime(os.path.join(cache_dir, f)), f) for f in os.listdir(cache_dir) if f.endswith('.json'))
        for _, f in ents[:-60]:
            os.remove(os.path.join(cache_dir, f))
        return res
    finally:
        fcntl.flock(lock, fcntl.LOCK_UN)
        lock.close()


def run_uncached(repo, gen_dir, seed, rlimit, threads, verbose):
    """One Verus run; when Verus stops before verification because of constructs it cannot take in some functions of this tree
    (outside its dialect, or not compiling in the extracted form), those functions are re-extracted signature-only
    (external_body, contract assumed) and Verus runs again, so that the rest of the crate is still decided. The functions left
    out are recorded as `degraded`: every property they or their (transitive) callers serve is undecided (tool/verdict.py)."""
    res = attempt(repo, gen_dir, seed, rlimit, threads, verbose, {})
    forced = {}
    for _round in range(3):
        if not res.get('nothing_verified') or res.get('status') == 'extract-error':
            break
        fs = res.get('failures', [])
        bad = [f for f in fs if not f.get('fn') or f['fn'].startswith('spec::')]
        new = {f['fn']: f['message'][:160] for f in fs if f.get('fn') and not f['fn'].startswith('spec::') and f['fn'] not in forced}
        if bad or not new:
            break
        forced.update(new)
        res2 = attempt(repo, gen_dir, seed, rlimit, threads, verbose, forced)
        res2['degraded_first_attempt'] = [{'fn': f.get('fn'), 'message': f['message'][:200]} for f in fs]
        if res2.get('status') == 'extract-error':
            break
        res = res2
    return res


def attempt(repo, gen_dir, seed, rlimit, threads, verbose, force_external):
    t0 = time.time()
    res = {'status': 'ok', 'repo': repo, 'seed': seed, 'rlimit': rlimit}
    genfile = os.path.join(gen_dir, 'mp4_verus.rs')
    try:
        ex = X.Extractor(repo, os.path.join(VERIF, 'contracts'), os.path.join(VERIF, 'prelude'), os.path.join(VERIF, 'spec'), force_external=force_external)
        text = ex.run()
    except (X.ExtractError, X.ContractError, X.LexError, AssertionError, StopIteration, IndexError) as e:
        res['status'] = 'extract-error'
        res['error'] = '%s: %s' % (type(e).__name__, e)
        res['wall_s'] = time.time() - t0
        return res
    with open(genfile, 'w') as fh:
        fh.write(text)
    m = ex.out.srcmap()
    with open(genfile + '.map.json', 'w') as fh:
        json.dump(m, fh)
    with open(genfile + '.report.json', 'w') as fh:
        json.dump(ex.report, fh, indent=1)
    res['extraction'] = ex.report
    res['extract_s'] = time.time() - t0
    sm = SrcMap(m)
    cmd = ['verus', os.path.basename(genfile), '--error-format=json', '--output-json', '--time',
           '--multiple-errors', '40', '--rlimit', str(rlimit), '--num-threads', str(threads),
           '--smt-option', 'smt.random_seed=%d' % seed, '--no-report-long-running']
    res['verus_cmd'] = ' '.join(cmd)
    t1 = time.time()
    p = subprocess.run(cmd, cwd=gen_dir, capture_output=True, text=True)
    res['verus_s'] = time.time() - t1
    res['verus_exit'] = p.returncode
    try:
        vj = json.loads(p.stdout)
    except Exception:
        vj = {}
    res['verus_results'] = vj.get('verification-results', {})
    res['verus_version'] = vj.get('verus', {}).get('version') or vj.get('times-ms', {}).get('verus-build', {}).get('version')
    # per function results
    fnres = {}
    smt = vj.get('times-ms', {}).get('smt', {})
    for mod in smt.get('smt-run-module-times', []):
        for f in mod.get('function-breakdown', []):
            fnres.setdefault(f['function'], []).append({'mode': f.get('mode:'), 'ms': f.get('time'), 'rlimit': f.get('rlimit'), 'success': f.get('success')})
    res['verus_fn'] = fnres
    res['smt_ms'] = smt.get('total')
    # diagnostics
    failures = []
    hard = []
    for line in p.stderr.split('\n'):
        line = line.strip()
        if not line.startswith('{'):
            if line and 'warning' not in line.lower():
                hard.append(line[:300])
            continue
        try:
            d = json.loads(line)
        except Exception:
            continue
        if d.get('level') != 'error':
            continue
        msg = d['message']
        if msg.startswith('aborting due to'):
            continue
        cls = classify(msg)
        def outer(sp):
            # walk macro expansions outwards until the span lies in the generated file
            n = 0
            while sp is not None and sp.get('file_name') != os.path.basename(genfile) and sp.get('expansion') and n < 10:
                sp = sp['expansion'].get('span'); n += 1
            return sp
        spans = [x for x in (outer(sp) for sp in d.get('spans', [])) if x is not None]
        prim = next((s for s in spans if s.get('is_primary')), spans[0] if spans else None)
        sec = [s for s in spans if not s.get('is_primary')]
        f = {'class': cls, 'message': msg}
        if prim is None:
            f['fn'] = None
            failures.append(f); continue
        # the function being verified: for 'post' the primary span is the clause (inside the fn range too)
        site = prim
        clause = None
        if cls == 'post':
            clause = prim
            site = next((s for s in sec if 'end of the function' in (s.get('label') or '') or 'return' in (s.get('label') or '')), prim)
        elif cls == 'pre':
            clause = next((s for s in sec if 'failed precondition' in (s.get('label') or '')), None)
        elif cls in ('inv-end', 'inv-init'):
            clause = prim
        fnr = sm.fn_at(site['byte_start']) or sm.fn_at(prim['byte_start'])
        f['fn'] = fnr['path'] if fnr else None
        if fnr is None:
            # inside the spec library / prelude: name the enclosing proof fn
            tb = text.encode('utf-8')[:prim['byte_start']].decode('utf-8', 'ignore')
            mm = None
            for mm in re.finditer(r'(?:proof|exec|spec)?\s*fn\s+(\w+)', tb):
                pass
            f['fn'] = 'spec::' + (mm.group(1) if mm else '?')
        f['module'] = fnr['module'] if fnr else None
        org, rel = sm.origin(site['byte_start'])
        f['site_origin'] = list(org)
        if org[0] == 'src':
            f['file'] = org[1]
            srctext = open(os.path.join(repo, org[1])).read()
            f['line'] = srctext.count('\n', 0, org[2] + rel) + 1
        elif fnr:
            f['file'] = fnr['file']; f['line'] = fnr['line']
        f['site_text'] = norm(span_text(site))[:200]
        if cls == 'assert' and org[0] == 'inj' and org[1] not in ('proof', 'loop-body-start', 'loop-body-end', 'outline'):
            f['label'] = org[1]
        if clause is not None:
            corg, _ = sm.origin(clause['byte_start'])
            f['clause_origin'] = list(corg)
            f['clause_text'] = norm(span_text(clause))[:300]
            if corg[0] == 'inj':
                f['label'] = corg[1]
                f['clause_src'] = corg[2]
            elif corg[0] in ('prelude', 'spec'):
                f['label'] = 'prelude:' + norm(span_text(clause))[:80]
            cf = sm.fn_at(clause['byte_start'])
            if cls == 'pre' and cf:
                f['callee'] = cf['path']
        if cls in ('vir', 'other') or 'not supported' in msg or 'The verifier does not yet support' in msg:
            f['class'] = 'unsupported'
        f['rendered'] = (d.get('rendered') or '')[:1500]
        failures.append(f)
    # a lemma of the specification library that runs out of resource limit is retried alone with a tenfold limit: the limit is a
    # property of the whole query context (it moves when unrelated code changes), and a library lemma that does not verify makes
    # every property undecided. A lemma that still fails is reported as before.
    retried = []
    for f in list(failures):
        if f['class'] == 'rlimit' and (f.get('fn') or '').startswith('spec::') and len(retried) < 8:
            name = f['fn'][6:]
            cmd2 = ['verus', os.path.basename(genfile), '--output-json', '--verify-root', '--verify-function', name,
                    '--rlimit', str(rlimit * 10), '--smt-option', 'smt.random_seed=%d' % seed, '--no-report-long-running']
            p2 = subprocess.run(cmd2, cwd=gen_dir, capture_output=True, text=True)
            try:
                vr2 = json.loads(p2.stdout).get('verification-results', {})
            except Exception:
                vr2 = {}
            ok2 = vr2.get('verified', 0) >= 1 and vr2.get('errors', 1) == 0
            retried.append({'lemma': name, 'rlimit': rlimit * 10, 'verified': ok2})
            if ok2:
                failures.remove(f)
    res['spec_lemmas_retried'] = retried
    res['failures'] = failures
    res['hard_errors'] = hard[:20]
    vr = res['verus_results']
    if not vj or (vr.get('encountered-vir-error') and not fnres) or (p.returncode != 0 and not failures):
        res['status'] = 'verus-error'
    if any(f['class'] == 'unsupported' for f in failures):
        res['status'] = 'unsupported'
    # rustc / lowering errors stop Verus before any proof obligation is generated: then NOTHING was verified on this tree
    if not vr.get('success') and not vr.get('verified') and not fnres:
        res['nothing_verified'] = True
    res['wall_s'] = time.time() - t0
    return res


def main():
    import argparse
    ap = argparse.ArgumentParser()
    ap.add_argument('--repo', default='/repo')
    ap.add_argument('--seed', type=int, default=int(os.environ.get('VERIF_SEED', '0') or 0))
    ap.add_argument('--rlimit', type=float, default=30)
    ap.add_argument('--no-cache', action='store_true')
    a = ap.parse_args()
    r = run(a.repo, seed=a.seed, rlimit=a.rlimit, use_cache=not a.no_cache)
    print('status', r['status'], 'wall %.1fs' % r.get('wall_s', 0), 'cache' if r.get('cache_hit') else '')
    if r['status'] == 'extract-error':
        print(r['error']); return 2
    import collections
    c = collections.Counter((f['class']) for f in r['failures'])
    print(dict(c))
    byfn = collections.defaultdict(list)
    for f in r['failures']:
        byfn[f.get('fn')].append(f)
    for fn, fs in sorted(byfn.items(), key=lambda kv: str(kv[0])):
        print(fn)
        for f in fs:
            print('   %-9s %-28s %s | %s' % (f['class'], f.get('label', ''), f.get('site_text', '')[:70], f.get('clause_text', '')[:60]))
            if f['class'] == 'unsupported':
                print(f.get('rendered', '')[:800])
    return 0


if __name__ == '__main__':
    sys.exit(main())
