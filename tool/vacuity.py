#!/usr/bin/env python3
"""Vacuity probe: re-generate the Verus file with `ensures false` added to every contracted function and check that the
probe FAILS everywhere.  A function whose probe proves has a contradictory precondition or an unreachable exit."""
import os, sys, json, subprocess
sys.path.insert(0, os.path.dirname(os.path.abspath(__file__)))
import extract as X
VERIF = X.VERIF


def run(repo='/repo', threads=16):
    gen = os.path.join(VERIF, 'gen', 'vacuity')
    os.makedirs(gen, exist_ok=True)
    ex = X.Extractor(repo, os.path.join(VERIF, 'contracts'), os.path.join(VERIF, 'prelude'), os.path.join(VERIF, 'spec'), vacuity=True)
    text = ex.run()
    f = os.path.join(gen, 'mp4_vacuity.rs')
    open(f, 'w').write(text)
    probed = [fn['path'] for fn in ex.report['fns'] if any(l[0].startswith('VACUITY.') for l in fn.get('ensures', []))]
    p = subprocess.run(['verus', os.path.basename(f), '--error-format=json', '--output-json', '--multiple-errors', '60', '--rlimit', '30',
                        '--num-threads', str(threads), '--no-report-long-running'], cwd=gen, capture_output=True, text=True)
    failed = set()
    # map the failing `false` clauses back to functions through their line numbers
    lines = text.split('\n')
    for line in p.stderr.split('\n'):
        if not line.startswith('{'):
            continue
        try:
            d = json.loads(line)
        except Exception:
            continue
        if d.get('level') != 'error' or 'postcondition not satisfied' not in d['message']:
            continue
        for sp in d.get('spans', []):
            t = sp.get('text') or []
            if t and t[0]['text'].strip().startswith('vacuity_probe('):
                # find the function name above this line
                failed.add(sp['line_start'] - 1)
    # a probe line proves iff no error points at it: recompute per function by line of `false,`
    probe_lines = [i for i, l in enumerate(lines) if l.strip().startswith('vacuity_probe(')]
    vac = []
    for pl in probe_lines:
        if pl not in failed:
            ln = pl
            while ln > 0 and ' fn ' not in lines[ln]:
                ln -= 1
            vac.append(lines[ln].strip()[:100] + ' @gen-line %d' % (ln + 1))
    return {'probed': len(probe_lines), 'vacuous': vac}


if __name__ == '__main__':
    r = run(sys.argv[1] if len(sys.argv) > 1 else '/repo')
    print(json.dumps(r, indent=1))
