#!/usr/bin/env python3
"""vp-extract: mechanical extraction of the real functions of /repo/src into one Verus crate file.

Items are copied byte for byte from the working tree; only the syntactic rewrite rules R1..R9 of
DESIGN.md section 2.1 are applied, each one logged in the extraction report.  Contracts from
/verif/contracts/*.vpc are injected around the (unchanged) bodies.
"""
import os, re, sys, json, hashlib, bisect
from dataclasses import dataclass, field
from typing import List, Dict, Optional, Tuple

sys.path.insert(0, os.path.dirname(os.path.abspath(__file__)))
from rustlex import lex, split_items, match_close, Tok, Item, LexError
from contracts import ContractSet, FnContract, Clause, LoopSpec, ContractError

VERIF = os.path.dirname(os.path.dirname(os.path.abspath(__file__)))

KEEP_DERIVES = ['Clone', 'Copy', 'PartialEq', 'Eq', 'Default', 'Hash']
TRAITS_TO_INHERENT = {'ReadBox', 'WriteBox', 'Mp4Box', 'ReadDesc', 'WriteDesc', 'Descriptor', 'Metadata'}
STRIP_MODS = {'crate', 'mp4box', 'track', 'reader', 'writer', 'types', 'error'}


class ExtractError(Exception):
    pass


class Out:
    """Output builder with a byte-exact source map."""
    def __init__(self):
        self.parts: List[str] = []
        self.pos = 0
        self.starts: List[int] = []      # output offset of each segment
        self.origins: List[tuple] = []   # ('src', file, src_off) | ('inj', label, csrc) | ('gen', note)
        self.fn_ranges: List[dict] = []  # {'start','end','path','file','line','module'}

    def add(self, text: str, origin: tuple):
        if not text:
            return
        self.starts.append(self.pos)
        self.origins.append(origin)
        self.parts.append(text)
        self.pos += len(text.encode('utf-8'))

    def text(self) -> str:
        return ''.join(self.parts)

    def srcmap(self) -> dict:
        return {'starts': self.starts, 'origins': self.origins, 'fns': self.fn_ranges}


@dataclass
class Edit:
    start: int
    end: int
    text: str
    origin: tuple


def emit_with_edits(out: Out, src: str, relfile: str, lo: int, hi: int, edits: List[Edit]):
    """Emit src[lo:hi] applying non-overlapping edits (offsets are absolute in src)."""
    edits = sorted(edits, key=lambda e: (e.start, e.end))
    cur = lo
    for e in edits:
        if e.start < cur:
            if e.start == e.end == cur - 0 and False:
                pass
            if e.start < cur and not (e.start == e.end and e.start == cur):
                raise ExtractError('overlapping edits in %s at %d (%r)' % (relfile, e.start, e.text[:40]))
        if e.start > hi or e.end > hi:
            raise ExtractError('edit outside item in %s' % relfile)
        out.add(src[cur:e.start], ('src', relfile, cur))
        out.add(e.text, e.origin)
        cur = max(cur, e.end)
    out.add(src[cur:hi], ('src', relfile, cur))


class Extractor:
    def __init__(self, repo: str, contracts_dir: str, prelude_dir: str, spec_dir: str, vacuity: bool = False, force_external=None):
        self.vacuity = vacuity
        self.force_external = dict(force_external or {})      # fn path -> reason: bodies Verus could not take on this tree (degraded run)
        self.repo = repo
        self.cs = ContractSet()
        self.cs.load_dir(contracts_dir)
        self.prelude_dir = prelude_dir
        self.spec_dir = spec_dir
        self.report = {'rules': [], 'dropped': [], 'external_body': [], 'fns': [], 'unanchored': [],
                       'alloc_sites': [], 'loops': []}
        self.out = Out()
        self.modnames: List[str] = []
        self.used_contracts = set()
        self.box_mods = set()

    # ------------------------------------------------------------------ helpers
    def log_rule(self, rule, relfile, line, note=''):
        self.report['rules'].append({'rule': rule, 'file': relfile, 'line': line, 'note': note})

    def sources(self) -> List[Tuple[str, str]]:
        res = []
        srcdir = os.path.join(self.repo, 'src')
        for f in sorted(os.listdir(srcdir)):
            if f.endswith('.rs') and f not in ('lib.rs', 'error.rs'):
                res.append(('src/' + f, 'm_' + f[:-3]))
        bdir = os.path.join(srcdir, 'mp4box')
        for f in sorted(os.listdir(bdir)):
            if f.endswith('.rs'):
                stem = f[:-3]
                self.box_mods.add(stem)
                res.append(('src/mp4box/' + f, 'm_box' if stem == 'mod' else 'm_' + stem))
        return res

    # ------------------------------------------------------------------ top level
    def run(self):
        out = self.out
        out.add('#![allow(unused_imports, unused_variables, unused_mut, dead_code, unused_assignments, non_snake_case, unreachable_patterns, unused_parens, non_camel_case_types)]\n#![feature(allocator_api)]\n#![verifier::allow(autoderive_clone_without_spec)]\n', ('gen', 'header'))
        out.add('use vstd::prelude::*;\nuse vstd::std_specs::cmp::OrdSpec;\nuse std::collections::HashMap;\nuse std::convert::TryFrom;\nuse std::convert::TryInto;\nuse std::num::TryFromIntError;\nuse std::borrow::Cow;\nuse vstd::string::StringSliceAdditionalSpecFns;\n', ('gen', 'header'))
        out.add('verus! {\n', ('gen', 'header'))
        for d, tag in ((self.prelude_dir, 'prelude'), (self.spec_dir, 'spec')):
            for f in sorted(os.listdir(d)):
                if f.endswith('.rs'):
                    out.add('// ---- %s/%s\n' % (tag, f), ('gen', tag))
                    with open(os.path.join(d, f)) as fh:
                        out.add(fh.read() + '\n', (tag, f, 0))
        self.check_error_enum()
        srcs = self.sources()
        for relfile, mod in srcs:
            self.modnames.append(mod)
        # R4b pre-scan: structs with derive(Default)
        self.derived_default = set()
        for relfile, mod in srcs:
            txt = open(os.path.join(self.repo, relfile)).read()
            for m in re.finditer(r'#\[derive\(([^)]*)\)\]\s*(?:#\[[^\]]*\]\s*)*pub(?:\([a-z]+\))?\s+struct\s+(\w+)', txt):
                if 'Default' in [d.strip() for d in m.group(1).split(',')]:
                    self.derived_default.add(m.group(2))
        for relfile, mod in srcs:
            self.do_file(relfile, mod)
        for mod in self.modnames:
            out.add('pub use %s::*;\n' % mod, ('gen', 'reexport'))
        out.add('} // verus!\nimpl std::fmt::Debug for Error { fn fmt(&self, _f: &mut std::fmt::Formatter<\'_>) -> std::fmt::Result { Ok(()) } }\nfn main() {}\n', ('gen', 'footer'))
        # contracts that matched nothing -> lost anchor
        for c in self.cs.fns:
            if id(c) not in self.used_contracts:
                self.report['unanchored'].append({'what': 'fn ' + c.pattern, 'src': c.src})
        return out.text()

    def check_error_enum(self):
        """The prelude re-declares error.rs's enum; compare variant lists (DESIGN 2.2)."""
        path = os.path.join(self.repo, 'src/error.rs')
        src = open(path).read()
        toks = lex(src)
        items = split_items(src, toks, 0, len(toks))
        variants = []
        for it in items:
            if it.kind == 'enum' and it.name == 'Error':
                body = it.toks[it.body_open + 1:it.body_close]
                depth = 0
                expect = True
                k = 0
                while k < len(body):
                    t = body[k]
                    if t.text == '#':
                        k = match_close(body, k + 1) + 1; continue
                    if t.kind == 'open':
                        c = match_close(body, k)
                        variants[-1] += src[t.start:body[c].end].replace(' ', '')
                        k = c + 1; continue
                    if t.text == ',':
                        expect = True
                    elif expect and t.kind == 'ident':
                        variants.append(t.text); expect = False
                    k += 1
        self.report['error_variants'] = variants
        expected = ['IoError(#[from]std::io::Error)', 'InvalidData(&\'staticstr)', 'BoxNotFound(BoxType)',
                    'Box2NotFound(BoxType,BoxType)', 'TrakNotFound(u32)', 'BoxInTrakNotFound(u32,BoxType)',
                    'BoxInTrafNotFound(u32,BoxType)', 'BoxInStblNotFound(u32,BoxType)',
                    'EntryInStblNotFound(u32,BoxType,u32)', 'EntryInTrunNotFound(u32,BoxType,u32)',
                    'UnsupportedBoxVersion(BoxType,u8)']
        if variants != expected:
            raise ExtractError('src/error.rs enum differs from the prelude model: %r' % variants)

    # ------------------------------------------------------------------ per file
    def do_file(self, relfile: str, mod: str):
        path = os.path.join(self.repo, relfile)
        src = open(path).read()
        try:
            toks = lex(src)
            items = split_items(src, toks, 0, len(toks))
        except (LexError, AssertionError, IndexError) as e:
            raise ExtractError('%s does not lex: %s' % (relfile, e))
        doc_comments = [t for t in lex(src, True) if t.kind == 'comment' and
                        (t.text.startswith('///') or t.text.startswith('//!') or t.text.startswith('/**'))]
        ctx = {'src': src, 'relfile': relfile, 'mod': mod, 'docs': doc_comments}
        out = self.out
        out.add('pub mod %s {\nuse super::*;\n' % mod, ('gen', 'module ' + relfile))
        for it in items:
            self.do_item(ctx, it)
        out.add('} // mod %s\n' % mod, ('gen', 'module'))

    def drop(self, ctx, it: Item, why: str, what: Optional[str] = None):
        self.report['dropped'].append({'file': ctx['relfile'], 'line': it.line,
                                       'item': what or ('%s %s' % (it.kind, it.name)).strip(), 'why': why})

    def do_item(self, ctx, it: Item):
        pol = self.cs.policy
        src = ctx['src']
        if it.kind in ('use',):
            return
        if it.kind == 'mod':
            if it.body_open is None:
                return   # `mod x;`
            return self.drop(ctx, it, 'inline module (tests / serde helper)')
        if it.kind == 'trait':
            return self.drop(ctx, it, 'trait definition (impls are emitted as inherent impls, R1)')
        if it.name and it.name in pol.drop_item:
            return self.drop(ctx, it, 'policy drop-item')
        if it.kind == 'macro_rules':
            if it.name == 'boxtype':
                ctx['boxtype_macro'] = it
                return
            return self.drop(ctx, it, 'macro definition')
        if it.kind == 'macro_call':
            if it.name == 'boxtype':
                return self.do_boxtype(ctx, it)
            return self.drop(ctx, it, 'macro invocation')
        if it.kind in ('struct', 'enum'):
            return self.do_adt(ctx, it)
        if it.kind in ('const', 'static'):
            return self.do_const(ctx, it)
        if it.kind == 'type':
            return self.drop(ctx, it, 'type alias')
        if it.kind == 'fn':
            return self.do_fn(ctx, it, it.name, None, '', pub=None)
        if it.kind == 'impl':
            return self.do_impl(ctx, it)
        self.drop(ctx, it, 'unrecognised item')

    # ------------------------------------------------------------------ generic edits
    def common_edits(self, ctx, toks: List[Tok], lo: int, hi: int) -> List[Edit]:
        """R2 path stripping, R5 constants; doc-comment removal inside [lo,hi)."""
        edits = []
        relfile = ctx['relfile']
        n = len(toks)
        k = 0
        while k < n:
            t = toks[k]
            if t.kind == 'ident' and k + 1 < n and toks[k + 1].text == '::':
                prev = toks[k - 1].text if k > 0 else ''
                if prev != '::' and prev != '.':
                    # strip leading module qualifiers
                    j = k
                    stripped = []
                    while j + 1 < n and toks[j].kind == 'ident' and toks[j + 1].text == '::' and \
                            (toks[j].text in STRIP_MODS or toks[j].text in self.box_mods or
                             (toks[j].text == 'std' and j + 2 < n and toks[j + 2].text in
                              ('u8', 'u16', 'u32', 'u64', 'i32', 'convert', 'num', 'cmp', 'default', 'str', 'mem'))
                             or (toks[j].text in ('convert', 'num', 'default', 'str', 'mem') and stripped and stripped[-1] == 'std')):
                        # do not strip an enum/type named like a module (none in this crate) and
                        # keep `meta::` when it is a local variable path (never followed by ::)
                        stripped.append(toks[j].text)
                        j += 2
                    if j > k:
                        edits.append(Edit(toks[k].start, toks[j].start, '', ('gen', 'R2')))
                        self.log_rule('R2', relfile, t.line, '::'.join(stripped) + '::')
                        k = j
                        continue
            k += 1
        for d in ctx['docs']:
            if lo <= d.start and d.end <= hi:
                edits.append(Edit(d.start, d.end, '', ('gen', 'R4-doc')))
        return edits

    def filter_attrs(self, ctx, it: Item, extra_derives: Optional[List[str]] = None) -> str:
        keep = []
        for a in it.attrs:
            m = re.match(r'#\[derive\((.*)\)\]$', a, re.S)
            if m:
                ds = [d.strip() for d in m.group(1).split(',') if d.strip()]
                kept = [d for d in ds if d in KEEP_DERIVES]
                dropped = [d for d in ds if d not in KEEP_DERIVES]
                if it.kind == 'struct' and 'Default' in kept and it.name in getattr(self, 'derived_default', set()):
                    kept = [d for d in kept if d != 'Default']
                    ctx.setdefault('derive_default', set()).add(it.name)
                dspec = {x.split(':')[0]: (x.split(':')[1].split('+') if ':' in x else ['Clone', 'PartialEq']) for x in self.cs.policy.derive_spec}
                if it.name in dspec:
                    moved = [d for d in kept if d in dspec[it.name]]
                    kept = [d for d in kept if d not in moved]
                    ctx.setdefault('derive_spec', {})[it.name] = moved
                if dropped:
                    self.log_rule('R4', ctx['relfile'], it.line, 'derive dropped: ' + ','.join(dropped))
                if kept:
                    keep.append('#[derive(%s)]' % ', '.join(kept))
            else:
                self.log_rule('R4', ctx['relfile'], it.line, 'attribute dropped: ' + a.split('(')[0])
        return ''.join(k + '\n' for k in keep)

    # ------------------------------------------------------------------ struct / enum
    def do_adt(self, ctx, it: Item):
        src, relfile = ctx['src'], ctx['relfile']
        toks = it.toks
        edits = self.common_edits(ctx, toks, it.start, it.end)
        # visibility of the type itself
        if toks[0].text == 'pub':
            if toks[1].text == '(':
                c = match_close(toks, 1)
                edits.append(Edit(toks[1].start, toks[c].end, '', ('gen', 'R8')))
        else:
            edits.append(Edit(toks[0].start, toks[0].start, 'pub ', ('gen', 'R8')))
        # fields
        open_idx = None
        kkw = next(i for i, t in enumerate(toks) if t.text in ('struct', 'enum'))
        for k, t in enumerate(toks):
            if k <= kkw:
                continue
            if t.kind == 'open' and t.text in '{(':
                open_idx = k; break
            if t.text == ';':
                break
        if open_idx is not None:
            close_idx = match_close(toks, open_idx)
            for k in range(open_idx + 1, close_idx):
                if toks[k].text == '#' and toks[k + 1].text == '[':
                    c = match_close(toks, k + 1)
                    edits.append(Edit(toks[k].start, toks[c].end, '', ('gen', 'R4')))
                    self.log_rule('R4', relfile, toks[k].line, 'field/variant attribute dropped')
            k = open_idx + 1
            at_start = True
            while k < close_idx:
                t = toks[k]
                if at_start:
                    # attributes
                    while toks[k].text == '#':
                        k = match_close(toks, k + 1) + 1
                    if k >= close_idx:
                        break
                    t = toks[k]
                    if it.kind == 'struct':
                        if t.text == 'pub':
                            if toks[k + 1].text == '(' :
                                c = match_close(toks, k + 1)
                                edits.append(Edit(toks[k + 1].start, toks[c].end, '', ('gen', 'R8')))
                                k = c
                        else:
                            edits.append(Edit(t.start, t.start, 'pub ', ('gen', 'R8')))
                            self.log_rule('R8', relfile, t.line, 'field made pub')
                    at_start = False
                    continue
                if t.kind == 'open':
                    k = match_close(toks, k) + 1
                    continue
                if t.text == '<':
                    k = self.skip_angle(toks, k)
                    continue
                if t.text == ',':
                    at_start = True
                k += 1
        attrs = self.filter_attrs(ctx, it)
        self.out.add(attrs, ('gen', 'attrs'))
        emit_with_edits(self.out, src, relfile, it.start, it.end, edits)
        self.out.add('\n', ('gen', 'nl'))
        if it.name in ctx.get('derive_default', set()) and open_idx is not None and toks[open_idx].text == '{':
            # R4b: derive(Default) -> structural specification (compiler-generated code is not repository code)
            close_idx = match_close(toks, open_idx)
            fields = []
            k = open_idx + 1
            cur = []
            depth = 0
            while k < close_idx:
                t = toks[k]
                if t.text == '#' and toks[k + 1].text == '[':
                    k = match_close(toks, k + 1) + 1; continue
                if t.kind == 'open':
                    c = match_close(toks, k); cur += toks[k:c + 1]; k = c + 1; continue
                if t.text == '<': depth += 1
                if t.text == '>': depth -= 1
                if t.text == '>>': depth -= 2
                if t.text == ',' and depth == 0:
                    fields.append(cur); cur = []
                else:
                    cur.append(t)
                k += 1
            if cur: fields.append(cur)
            conj = []
            for f in fields:
                names = [x for x in f if x.text not in ('pub',)]
                if len(names) < 3 or names[1].text != ':':
                    continue
                fname = names[0].text
                ty = ''.join(x.text for x in names[2:])
                if ty in ('u8', 'u16', 'u32', 'u64', 'i8', 'i16', 'i32', 'i64', 'usize'):
                    conj.append('v.%s == 0' % fname)
                elif ty == 'bool':
                    conj.append('v.%s == false' % fname)
                elif ty.startswith('Vec<') or ty == 'String' or ty == 'BytesMut':
                    conj.append('v.%s@.len() == 0' % fname)
                elif ty.startswith('Option<'):
                    conj.append('v.%s is None' % fname)
                elif ty in self.derived_default:
                    conj.append('is_default_%s(v.%s)' % (ty, fname))
                elif ('fn is_manual_default_%s(' % ty) in self.spec_text():
                    conj.append('is_manual_default_%s(v.%s)' % (ty, fname))
            self.out.add('pub open spec fn is_default_%s(v: %s) -> bool { %s }\n' % (it.name, it.name, ' && '.join(conj) if conj else 'true'), ('gen', 'R4b'))
            self.out.add('impl Default for %s { #[verifier::external_body] fn default() -> (r: Self) ensures is_default_%s(r) { unimplemented!() } }\n' % (it.name, it.name), ('gen', 'R4b'))
            self.log_rule('R4b', relfile, it.line, 'derive(Default) of %s replaced by its structural specification' % it.name)
        ds = ctx.get('derive_spec', {}).get(it.name)
        if ds:
            if 'Clone' in ds:
                self.out.add('impl Clone for %s { #[verifier::external_body] fn clone(&self) -> (r: Self) ensures r == *self { unimplemented!() } }\n' % it.name, ('gen', 'derive-spec'))
            if 'PartialEq' in ds:
                self.out.add('impl PartialEq for %s { #[verifier::external_body] fn eq(&self, other: &Self) -> (r: bool) ensures r == (*self == *other) { unimplemented!() } }\n' % it.name, ('gen', 'derive-spec'))
            self.report['external_body'].append({'fn': it.name + '::{' + ','.join(ds) + '}', 'reason': 'derive output replaced by its structural specification (policy derive-spec)'})

    def skip_angle(self, toks, k):
        """toks[k] is '<'; return index after the matching '>' (best effort, used in type position)."""
        depth = 0
        while k < len(toks):
            t = toks[k]
            if t.text == '<': depth += 1
            elif t.text == '>': depth -= 1
            elif t.text == '>>': depth -= 2
            elif t.kind == 'open':
                k = match_close(toks, k)
            k += 1
            if depth <= 0:
                return k
        return k

    def do_const(self, ctx, it: Item):
        src, relfile = ctx['src'], ctx['relfile']
        edits = self.common_edits(ctx, it.toks, it.start, it.end)
        toks = it.toks
        for k, t in enumerate(toks):
            if t.text == '&' and k + 1 < len(toks) and toks[k + 1].text == 'str':
                edits.append(Edit(t.end, t.end, "'static ", ('gen', 'R5')))
                self.log_rule('R5', relfile, t.line, "&str -> &'static str")
        # R5: `[lit; n]` in a const initialiser -> explicit literal
        eq = next((k for k, t in enumerate(toks) if t.text == '='), None)
        if eq is not None:
            for k in range(eq + 1, len(toks) - 4):
                if toks[k].text == '[' and toks[k + 1].kind == 'num' and toks[k + 2].text == ';' and toks[k + 3].kind == 'num' and toks[k + 4].text == ']':
                    cnt = int(toks[k + 3].text.replace('_', ''), 0)
                    edits.append(Edit(toks[k].start, toks[k + 4].end, '[' + ', '.join([toks[k + 1].text] * cnt) + ']', ('gen', 'R5')))
                    self.log_rule('R5', relfile, toks[k].line, '[lit; n] expanded in const')
            # R5: `*b"abcd"` (dereferenced ASCII byte-string literal) -> the array literal of its bytes
            for k in range(eq + 1, len(toks) - 1):
                if toks[k].text == '*' and toks[k + 1].kind == 'str' and re.fullmatch(r'b"[A-Za-z0-9 _\-]*"', toks[k + 1].text):
                    bs = toks[k + 1].text[2:-1]
                    edits.append(Edit(toks[k].start, toks[k + 1].end, '[' + ', '.join("b'%s'" % ch for ch in bs) + ']', ('gen', 'R5')))
                    self.log_rule('R5', relfile, toks[k].line, '*b"..." expanded to a byte array literal in const')
        if toks[0].text == 'pub' and toks[1].text == '(':
            c = match_close(toks, 1)
            edits.append(Edit(toks[1].start, toks[c].end, '', ('gen', 'R8')))
        elif toks[0].text != 'pub':
            edits.append(Edit(toks[0].start, toks[0].start, 'pub ', ('gen', 'R8')))
        emit_with_edits(self.out, src, relfile, it.start, it.end, edits)
        self.out.add('\n', ('gen', 'nl'))

    # ------------------------------------------------------------------ boxtype! macro (R6)
    def do_boxtype(self, ctx, it: Item):
        src, relfile = ctx['src'], ctx['relfile']
        body = it.toks[it.body_open + 1:it.body_close]
        pairs = []
        k = 0
        while k < len(body):
            name = body[k].text
            assert body[k + 1].text == '=>', 'boxtype! shape changed'
            val = body[k + 2].text
            pairs.append((name, val, body[k].start))
            k += 3
            if k < len(body) and body[k].text == ',':
                k += 1
        mac = ctx.get('boxtype_macro')
        if mac is None:
            raise ExtractError('boxtype! invoked before its definition')
        mtext = src[mac.start:mac.end]
        h = hashlib.sha256(re.sub(r'\s+', ' ', mtext).encode()).hexdigest()
        self.report['boxtype_macro_sha256'] = h
        EXPECT = self.cs.policy.opaque_body.get('boxtype_macro_sha256')
        o = self.out
        # the macro's derive(PartialEq, Eq) on a field-less enum + one u32 payload is structural equality: replaced by its
        # specification (R4b) so that `a == b` on box types is usable in proofs; the derive output itself is not verified
        o.add('#[derive(Clone, Copy)]\npub enum BoxType {\n', ('gen', 'R6'))
        for n_, v, off in pairs:
            o.add('    %s,\n' % n_, ('src', relfile, off))
        o.add('    UnknownBox(u32),\n}\n', ('gen', 'R6'))
        o.add('impl PartialEq for BoxType { #[verifier::external_body] fn eq(&self, other: &Self) -> (r: bool) ensures r == (*self == *other) { unimplemented!() } }\nimpl Eq for BoxType {}\n', ('gen', 'R4b'))
        self.report['external_body'].append({'fn': 'BoxType::{PartialEq}', 'reason': "boxtype! macro's derive(PartialEq) replaced by its structural specification (rule R6/R4b)"})
        # From<u32> for BoxType
        self.out.fn_ranges.append({'start': o.pos, 'path': 'BoxType::from<u32>', 'file': relfile, 'line': mac.line, 'module': ctx['mod']})
        fr = self.out.fn_ranges[-1]
        cs = self.contracts_for('BoxType::from<u32>')
        o.add('impl vstd::std_specs::convert::FromSpecImpl<u32> for BoxType {\n    open spec fn obeys_from_spec() -> bool { true }\n    open spec fn from_spec(t: u32) -> BoxType { spec_boxtype_of_u32(t) }\n}\n', ('gen', 'R6'))
        o.add('impl From<u32> for BoxType {\n    fn from(t: u32) -> (r: BoxType)\n', ('gen', 'R6'))
        o.add('    {\n        match t {\n', ('gen', 'R6'))
        for n_, v, off in pairs:
            o.add('            %s => BoxType::%s,\n' % (v, n_), ('src', relfile, off))
        o.add('            _ => BoxType::UnknownBox(t),\n        }\n    }\n}\n', ('gen', 'R6'))
        fr['end'] = o.pos
        self.out.fn_ranges.append({'start': o.pos, 'path': 'u32::from<BoxType>', 'file': relfile, 'line': mac.line, 'module': ctx['mod']})
        fr = self.out.fn_ranges[-1]
        o.add('impl vstd::std_specs::convert::FromSpecImpl<BoxType> for u32 {\n    open spec fn obeys_from_spec() -> bool { true }\n    open spec fn from_spec(b: BoxType) -> u32 { spec_u32_of_boxtype(b) }\n}\n', ('gen', 'R6'))
        o.add('impl From<BoxType> for u32 {\n    fn from(b: BoxType) -> (r: u32)\n    {\n        match b {\n', ('gen', 'R6'))
        for n_, v, off in pairs:
            o.add('            BoxType::%s => %s,\n' % (n_, v), ('src', relfile, off))
        o.add('            BoxType::UnknownBox(t) => t,\n        }\n    }\n}\n', ('gen', 'R6'))
        fr['end'] = o.pos
        self.log_rule('R6', relfile, it.line, 'boxtype! instantiated with %d pairs' % len(pairs))
        self.report['boxtype_pairs'] = [(n_, v) for n_, v, _ in pairs]

    # ------------------------------------------------------------------ impl blocks
    def parse_impl_header(self, ctx, it: Item):
        toks = it.toks
        k = 1
        generics = ''
        if toks[k].text == '<':
            e = self.skip_angle(toks, k)
            generics = ctx['src'][toks[k].start:toks[e - 1].end]
            k = e
        hdr = toks[k:it.body_open]
        # split on `for` at angle depth 0
        depth = 0
        for_idx = None
        for j, t in enumerate(hdr):
            if t.text == '<': depth += 1
            elif t.text == '>': depth -= 1
            elif t.text == '>>': depth -= 2
            elif t.text == 'for' and depth == 0:
                for_idx = j
        src = ctx['src']
        def txt(ts):
            return src[ts[0].start:ts[-1].end] if ts else ''
        if for_idx is None:
            return generics, None, '', txt(hdr), hdr
        trait_toks = hdr[:for_idx]
        type_toks = hdr[for_idx + 1:]
        # trait name = last ident before '<' (or last ident)
        tname = None
        targs = ''
        for j, t in enumerate(trait_toks):
            if t.text == '<':
                targs = txt(trait_toks[j + 1:-1]) if trait_toks[-1].text == '>' else txt(trait_toks[j + 1:])
                break
            if t.kind == 'ident':
                tname = t.text
        return generics, tname, targs, txt(type_toks), type_toks

    def do_impl(self, ctx, it: Item):
        src, relfile = ctx['src'], ctx['relfile']
        generics, trait, targs, selfty, type_toks = self.parse_impl_header(ctx, it)
        pol = self.cs.policy
        # short type name (strip paths and generics)
        ty_short = None
        for t in type_toks:
            if t.kind == 'ident':
                ty_short = t.text
            if t.text == '<':
                break
        if type_toks and type_toks[0].text == '&':
            ty_short = '&' + (ty_short or '')
        if ty_short is None:
            ty_short = re.sub(r'\s+', '', selfty)
        if trait and (trait in pol.drop_impl or ('%s for %s' % (trait, ty_short)) in pol.drop_impl or ('%s@%s' % (trait, ty_short)) in pol.drop_impl):
            return self.drop(ctx, it, 'policy drop-impl', 'impl %s for %s' % (trait, ty_short))
        toks = it.toks
        lo, hi = it.body_open + 1, it.body_close
        # method items inside the impl body: indices are relative to it.toks
        methods = split_items(src, toks, lo, hi)
        selfty_clean = self.strip_paths_text(selfty)
        if trait in TRAITS_TO_INHERENT or trait is None:
            # R1: inherent impl; impl-level generics that only serve the trait argument move to the method
            move_generics = generics if trait in ('ReadBox', 'WriteBox', 'ReadDesc', 'WriteDesc') else ''
            impl_generics = '' if move_generics else generics
            if trait is not None:
                self.log_rule('R1', relfile, it.line, 'impl %s for %s -> inherent' % (trait, ty_short))
            self.out.add('impl%s %s {\n' % (impl_generics, selfty_clean), ('src', relfile, it.start))
            for m in methods:
                if m.kind == 'fn':
                    self.do_fn(ctx, m, '%s::%s' % (ty_short, m.name), ty_short, move_generics,
                               pub=True if trait is not None else None)
                elif m.kind == 'const':
                    self.do_const(ctx, m)
                elif m.kind == 'type':
                    self.drop(ctx, m, 'associated type')
                else:
                    self.drop(ctx, m, 'unrecognised impl item')
            self.out.add('}\n', ('gen', 'impl-end'))
            return
        # genuine trait impls that stay trait impls: Default, From, TryFrom, FromStr, PartialEq
        targs_n = re.sub(r'\s+', '', self.strip_paths_text(targs))
        suffix = '<%s>' % targs_n if targs_n else ''
        trait_txt = trait + ('<%s>' % self.strip_paths_text(targs) if targs else '')
        fnpaths = []
        for m in methods:
            if m.kind == 'fn':
                fnpaths.append('%s::%s%s' % (ty_short, m.name, suffix))
        if any(self.is_dropped_fn(p) for p in fnpaths):
            return self.drop(ctx, it, 'policy drop-fn', 'impl %s for %s' % (trait_txt, ty_short))
        if trait == 'From':
            p = '%s::from%s' % (ty_short, suffix)
            fs = None
            for c in self.contracts_for(p):
                if c.from_spec:
                    fs = c.from_spec
            arg = self.strip_paths_text(targs)
            if fs:
                self.out.add('impl%s vstd::std_specs::convert::FromSpecImpl<%s> for %s {\n    open spec fn obeys_from_spec() -> bool { true }\n    open spec fn from_spec(v: %s) -> Self { %s }\n}\n'
                             % (generics, arg, selfty_clean, arg, fs), ('inj', 'from_spec ' + p, ''))
            else:
                self.out.add('impl%s vstd::std_specs::convert::FromSpecImpl<%s> for %s {\n    open spec fn obeys_from_spec() -> bool { false }\n    open spec fn from_spec(v: %s) -> Self { arbitrary() }\n}\n'
                             % (generics, arg, selfty_clean, arg), ('gen', 'from_spec default'))
        if trait == 'PartialEq' and not targs:
            # manual PartialEq impls make no claim about vstd's eq_spec (their own contract, if any, is what callers see)
            self.out.add('impl%s vstd::std_specs::cmp::PartialEqSpecImpl for %s {\n    open spec fn obeys_eq_spec() -> bool { false }\n    open spec fn eq_spec(&self, other: &%s) -> bool { arbitrary() }\n}\n'
                         % (generics, selfty_clean, selfty_clean), ('gen', 'eq_spec default'))
        if trait == 'TryFrom':
            p = '%s::try_from%s' % (ty_short, suffix)
            fs = None
            for c in self.contracts_for(p):
                if c.from_spec:
                    fs = c.from_spec
            arg = self.strip_paths_text(targs)
            if fs:
                self.out.add('impl%s vstd::std_specs::convert::TryFromSpecImpl<%s> for %s {\n    open spec fn obeys_try_from_spec() -> bool { true }\n    open spec fn try_from_spec(v: %s) -> Result<Self> { %s }\n}\n'
                             % (generics, arg, selfty_clean, arg, fs), ('inj', 'from_spec ' + p, ''))
            else:
                self.out.add('impl%s vstd::std_specs::convert::TryFromSpecImpl<%s> for %s {\n    open spec fn obeys_try_from_spec() -> bool { false }\n    open spec fn try_from_spec(v: %s) -> Result<Self> { arbitrary() }\n}\n'
                             % (generics, arg, selfty_clean, arg), ('gen', 'try_from_spec default'))
        self.out.add('impl%s %s for %s {\n' % (generics, trait_txt, selfty_clean), ('src', relfile, it.start))
        for m in methods:
            if m.kind == 'fn':
                self.do_fn(ctx, m, '%s::%s%s' % (ty_short, m.name, suffix), ty_short, '', pub=False, in_trait=True)
            elif m.kind == 'type':
                edits = self.common_edits(ctx, m.toks, m.start, m.end)
                emit_with_edits(self.out, src, relfile, m.start, m.end, edits)
                self.out.add('\n', ('gen', 'nl'))
            else:
                self.drop(ctx, m, 'unrecognised impl item')
        self.out.add('}\n', ('gen', 'impl-end'))

    def spec_text(self) -> str:
        if not hasattr(self, '_spec_text'):
            self._spec_text = ''.join(open(os.path.join(self.spec_dir, f)).read() for f in sorted(os.listdir(self.spec_dir)) if f.endswith('.rs'))
        return self._spec_text

    def strip_paths_text(self, s: str) -> str:
        def repl(m):
            return ''
        mods = '|'.join(sorted(STRIP_MODS | self.box_mods, key=len, reverse=True))
        s = re.sub(r'\bstd::(convert|num|default|str|mem)::', '', s)
        s = re.sub(r'(?<![\w:.])(?:(?:%s)::)+' % mods, '', s)
        return s

    def is_dropped_fn(self, path: str) -> bool:
        pol = self.cs.policy
        name = re.sub(r'<.*>$', '', path).split('::')[-1]
        return path in pol.drop_fn or name in pol.drop_fn

    def contracts_for(self, path: str) -> List[FnContract]:
        cs = self.cs.for_fn(path)
        for c in cs:
            self.used_contracts.add(id(c))
        return cs

    # ------------------------------------------------------------------ functions
    def do_fn(self, ctx, it: Item, path: str, selfty: Optional[str], extra_generics: str,
              pub: Optional[bool], in_trait: bool = False):
        src, relfile = ctx['src'], ctx['relfile']
        pol = self.cs.policy
        if self.is_dropped_fn(path):
            return self.drop(ctx, it, 'policy drop-fn', 'fn ' + path)
        toks = it.toks
        # locate `fn`
        kfn = next(i for i, t in enumerate(toks) if t.text == 'fn')
        kname = kfn + 1
        k = kname + 1
        gen_span = None
        if toks[k].text == '<':
            e = self.skip_angle(toks, k)
            gen_span = (k, e - 1)
            k = e
        assert toks[k].text == '(', 'fn %s: cannot find parameter list' % path
        pclose = match_close(toks, k)
        popen = k
        k = pclose + 1
        ret_span = None
        if it.body_open is None:
            return self.drop(ctx, it, 'bodiless fn')
        if toks[k].text == '->':
            r0 = k + 1
            r1 = r0
            while r1 < it.body_open and toks[r1].text != 'where':
                r1 += 1
            ret_span = (r0, r1 - 1)
        contracts = self.contracts_for(path)
        # parameter names (self excluded) for the %1, %2 ... placeholders of pattern contracts
        pnames = []
        j = popen + 1
        seg = []
        while j <= pclose:
            t = toks[j]
            if j == pclose or (t.text == ',' ):
                names = [x for x in seg]
                if names:
                    # pattern up to ':'
                    pat = []
                    for x in names:
                        if x.text == ':':
                            break
                        pat.append(x)
                    idents = [x.text for x in pat if x.kind == 'ident' and x.text not in ('mut', 'ref')]
                    if idents and idents[-1] != 'self':
                        pnames.append(idents[-1])
                seg = []
                j += 1
                continue
            if t.kind == 'open':
                c = match_close(toks, j)
                seg += toks[j:c + 1]
                j = c + 1
                continue
            if t.text == '<':
                e = self.skip_angle(toks, j)
                seg += toks[j:e]
                j = e
                continue
            seg.append(t)
            j += 1
        def subst(txt):
            return re.sub(r'%(\d)', lambda m: pnames[int(m.group(1)) - 1] if int(m.group(1)) <= len(pnames) else m.group(0), txt)
        self._subst = subst
        self._pnames = pnames
        forced = path in self.force_external and path not in pol.external
        external = path in pol.external or forced
        edits = self.common_edits(ctx, toks, it.start, it.end)
        # visibility
        vis_end = kfn
        # (qualifiers like `pub(crate)`, `const`, `unsafe` precede `fn`)
        head_txt = src[it.start:toks[kfn].start]
        if in_trait:
            pass
        else:
            newhead = 'pub '
            if 'const' in head_txt.split():
                newhead += 'const '
            if head_txt != newhead:
                edits.append(Edit(it.start, toks[kfn].start, newhead, ('gen', 'R8')))
        # generics moved from the impl (R1)
        if extra_generics:
            inner = extra_generics.strip()[1:-1]
            if gen_span:
                edits.append(Edit(toks[gen_span[0]].end, toks[gen_span[0]].end, inner + ', ', ('gen', 'R1')))
            else:
                edits.append(Edit(toks[kname].end, toks[kname].end, '<' + inner + '>', ('gen', 'R1')))
        # return value name
        retname = 'r'
        for c in contracts:
            if c.ret:
                retname = c.ret
        if ret_span:
            edits.append(Edit(toks[ret_span[0]].start, toks[ret_span[0]].start, '(%s: ' % retname, ('gen', 'ret-name')))
            edits.append(Edit(toks[ret_span[1]].end, toks[ret_span[1]].end, ')', ('gen', 'ret-name')))
        # contract clauses before the body
        body_open_tok = toks[it.body_open]
        clause_txt: List[Tuple[str, tuple]] = []
        def add_clauses(kw, clauses: List[Clause]):
            if not clauses:
                return
            clause_txt.append(('\n    %s\n' % kw, ('gen', kw)))
            for cl in clauses:
                clause_txt.append(('        %s,\n' % subst(cl.text), ('inj', cl.label, cl.src, kw)))
        reqs = [cl for c in contracts for cl in c.requires]
        enss = [cl for c in contracts for cl in c.ensures]
        decs = [cl for c in contracts for cl in c.decreases]
        if in_trait and reqs:
            raise ExtractError('requires on trait impl method %s' % path)
        if self.vacuity and not external and (reqs or enss):
            # vacuity probe: this clause must FAIL; if it proves, the contract (or body) is vacuous
            self._vac_n = getattr(self, '_vac_n', 0) + 1
            enss = [Clause('VACUITY.' + path, 'vacuity_probe(%d)' % self._vac_n, 'vacuity-probe')] + enss
        add_clauses('requires', reqs)
        add_clauses('ensures', enss)
        add_clauses('decreases', decs)
        for txt, org in clause_txt:
            edits.append(Edit(body_open_tok.start, body_open_tok.start, txt, org))
        # attributes
        attrs = []
        for c in contracts:
            attrs += c.attrs
        if external:
            attrs.append('#[verifier::external_body]')
            # the body of an assumed function is not seen by Verus: pin its text, a changed body makes the assumption stale
            btxt = ' '.join(t.text for t in it.toks)                                # tokens only: comments / layout do not matter
            bh = hashlib.sha256(btxt.encode()).hexdigest()
            exp = (self.cs.policy.external_sha or {}).get(path)
            if forced:
                self.report.setdefault('degraded', []).append({'fn': path, 'reason': self.force_external[path], 'file': relfile, 'line': it.line})
            else:
                self.report['external_body'].append({'fn': path, 'reason': pol.external[path], 'file': relfile, 'line': it.line,
                                                     'sha256': bh, 'expected': exp, 'unchanged': (exp == bh)})
        else:
            attrs.append('#[verifier::loop_isolation(false)]')
        # loops, proof injections (only meaningful when the body is verified)
        if not external:
            edits += self.body_edits(ctx, it, path, contracts)
        else:
            # signature-only extraction: the body is NOT verified by Verus (assumed contract)
            edits = [e for e in edits if not (toks[it.body_open].end <= e.start and e.end <= toks[it.body_close].start
                                              and not (e.start == e.end == toks[it.body_open].start))]
            edits.append(Edit(toks[it.body_open].end, toks[it.body_close].start, ' unimplemented!() ', ('gen', 'external-body')))
        if ctx.pop('_no_measure', False):
            attrs.append('#[verifier::exec_allows_no_decreases_clause]')
        # record
        props = sorted({p for c in contracts for p in c.props})
        self.out.add(''.join(a + '\n' for a in attrs), ('gen', 'attrs'))
        edits = drop_subsumed(edits)
        fr = {'start': self.out.pos, 'path': path, 'file': relfile, 'line': it.line, 'module': ctx['mod'],
              'props': props, 'external': external,
              'labels': [cl.label for cl in reqs + enss]}
        emit_with_edits(self.out, src, relfile, it.start, it.end, edits)
        fr['end'] = self.out.pos
        self.out.fn_ranges.append(fr)
        self.out.add('\n', ('gen', 'nl'))
        loop_labels = [[cl.label, cl.src, 'invariant'] for c in contracts for ls in c.loops.values() for cl in (ls.invariant + ls.invariant_except_break + ls.ensures)]
        calls = set()
        for k_ in range(it.body_open, it.body_close):
            t_ = toks[k_]
            if t_.kind == 'ident' and k_ + 1 < len(toks) and toks[k_ + 1].text in ('(', '::') and (toks[k_ + 1].text == '(' or (k_ + 3 < len(toks) and toks[k_ + 2].text == '<')):
                if k_ >= 2 and toks[k_ - 1].text == '::' and toks[k_ - 2].kind == 'ident':
                    calls.add(toks[k_ - 2].text + '::' + t_.text)
                elif k_ >= 1 and toks[k_ - 1].text == '.':
                    calls.add('.' + t_.text)
                else:
                    calls.add(t_.text)
        # raw short-transfer primitives (Read::read / Write::write, not read_exact / write_all) used by this function, and whether
        # each use sits inside a loop of the function (a retry loop is the only transparent way to use them: C10)
        raw = []
        if not external:
            lps = self.find_loops(toks, it.body_open + 1, it.body_close)
            for k_ in range(it.body_open, it.body_close - 1):
                # (`.write(&bytes)` / `.read(&mut buf)`: a borrowed buffer argument; `BoxHeader::write(writer)` and the like are not these)
                if toks[k_].text == '.' and toks[k_ + 1].text in ('read', 'write') and toks[k_ + 2].text == '(' and toks[k_ + 3].text == '&' \
                        and k_ >= 1 and toks[k_ - 1].kind == 'ident' and ('writer' in toks[k_ - 1].text or 'reader' in toks[k_ - 1].text):
                    raw.append({'name': toks[k_ + 1].text, 'line': toks[k_ + 1].line, 'in_loop': any(bo_ < k_ < bc_ for (_kw, bo_, bc_) in lps)})
        self.report['fns'].append({'path': path, 'file': relfile, 'line': it.line, 'external': external, 'calls': sorted(calls), 'raw_transfers': raw,
                                   'contracted': bool(contracts), 'props': props, 'module': ctx['mod'],
                                   'end_line': it.line + src.count('\n', it.start, it.end),
                                   'requires': [[cl.label, cl.src] for cl in reqs],
                                   'ensures': [[cl.label, cl.src] for cl in enss],
                                   'invariants': loop_labels,
                                   'has_decreases': bool(decs)})

    def find_loops(self, toks: List[Tok], lo: int, hi: int):
        """Return [(kw_index, body_open_index, body_close_index)] in source order within toks[lo:hi]."""
        loops = []
        k = lo
        while k < hi:
            t = toks[k]
            if t.kind == 'ident' and t.text in ('while', 'for', 'loop'):
                prev = toks[k - 1].text if k > 0 else ''
                if t.text == 'for' and prev in ('impl', '>', 'where', ':'):
                    k += 1; continue
                # find body
                j = k + 1
                while j < hi:
                    tj = toks[j]
                    if tj.kind == 'open':
                        if tj.text == '{':
                            break
                        j = match_close(toks, j) + 1
                        continue
                    j += 1
                if j >= hi:
                    raise ExtractError('loop without body at line %d' % t.line)
                loops.append((k, j, match_close(toks, j)))
            k += 1
        return loops

    # ------------------------------------------------------------------ robustness: hints that name a vanished local
    SPEC_WORDS = set("""let ghost tracked mut as if else match matches is implies by requires ensures forall exists choose assert assume
        broadcast use reveal reveal_with_fuel old final self Self int nat u8 u16 u32 u64 u128 usize i8 i16 i32 i64 i128 isize bool char
        true false Some None Ok Err Seq Set Map Option Result Vec String r ret__ bit_vector nonlinear_arith compute compute_only
        decreases invariant spinoff_prover proof fn return in for while loop break continue ref move add sub mul""".split())

    def lib_names(self) -> set:
        """names defined by the prelude / specification library (functions, lemmas, broadcast groups, constants)"""
        if getattr(self, '_lib_names', None) is None:
            names = set()
            for d in (self.prelude_dir, self.spec_dir):
                for f in sorted(os.listdir(d)):
                    if f.endswith('.rs'):
                        txt = open(os.path.join(d, f)).read()
                        names.update(re.findall(r'\bfn\s+(\w+)', txt))
                        names.update(re.findall(r'\bbroadcast\s+group\s+(\w+)', txt))
                        names.update(re.findall(r'\bconst\s+(\w+)', txt))
            self._lib_names = names
        return self._lib_names

    def missing_locals(self, text: str, fn_idents: set, extra: set) -> list:
        """Identifiers a contract fragment uses as plain values (not calls, paths, fields or names it binds itself) that do not
        occur anywhere in the function's own text: the fragment was written against a local that this tree no longer has."""
        try:
            tk = [t for t in lex(text) if t.kind != 'comment']
        except Exception:
            return []
        bound = set()
        for k, t in enumerate(tk):
            if t.kind != 'ident':
                continue
            prev = tk[k - 1].text if k else ''
            prev2 = tk[k - 2].text if k > 1 else ''
            nxt = tk[k + 1].text if k + 1 < len(tk) else ''
            if prev in ('let', 'mut', 'ghost', 'tracked') or (prev == '|' and nxt in (':', ',', '|')) or (prev == ',' and nxt == ':') \
                    or (prev == '(' and prev2 in ('Some', 'Ok', 'Err') and nxt == ')'):
                bound.add(t.text)
        miss = []
        for k, t in enumerate(tk):
            if t.kind != 'ident' or t.text in self.SPEC_WORDS or t.text in bound or t.text in fn_idents or t.text in extra \
                    or t.text in self.lib_names():
                continue
            if not re.match(r'^[a-z_][a-z0-9_]*$', t.text):
                continue
            prev = tk[k - 1].text if k else ''
            nxt = tk[k + 1].text if k + 1 < len(tk) else ''
            if prev in ('.', '::', '->', '#', '[') and (prev != '[' or t.text == 'trigger') or nxt in ('(', '::', '!', '<') or (nxt == ':' and prev in ('{', ',')):
                continue
            if t.text not in miss:
                miss.append(t.text)
        return miss

    def body_edits(self, ctx, it: Item, path: str, contracts: List[FnContract]) -> List[Edit]:
        src, relfile = ctx['src'], ctx['relfile']
        toks = it.toks
        edits: List[Edit] = []
        lo, hi = it.body_open + 1, it.body_close
        loops = self.find_loops(toks, lo, hi)
        fn_idents = set(t.text for t in toks if t.kind == 'ident')
        hint_extra = set()
        for c in contracts:
            for ls in c.loops.values():
                if ls.iter_name: hint_extra.add(ls.iter_name)
            for p_ in c.proofs:
                if p_.raw:                                                     # `ghost` injections declare ghost variables
                    hint_extra.update(re.findall(r'\blet\s+ghost\s+(?:mut\s+)?(\w+)', p_.text))
        loop_specs: Dict[int, List[LoopSpec]] = {}
        for c in contracts:
            for n_, ls in c.loops.items():
                loop_specs.setdefault(n_, []).append(ls)
        for n_ in loop_specs:
            if n_ == 0:
                continue
            if n_ < 1 or n_ > len(loops):
                self.report['unanchored'].append({'what': '%s loop %d' % (path, n_), 'src': loop_specs[n_][0].invariant[0].src if loop_specs[n_][0].invariant else ''})
        for idx, (kw, bo, bc) in enumerate(loops):
            ordinal = idx + 1
            specs = loop_specs.get(ordinal, []) + loop_specs.get(0, [])
            kwtok = toks[kw]
            has_dec = any(sp.decreases for sp in specs)
            self.report['loops'].append({'fn': path, 'ordinal': ordinal, 'kind': kwtok.text, 'file': relfile, 'line': kwtok.line,
                                         'contracted': bool(specs), 'measure': has_dec or kwtok.text == 'for'})
            if kwtok.text != 'for' and not has_dec:
                ctx['_no_measure'] = True
            iter_name = None
            for s in specs:
                if s.iter_name: iter_name = s.iter_name
            let_inj = ''
            if kwtok.text == 'for':
                # R3: enumerate
                hdr = toks[kw + 1:bo]
                txts = [t.text for t in hdr]
                if len(txts) >= 12 and txts[0] == '(' and txts[2] == ',' and txts[4] == ')' and txts[5] == 'in' \
                        and txts[-8:] == ['.', 'iter', '(', ')', '.', 'enumerate', '(', ')']:
                    i_name, x_name = txts[1], txts[3]
                    expr = src[hdr[6].start:hdr[-9].end]
                    expr = self.strip_paths_text(expr)
                    body_txt = src[toks[bo].start:toks[bc].end]
                    if re.search(r'\bcontinue\b', body_txt):
                        raise ExtractError('R3: enumerate loop with continue in %s' % path)
                    newhdr = '%s in %s0..%s.len() ' % (i_name, ('%s: ' % iter_name) if iter_name else '', expr)
                    edits.append(Edit(toks[kw + 1].start, toks[bo].start, newhdr, ('gen', 'R3')))
                    let_inj = ' let %s = &%s[%s];' % (x_name, expr, i_name)
                    self.log_rule('R3', relfile, kwtok.line, 'enumerate desugared in ' + path)
                    # drop path-strip edits inside the replaced header
                    edits_drop = (toks[kw + 1].start, toks[bo].start)
                    ctx.setdefault('_drop_ranges', []).append(edits_drop)
                elif len(txts) >= 4 and txts[0] == '&' and hdr[1].kind == 'ident' and txts[2] == 'in':
                    # R12: `for &x in E`  ->  `for x__r in E { let x = *x__r;`   (reference pattern moved into a let)
                    x_name = txts[1]
                    edits.append(Edit(hdr[0].start, hdr[1].end, '%s__r' % x_name, ('gen', 'R12')))
                    let_inj = ' let %s = *%s__r;' % (x_name, x_name)
                    if iter_name:
                        edits.append(Edit(hdr[2].end, hdr[2].end, ' %s:' % iter_name, ('gen', 'R9')))
                    self.log_rule('R12', relfile, kwtok.line, 'reference pattern in for-loop header moved into a let in ' + path)
                elif iter_name:
                    # R9: ghost iterator name
                    kin = next(j for j in range(kw + 1, bo) if toks[j].text == 'in')
                    edits.append(Edit(toks[kin].end, toks[kin].end, ' %s:' % iter_name, ('gen', 'R9')))
                    self.log_rule('R9', relfile, kwtok.line, 'ghost iterator name in ' + path)
            clause_parts: List[Tuple[str, tuple]] = []
            def add(kwname, cls):
                if cls:
                    clause_parts.append(('\n        %s\n' % kwname, ('gen', kwname)))
                    for cl in cls:
                        ml = self.missing_locals(cl.text, fn_idents, hint_extra)
                        if ml:
                            self.report['unanchored'].append({'what': '%s loop %d clause [%s] names %s, which this tree does not have' % (path, ordinal, cl.label, ', '.join(ml)), 'src': cl.src})
                            continue
                        clause_parts.append(('            %s,\n' % self._subst(cl.text), ('inj', cl.label, cl.src, kwname)))
            add('invariant_except_break', [cl for s in specs for cl in s.invariant_except_break])
            add('invariant', [cl for s in specs for cl in s.invariant])
            add('ensures', [cl for s in specs for cl in s.ensures])
            add('decreases', [cl for s in specs for cl in s.decreases])
            for txt, org in clause_parts:
                edits.append(Edit(toks[bo].start, toks[bo].start, txt, org))
            bs = ''.join('\n proof {\n%s\n }\n' % t for s in specs for t, _ in s.body_start)
            if let_inj or bs:
                edits.append(Edit(toks[bo].end, toks[bo].end, let_inj + bs, ('inj', 'loop-body-start', '', 'proof')))
            be = ''.join('\n proof {\n%s\n }\n' % t for s in specs for t, _ in s.body_end)
            if be:
                # a loop body may end in a unit-valued tail expression without `;` (`v.push(x)`): terminate it before the proof block
                if toks[bc - 1].text not in (';', '}', '{'):
                    edits.append(Edit(toks[bc - 1].end, toks[bc - 1].end, ';', ('gen', 'R13')))
                    self.log_rule('R13', relfile, toks[bc - 1].line, 'tail statement of a loop body terminated by `;` before an injected proof block in ' + path)
                edits.append(Edit(toks[bc].start, toks[bc].start, be, ('inj', 'loop-body-end', '', 'proof')))
        # proof injections
        body_src_lo, body_src_hi = toks[it.body_open].end, toks[it.body_close].start
        for c in contracts:
            for p in c.proofs:
                block = ('\n%s\n' % p.text) if p.raw else ('\n proof {\n%s\n }\n' % p.text)
                ml = self.missing_locals(p.text, fn_idents, hint_extra)
                if ml:
                    self.report['unanchored'].append({'what': '%s proof %s "%s" names %s, which this tree does not have' % (path, p.where, p.anchor, ', '.join(ml)), 'src': p.src})
                    continue
                if p.where == 'after-write':
                    ws = self.find_write_stmts(src, toks, lo, hi)
                    if p.nth < 1 or p.nth > len(ws):
                        self.report['unanchored'].append({'what': '%s proof after-write #%d' % (path, p.nth), 'src': p.src})
                        continue
                    edits.append(Edit(ws[p.nth - 1], ws[p.nth - 1], block, ('inj', p.label or 'proof', p.src, 'proof')))
                elif p.where == 'body-start':
                    edits.append(Edit(body_src_lo, body_src_lo, block, ('inj', p.label or 'proof', p.src, 'proof')))
                elif p.where == 'fn-end':
                    edits.append(Edit(body_src_hi, body_src_hi, block, ('inj', p.label or 'proof', p.src, 'proof')))
                else:
                    pos = self.find_anchor(src, toks, lo, hi, p.anchor, p.nth)
                    if pos is not None and os.environ.get('VP_ANCHOR_SUGGEST'):
                        m_ = self.minimize_anchor(src, toks, lo, hi, p.anchor, p.nth)
                        if m_ and m_ != re.sub(r'\s+', ' ', p.anchor).strip():
                            self.report.setdefault('anchor_suggestions', []).append({'src': p.src, 'old': p.anchor, 'new': m_, 'fn': path})
                    if pos is None:
                        self.report['unanchored'].append({'what': '%s proof %s "%s"' % (path, p.where, p.anchor), 'src': p.src})
                        continue
                    st_start, st_end = pos
                    if p.where == 'tail':
                        # R11: bind the tail expression so that a proof block can follow it:  E  ->  { let ret__ = E; proof {..} ret__ }
                        edits.append(Edit(st_start, st_start, '{ let ret__ = ', ('gen', 'R11')))
                        edits.append(Edit(st_end, st_end, ';' + block.replace('%r', 'ret__') + ' ret__ }', ('inj', p.label or 'proof', p.src, 'proof')))
                        self.log_rule('R11', relfile, src.count('\n', 0, st_start) + 1, 'tail expression bound for a proof block in ' + path)
                    elif p.where == 'before':
                        edits.append(Edit(st_start, st_start, block, ('inj', p.label or 'proof', p.src, 'proof')))
                    else:
                        edits.append(Edit(st_end, st_end, block, ('inj', p.label or 'proof', p.src, 'proof')))
        # F5 allocation bound: a ghost assertion before every statement that allocates a length taken from a variable
        size_name = next((nm for nm in getattr(self, '_pnames', []) if nm in ('size', '_size')), None)
        k = lo
        nalloc = 0
        while k < hi:
            t = toks[k]
            expr = None
            if t.text == 'with_capacity' and toks[k + 1].text == '(' and toks[k - 1].text == '::':
                c = match_close(toks, k + 1)
                expr = src[toks[k + 2].start:toks[c - 1].end] if c > k + 2 else None
            elif t.text == 'reserve' and toks[k - 1].text == '.' and toks[k + 1].text == '(':
                c = match_close(toks, k + 1)
                expr = src[toks[k + 2].start:toks[c - 1].end] if c > k + 2 else None
            elif t.text == 'vec' and toks[k + 1].text == '!' and toks[k + 2].text == '[':
                c = match_close(toks, k + 2)
                semi = next((j for j in range(k + 3, c) if toks[j].text == ';'), None)
                if semi is not None and c > semi + 1:
                    expr = src[toks[semi + 1].start:toks[c - 1].end]
            if expr is not None and not re.fullmatch(r'[0-9_]+', expr.strip()):
                # statement start: after the previous `;`, `{` or `}`
                j = k
                depth = 0
                while j > lo:
                    tj = toks[j - 1]
                    if tj.text == '}' and depth == 0: break
                    if tj.kind == 'close': depth += 1
                    elif tj.kind == 'open':
                        if depth == 0: break
                        depth -= 1
                    elif tj.text == ';' and depth == 0: break
                    j -= 1
                nalloc += 1
                e2 = re.sub(r'\s+as\s+(usize|_)\s*$', '', self.strip_paths_text(expr).strip())
                txt = '\n proof { assert(alloc_bounded((%s) as int, %s)); }\n' % (e2, ('%s as int' % size_name) if size_name else '0int')
                edits.append(Edit(toks[j].start, toks[j].start, txt, ('inj', 'C08.alloc-bound', 'F5 site %d of %s' % (nalloc, path), 'alloc')))
                self.report['alloc_sites'].append({'fn': path, 'file': relfile, 'line': t.line, 'expr': expr.strip(), 'bounded_by': size_name or 'constant'})
            k += 1
        # R10 closure contracts: `|n| EXPR` -> `|n: T| -> (cr: U) requires .. ensures .. { EXPR }` (body text untouched)
        cspecs = {}
        for c in contracts:
            for n_, sp in c.closures.items():
                cspecs[n_] = sp
        if cspecs:
            found = []
            k = lo
            while k < hi:
                t = toks[k]
                if t.text == '|' and toks[k - 1].text in ('(', ',', '=') :
                    j = k + 1
                    while j < hi and toks[j].text != '|':
                        j += 1
                    found.append((k, j))
                    k = j + 1
                    continue
                k += 1
            for n_, sp in cspecs.items():
                if n_ < 1 or n_ > len(found):
                    self.report['unanchored'].append({'what': '%s closure %d' % (path, n_), 'src': sp.src})
                    continue
                k0, k1 = found[n_ - 1]
                # body extent
                b0 = k1 + 1
                if toks[b0].text == '{':
                    b1 = match_close(toks, b0)
                    wrap = False
                else:
                    j = b0
                    while j < hi:
                        tj = toks[j]
                        if tj.kind == 'open':
                            j = match_close(toks, j) + 1; continue
                        if tj.kind == 'close' or tj.text == ',':
                            break
                        j += 1
                    b1 = j - 1
                    wrap = True
                hdr = sp.header
                cl = ''
                if sp.requires:
                    cl += ' requires ' + ', '.join(self._subst(x.text) for x in sp.requires)
                if sp.ensures:
                    cl += ' ensures ' + ', '.join(self._subst(x.text) for x in sp.ensures)
                clabel = (sp.ensures[0].label if sp.ensures else (sp.requires[0].label if sp.requires else 'closure-contract'))
                edits.append(Edit(toks[k0].start, toks[k1].end, hdr + cl + (' {' if wrap else ''), ('inj', clabel, sp.src, 'closure')))
                if wrap:
                    edits.append(Edit(toks[b1].end, toks[b1].end, ' }', ('gen', 'R10')))
                self.log_rule('R10', relfile, toks[k0].line, 'closure %d of %s annotated' % (n_, path))
        # R7 outlines
        for c in contracts:
            for o in c.outlines:
                if getattr(o, 'expr', False):
                    # expression-level outline: the exact token sequence of one expression is replaced by a call
                    want = [t.text for t in lex(o.frm)]
                    hit = None
                    for k in range(lo, hi - len(want) + 1):
                        if [t.text for t in toks[k:k + len(want)]] == want:
                            hit = k; break
                    if hit is None:
                        self.report['unanchored'].append({'what': '%s outline-expr "%s"' % (path, o.frm), 'src': o.src})
                        continue
                    a0, b1 = toks[hit].start, toks[hit + len(want) - 1].end
                    region = ' '.join(t.text for t in toks[hit:hit + len(want)])     # tokens only: comments / layout do not matter
                    h = hashlib.sha256(region.encode()).hexdigest()
                    ok = (h == o.sha)
                    self.report.setdefault('outlines', []).append({'fn': path, 'file': relfile, 'from': o.frm, 'to': '(expression)',
                                                                   'sha256': h, 'expected': o.sha, 'unchanged': ok,
                                                                   'lines': [src.count('\n', 0, a0) + 1, src.count('\n', 0, b1) + 1]})
                    self.log_rule('R7', relfile, src.count('\n', 0, a0) + 1, 'outlined expression in %s (%s)' % (path, 'unchanged' if ok else 'CHANGED'))
                    edits.append(Edit(a0, b1, o.text, ('inj', 'outline', o.src, 'outline')))
                    continue
                a = self.find_anchor(src, toks, lo, hi, o.frm, 1)
                b = self.find_anchor(src, toks, lo, hi, o.to, 1)
                if a is None or b is None or b[1] <= a[0]:
                    self.report['unanchored'].append({'what': '%s outline "%s"' % (path, o.frm), 'src': o.src})
                    continue
                region = ' '.join(t.text for t in toks if a[0] <= t.start < b[1])   # tokens only: comments / layout do not matter
                h = hashlib.sha256(region.encode()).hexdigest()
                ok = (h == o.sha)
                self.report.setdefault('outlines', []).append({'fn': path, 'file': relfile, 'from': o.frm, 'to': o.to,
                                                               'sha256': h, 'expected': o.sha, 'unchanged': ok,
                                                               'lines': [src.count('\n', 0, a[0]) + 1, src.count('\n', 0, b[1]) + 1]})
                self.log_rule('R7', relfile, src.count('\n', 0, a[0]) + 1, 'outlined region in %s (%s)' % (path, 'unchanged' if ok else 'CHANGED'))
                edits.append(Edit(a[0], b[1], o.text, ('inj', 'outline', o.src, 'outline')))
        # remove generic edits that fall inside replaced ranges
        drops = ctx.pop('_drop_ranges', [])
        if drops:
            ctx['_pending_drops'] = drops
        return edits

    def find_write_stmts(self, src, toks, lo, hi):
        """End offsets of the simple statements (`...;`) that perform a stream write, in source order."""
        res = []
        starts = [lo]
        for j in range(lo, hi):
            if toks[j].text in ('{', ';', '}'):
                starts.append(j + 1)
        for s_ in starts:
            if s_ >= hi:
                continue
            j = s_
            end = None
            has_block = False
            while j < hi:
                t = toks[j]
                if t.kind == 'open':
                    if t.text == '{':
                        has_block = True
                    j = match_close(toks, j) + 1
                    continue
                if t.kind == 'close':
                    break
                if t.text == ';':
                    end = t.end; break
                j += 1
            if end is None or has_block:
                continue
            text = src[toks[s_].start:end]
            if re.search(r'(\.write_[a-z0-9_]*|\.write|write_zeros|write_box_header_ext|write_null_terminated_str|\.write_box|::write_box|\.write_desc|\bwrite_desc)\s*(::<\w+>)?\s*\(', text):
                res.append(end)
        return sorted(set(res))

    def minimize_anchor(self, src, toks, lo, hi, anchor: str, nth: int):
        """Shortest prefix of the anchor (cut at a token boundary) that still selects the same statement with the same ordinal."""
        norm = lambda s: re.sub(r'\s+', ' ', s).strip()
        a = norm(anchor)
        starts = [lo]
        for j in range(lo, hi):
            if toks[j].text in ('{', ';', '}'):
                starts.append(j + 1)
        texts = []
        for s_ in starts:
            if s_ >= hi:
                continue
            e_ = min(hi, s_ + 40)
            texts.append(norm(src[toks[s_].start:toks[e_ - 1].end]))
        full = [i for i, t in enumerate(texts) if t.startswith(a)]
        if len(full) < nth:
            return None
        target = full[nth - 1]
        for L in range(6, len(a)):
            if (a[L - 1].isalnum() or a[L - 1] == '_') and (a[L].isalnum() or a[L] == '_'):
                continue
            pre = a[:L].rstrip()
            if len(pre) < 12:
                continue
            hit = [i for i, t in enumerate(texts) if t.startswith(pre)]
            if hit == full:
                return pre
        return a

    def find_anchor(self, src, toks, lo, hi, anchor: str, nth: int):
        """Locate the nth statement whose whitespace-normalised text starts with / contains the anchor.
        Returns (stmt_start_offset, stmt_end_offset)."""
        norm = lambda s: re.sub(r'\s+', ' ', s).strip()
        a = norm(anchor)
        # enumerate statement starts: tokens following `{`, `;` or `}` anywhere in the body
        count = 0
        k = lo
        starts = [lo]
        for j in range(lo, hi):
            if toks[j].text in ('{', ';', '}'):
                starts.append(j + 1)
        for s in starts:
            if s >= hi:
                continue
            # statement end: next `;` at depth 0 or closing of the enclosing block
            j = s
            end = None
            while j < hi:
                t = toks[j]
                if t.kind == 'open':
                    j = match_close(toks, j) + 1
                    # a block-like statement (if/while/for/match) ends at its closing brace
                    if t.text == '{' and (j >= hi or toks[j].text not in ('else', '.', '?', ';', ')', ',')):
                        end = toks[j - 1].end; break
                    continue
                if t.kind == 'close':
                    end = toks[j - 1].end if j > s else toks[j].start; break
                if t.text == ';':
                    end = t.end; break
                j += 1
            if end is None:
                end = toks[hi - 1].end
            text = norm(src[toks[s].start:end])
            if text.startswith(a):
                count += 1
                if count == nth:
                    return toks[s].start, end
        return None


def drop_subsumed(edits):
    """Remove edits that lie strictly inside the replaced range of a larger (replacement) edit."""
    big = [e for e in edits if e.end > e.start]
    res = []
    for e in edits:
        if any(b is not e and b.start <= e.start and e.end <= b.end and (b.end - b.start) > (e.end - e.start)
               and not (e.start == e.end and (e.start == b.start or e.start == b.end)) for b in big):
            continue
        res.append(e)
    return res


def main():
    import argparse
    ap = argparse.ArgumentParser()
    ap.add_argument('--repo', default='/repo')
    ap.add_argument('--out', required=True)
    ap.add_argument('--contracts', default=os.path.join(VERIF, 'contracts'))
    ap.add_argument('--prelude', default=os.path.join(VERIF, 'prelude'))
    ap.add_argument('--spec', default=os.path.join(VERIF, 'spec'))
    a = ap.parse_args()
    ex = Extractor(a.repo, a.contracts, a.prelude, a.spec)
    try:
        text = ex.run()
    except (ExtractError, ContractError, LexError, AssertionError) as e:
        print('EXTRACT-ERROR: %s' % e, file=sys.stderr)
        sys.exit(2)
    with open(a.out, 'w') as fh:
        fh.write(text)
    with open(a.out + '.map.json', 'w') as fh:
        json.dump(ex.out.srcmap(), fh)
    with open(a.out + '.report.json', 'w') as fh:
        json.dump(ex.report, fh, indent=1)
    print('extracted %d fns (%d external_body), %d dropped items, %d rule applications, %d unanchored'
          % (len(ex.report['fns']), len(ex.report['external_body']), len(ex.report['dropped']),
             len(ex.report['rules']), len(ex.report['unanchored'])))


if __name__ == '__main__':
    main()
