#!/usr/bin/env python3
"""Turn seed_test.py logs into the markdown table of DESIGN.md 9.8:  seed_matrix.py <log>..."""
import sys, re, json, os
VERIF = os.path.dirname(os.path.dirname(os.path.abspath(__file__)))
rows = {}
for f in sys.argv[1:]:
    cur = None
    for l in open(f):
        m = re.match(r'^(C\d\d-\w+)\s+(CAUGHT|UNDECIDED|MISSED|APPLY-FAILED)\s*(?:alarms=(\S*))?\s*(?:undecided=(\S*))?', l)
        if m:
            cur = m.group(1)
            rows[cur] = {'verdict': m.group(2), 'alarms': m.group(3) or '', 'undecided': m.group(4) or '', 'first': ''}
        elif cur and l.startswith('           C') and not rows[cur]['first']:
            rows[cur]['first'] = l.strip().split(' ', 1)[1][:90]
        elif cur and 'UNDECIDED property=' in l and not rows[cur]['first']:
            rows[cur]['first'] = re.sub(r"^\W*UNDECIDED property=C\d\d ", '', l.strip())[:110].rstrip("']")
print('| seed | what it changes | verdict | alarms | first failing obligation / reason |')
print('|---|---|---|---|---|')
for sid in sorted(rows):
    r = rows[sid]
    try:
        t = json.load(open(os.path.join(VERIF, 'seeded', sid, 'meta.json')))['title']
        t = re.sub(r'^C\d\d-\w+\s*[:(-]*\s*', '', t)[:95].replace('|', '/')
    except Exception:
        t = ''
    print('| %s | %s | %s | %s | %s |' % (sid, t, r['verdict'], r['alarms'].replace(',', ' ') or '-', r['first'].replace('|', '/')))
c = {}
for r in rows.values():
    c[r['verdict']] = c.get(r['verdict'], 0) + 1
print('\nTotals: ' + ', '.join('%s %d' % kv for kv in sorted(c.items())) + ' of %d' % len(rows))
