// PRELUDE (trusted base): assumed specifications of std functions the crate calls and vstd does not cover.

/// UTF-8 encoding of a string (uninterpreted: the crate never inspects it through Verus)
pub uninterp spec fn utf8(s: Seq<char>) -> Seq<u8>;

pub assume_specification[ String::as_bytes ](s: &String) -> (r: &[u8])
    ensures r@ == utf8(s@);

pub assume_specification[ String::len ](s: &String) -> (r: usize)
    ensures r == utf8(s@).len();

pub assume_specification<T: Clone>[ <T as std::borrow::ToOwned>::to_owned ](x: &T) -> (r: T)
    ensures cloned(*x, r);

pub assume_specification<T: Clone>[ <[T]>::to_vec ](s: &[T]) -> (r: Vec<T>)
    ensures r@.len() == s@.len(), forall|i: int| 0 <= i < s@.len() ==> cloned(#[trigger] s@[i], r@[i]);

pub assume_specification<T, A: core::alloc::Allocator>[ <Vec<T, A> as core::convert::AsRef<[T]>>::as_ref ](v: &Vec<T, A>) -> (r: &[T])
    ensures r@ == v@;

pub open spec fn sorted_strict<T: Ord>(s: Seq<T>) -> bool {
    forall|i: int, j: int| 0 <= i < j < s.len() ==> #[trigger] s[i].cmp_spec(&s[j]) == core::cmp::Ordering::Less
}

/// core::slice::binary_search: Ok(i) => s[i] == x; on a strictly sorted slice Ok <=> present.
pub assume_specification<T: Ord>[ <[T]>::binary_search ](s: &[T], x: &T) -> (r: core::result::Result<usize, usize>)
    ensures
        r matches Ok(i) ==> i < s@.len() && s@[i as int].cmp_spec(x) == core::cmp::Ordering::Equal,
        r matches Err(i) ==> i <= s@.len(),
        T::obeys_cmp_spec() && sorted_strict(s@) ==> (r is Ok <==> exists|k: int| 0 <= k < s@.len() && (#[trigger] s@[k]).cmp_spec(x) == core::cmp::Ordering::Equal);


// ---- UTF-16 (used by the ISO-639 language packing of mdhd)
/// UTF-16 code units of a string (uninterpreted except for the ASCII axiom below)
pub uninterp spec fn utf16_units(s: Seq<char>) -> Seq<u16>;
/// remaining units of a `str::encode_utf16` iterator
pub uninterp spec fn enc_rest(it: core::str::EncodeUtf16<'_>) -> Seq<u16>;

#[verifier::external_type_specification]
#[verifier::external_body]
pub struct ExEncodeUtf16<'a>(core::str::EncodeUtf16<'a>);

pub assume_specification<'a>[ str::encode_utf16 ](s: &'a str) -> (r: core::str::EncodeUtf16<'a>)
    ensures enc_rest(r) == utf16_units(s@);

pub assume_specification<'a>[ <core::str::EncodeUtf16<'a> as Iterator>::next ](it: &mut core::str::EncodeUtf16<'a>) -> (r: Option<u16>)
    ensures
        enc_rest(*old(it)).len() == 0 ==> r is None && enc_rest(*final(it)) == enc_rest(*old(it)),
        enc_rest(*old(it)).len() > 0 ==> r == Some(enc_rest(*old(it))[0]) && enc_rest(*final(it)) == enc_rest(*old(it)).skip(1);

/// ASSUMED fact about UTF-16: every character below U+0080 is one unit equal to its scalar value
#[verifier::external_body]
pub proof fn axiom_utf16_ascii(s: Seq<char>)
    requires forall|i: int| 0 <= i < s.len() ==> (#[trigger] s[i] as u32) < 0x80
    ensures utf16_units(s).len() == s.len(), forall|i: int| 0 <= i < s.len() ==> #[trigger] utf16_units(s)[i] == s[i] as u16
{}

// ---- lossy UTF-8 decoding / decimal parsing (metadata accessors)
pub uninterp spec fn is_utf8(b: Seq<u8>) -> bool;
pub uninterp spec fn cow_str_view(c: std::borrow::Cow<'_, str>) -> Seq<char>;

/// String::from_utf8_lossy: valid UTF-8 decodes to the string whose UTF-8 form is the input (invalid input: unspecified)
pub assume_specification<'a>[ String::from_utf8_lossy ](v: &'a [u8]) -> (r: std::borrow::Cow<'a, str>)
    ensures is_utf8(v@) ==> utf8(cow_str_view(r)) == v@;

/// byteorder `BigEndian::read_u32(buf)` on a slice: panics unless 4 bytes are present
impl BigEndian {
    #[verifier::external_body]
    pub fn read_u32(buf: &[u8]) -> (r: u32)
        requires buf@.len() >= 4
        ensures r == be32(buf@, 0)
    { unimplemented!() }
}

/// value of an unsigned decimal literal as Rust's `u32::from_str` accepts it: optional '+', at least one ASCII digit, no overflow
pub open spec fn dec_value(b: Seq<u8>, n: int) -> int
    decreases n
{
    if n <= 0 { 0 } else { dec_value(b, n - 1) * 10 + (b[n - 1] - 0x30) }
}
pub open spec fn all_digits(b: Seq<u8>) -> bool { forall|i: int| 0 <= i < b.len() ==> 0x30 <= #[trigger] b[i] <= 0x39 }
pub open spec fn decimal_u32(b: Seq<u8>) -> Option<u32> {
    let digits = if b.len() > 0 && b[0] == 0x2b { b.skip(1) } else { b };
    if digits.len() == 0 || !all_digits(digits) || dec_value(digits, digits.len() as int) > 0xffff_ffff { None }
    else { Some(dec_value(digits, digits.len() as int) as u32) }
}

/// ASSUMED link between this prelude's `utf8` and vstd's `str::spec_bytes`: both denote the UTF-8 encoding of the string
#[verifier::external_body]
pub proof fn axiom_utf8_spec_bytes(s: &str)
    ensures s.spec_bytes() == utf8(s@)
{}

/// population count (only its range is stated; the value is an uninterpreted function of the argument)
pub uninterp spec fn popcount32(x: u32) -> u32;
pub assume_specification[ u32::count_ones ](x: u32) -> (r: u32)
    ensures r == popcount32(x), r <= 32;

/// `Chars::count`: nothing is stated about the value (the crate has no business counting characters where bytes are meant)
pub assume_specification<'a>[ <core::str::Chars<'a> as Iterator>::count ](it: core::str::Chars<'a>) -> (r: usize);
