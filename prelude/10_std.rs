// PRELUDE (trusted base): assumed specifications of std functions the crate calls and vstd does not cover.

/// UTF-8 encoding of a string (uninterpreted: the crate never inspects it through Verus)
pub uninterp spec fn utf8(s: Seq<char>) -> Seq<u8>;

pub assume_specification[ String::as_bytes ](s: &String) -> (r: &[u8])
    ensures r@ == utf8(s@);

pub assume_specification[ String::len ](s: &String) -> (r: usize)
    ensures r == utf8(s@).len();

pub assume_specification<T: Clone>[ <T as std::borrow::ToOwned>::to_owned ](x: &T) -> (r: T)
    ensures cloned(*x, r);

pub assume_specification<T: Clone>[ <[T]>::to_vec ](s: &[T]) -> (r: Vec<T>)
    ensures r@.len() == s@.len(), forall|i: int| 0 <= i < s@.len() ==> cloned(#[trigger] s@[i], r@[i]);

pub assume_specification<T, A: core::alloc::Allocator>[ <Vec<T, A> as core::convert::AsRef<[T]>>::as_ref ](v: &Vec<T, A>) -> (r: &[T])
    ensures r@ == v@;

pub open spec fn sorted_strict<T: Ord>(s: Seq<T>) -> bool {
    forall|i: int, j: int| 0 <= i < j < s.len() ==> #[trigger] s[i].cmp_spec(&s[j]) == core::cmp::Ordering::Less
}

/// core::slice::binary_search: Ok(i) => s[i] == x; on a strictly sorted slice Ok <=> present.
pub assume_specification<T: Ord>[ <[T]>::binary_search ](s: &[T], x: &T) -> (r: core::result::Result<usize, usize>)
    ensures
        r matches Ok(i) ==> i < s@.len() && s@[i as int].cmp_spec(x) == core::cmp::Ordering::Equal,
        r matches Err(i) ==> i <= s@.len(),
        T::obeys_cmp_spec() && sorted_strict(s@) ==> (r is Ok <==> exists|k: int| 0 <= k < s@.len() && (#[trigger] s@[k]).cmp_spec(x) == core::cmp::Ordering::Equal);

