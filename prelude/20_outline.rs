// PRELUDE (trusted base): helpers standing for the statement ranges outlined by rule R7.
// Their bodies are the ranges of src/reader.rs named in contracts/reader.vpc (iterator adapters, HashMap::get_mut),
// which Verus cannot take; the contracts below are ASSUMED, and are listed in every evidence file.

pub open spec fn tracks_of_moov(moov: MoovBox, tracks: Map<u32, Mp4Track>) -> bool {
    forall|id: u32| #[trigger] tracks.dom().contains(id) ==> id != 0 && exists|i: int| 0 <= i < moov.traks@.len()
            && #[trigger] moov.traks@[i].tkhd.track_id == id && tracks[id].trak == moov.traks@[i]
            && tracks[id].trafs@.len() == 0 && tracks[id].moof_offsets@.len() == 0
}

/// reader.rs `let mut tracks = if let Some(ref moov) = moov { ... }` (read_header)
#[verifier::external_body]
pub fn outlined_tracks_init(moov: &Option<MoovBox>) -> (r: Result<HashMap<u32, Mp4Track>>)
    ensures
        r matches Err(e) ==> !(e is IoError),
        r matches Ok(t) ==> (moov matches Some(m) ==> tracks_of_moov(*m, t@)),
        r matches Ok(t) ==> (moov is None ==> t@.dom() == Set::<u32>::empty()),
{ unimplemented!() }

/// reader.rs `self.moov.traks.iter().map(..).collect()` (read_fragment_header)
#[verifier::external_body]
pub fn outlined_tracks_init_frag(moov: &MoovBox) -> (r: HashMap<u32, Mp4Track>)
    ensures tracks_of_moov(*moov, r@),
{ unimplemented!() }

/// reader.rs `for (moof, moof_offset) in moofs.iter().zip(moof_offsets) { for traf in moof.trafs.iter() { .. } }`:
/// every traf is cloned onto the track named by its tfhd together with the offset of its moof, in file order
#[verifier::external_body]
pub fn outlined_attach_fragments(tracks: &mut HashMap<u32, Mp4Track>, default_sample_duration: u32,
                                 moofs: &Vec<MoofBox>, moof_offsets: Vec<u64>) -> (r: Result<()>)
    ensures
        r matches Err(e) ==> !(e is IoError),
        final(tracks)@.dom() == old(tracks)@.dom(),
        forall|id: u32| #[trigger] final(tracks)@.dom().contains(id) ==> final(tracks)@[id].trak == old(tracks)@[id].trak
            && (old(tracks)@[id].trafs@.len() == old(tracks)@[id].moof_offsets@.len()
                    ==> final(tracks)@[id].trafs@.len() == final(tracks)@[id].moof_offsets@.len())
            && (moofs_parsed(moofs@) && trafs_parsed(old(tracks)@[id].trafs@) ==> trafs_parsed(final(tracks)@[id].trafs@))
            && (final(tracks)@[id].trafs@.len() > old(tracks)@[id].trafs@.len() ==> final(tracks)@[id].default_sample_duration == default_sample_duration)
            && (final(tracks)@[id].trafs@.len() == old(tracks)@[id].trafs@.len() ==> final(tracks)@[id].default_sample_duration == old(tracks)@[id].default_sample_duration),
{ unimplemented!() }

/// mdhd.rs `decode_utf16(lang.iter().cloned()).map(|r| r.unwrap_or(REPLACEMENT_CHARACTER)).collect::<String>()`:
/// ASSUMED: three units below 0x80 decode to the three ASCII characters with those values
#[verifier::external_body]
pub fn outlined_decode_utf16_3(lang: &[u16; 3]) -> (r: String)
    ensures lang[0] < 0x80 && lang[1] < 0x80 && lang[2] < 0x80 ==> r@ == seq![ascii_char(lang[0]), ascii_char(lang[1]), ascii_char(lang[2])]
{ unimplemented!() }

/// hdlr.rs / dinf.rs `if let Some(end) = buf.iter().position(|&b| b == b'\0') { buf.truncate(end); }
/// let s = String::from_utf8(buf).unwrap_or_default();`  -- ASSUMED: the string's UTF-8 form is a prefix of the buffer
/// (the bytes before the first NUL) or empty
#[verifier::external_body]
pub fn outlined_cstring_lossy(buf: Vec<u8>) -> (r: String)
    ensures utf8(r@).len() <= buf@.len(),
            utf8(r@).len() > 0 ==> utf8(r@) == buf@.subrange(0, utf8(r@).len() as int),
{ unimplemented!() }

/// ilst.rs `String::from_utf8_lossy(&item.data.data).parse::<u32>().ok()` -- ASSUMED (lossy decoding never produces an ASCII
/// digit or '+' from an invalid sequence, so the result is the decimal value of the bytes); Kani checks it for short inputs
#[verifier::external_body]
pub fn outlined_parse_u32_lossy(data: &Vec<u8>) -> (r: Option<u32>)
    ensures r == decimal_u32(data@)
{ unimplemented!() }

/// dinf.rs `self.location.bytes().len()` -- ASSUMED: the number of bytes of the UTF-8 form
#[verifier::external_body]
pub fn outlined_str_bytes_len(s: &String) -> (r: usize)
    ensures r == utf8(s@).len()
{ unimplemented!() }

/// hev1.rs `u8::from(flag)` -- ASSUMED (core's `impl From<bool> for u8`): false -> 0, true -> 1
#[verifier::external_body]
pub fn outlined_u8_from_bool(b: bool) -> (r: u8)
    ensures r == (if b { 1u8 } else { 0u8 }),
{ unimplemented!() }
