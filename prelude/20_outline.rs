// PRELUDE (trusted base): helpers standing for the statement ranges outlined by rule R7.
// Their bodies are the ranges of src/reader.rs named in contracts/reader.vpc (iterator adapters, HashMap::get_mut),
// which Verus cannot take; the contracts below are ASSUMED, and are listed in every evidence file.

pub open spec fn tracks_of_moov(moov: MoovBox, tracks: Map<u32, Mp4Track>) -> bool {
    forall|id: u32| #[trigger] tracks.dom().contains(id) ==> id != 0 && exists|i: int| 0 <= i < moov.traks@.len()
            && #[trigger] moov.traks@[i].tkhd.track_id == id && tracks[id].trak == moov.traks@[i]
            && tracks[id].trafs@.len() == 0 && tracks[id].moof_offsets@.len() == 0
}

/// reader.rs `let mut tracks = if let Some(ref moov) = moov { ... }` (read_header)
#[verifier::external_body]
pub fn outlined_tracks_init(moov: &Option<MoovBox>) -> (r: Result<HashMap<u32, Mp4Track>>)
    ensures
        r matches Err(e) ==> !(e is IoError),
        r matches Ok(t) ==> (moov matches Some(m) ==> tracks_of_moov(*m, t@)),
        r matches Ok(t) ==> (moov is None ==> t@.dom() == Set::<u32>::empty()),
{ unimplemented!() }

/// reader.rs `self.moov.traks.iter().map(..).collect()` (read_fragment_header)
#[verifier::external_body]
pub fn outlined_tracks_init_frag(moov: &MoovBox) -> (r: HashMap<u32, Mp4Track>)
    ensures tracks_of_moov(*moov, r@),
{ unimplemented!() }

/// reader.rs `for (moof, moof_offset) in moofs.iter().zip(moof_offsets) { for traf in moof.trafs.iter() { .. } }`:
/// every traf is cloned onto the track named by its tfhd together with the offset of its moof, in file order
#[verifier::external_body]
pub fn outlined_attach_fragments(tracks: &mut HashMap<u32, Mp4Track>, default_sample_duration: u32,
                                 moofs: &Vec<MoofBox>, moof_offsets: Vec<u64>) -> (r: Result<()>)
    ensures
        r matches Err(e) ==> !(e is IoError),
        final(tracks)@.dom() == old(tracks)@.dom(),
        forall|id: u32| #[trigger] final(tracks)@.dom().contains(id) ==> final(tracks)@[id].trak == old(tracks)@[id].trak
            && (old(tracks)@[id].trafs@.len() == old(tracks)@[id].moof_offsets@.len()
                    ==> final(tracks)@[id].trafs@.len() == final(tracks)@[id].moof_offsets@.len())
            && (moofs_parsed(moofs@) && trafs_parsed(old(tracks)@[id].trafs@) ==> trafs_parsed(final(tracks)@[id].trafs@)),
{ unimplemented!() }

/// mdhd.rs `decode_utf16(lang.iter().cloned()).map(|r| r.unwrap_or(REPLACEMENT_CHARACTER)).collect::<String>()`:
/// ASSUMED: three units below 0x80 decode to the three ASCII characters with those values
#[verifier::external_body]
pub fn outlined_decode_utf16_3(lang: &[u16; 3]) -> (r: String)
    ensures lang[0] < 0x80 && lang[1] < 0x80 && lang[2] < 0x80 ==> r@ == seq![ascii_char(lang[0]), ascii_char(lang[1]), ascii_char(lang[2])]
{ unimplemented!() }
