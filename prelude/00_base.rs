// PRELUDE (trusted base): assumed contracts on the crate's *dependencies* -- std::io, byteorder,
// bytes, num_rational, std::time::Duration, thiserror's generated `From<io::Error>`.
// Nothing in this directory is repository code.  See DESIGN.md section 2.2.

/// used only by the vacuity probe (tool/vacuity.py): an unprovable fact, distinct per probed function
pub uninterp spec fn vacuity_probe(k: int) -> bool;

// 64-bit target (the sandbox and every supported deployment of the crate's test-suite): usize is 8 bytes
global size_of usize == 8;

// ---------------------------------------------------------------- errors (src/error.rs is re-declared;
// the extractor compares the variant list with /repo/src/error.rs on every run)
pub struct IoErr { pub kind: u8 }

pub enum Error {
    IoError(IoErr),
    InvalidData(&'static str),
    BoxNotFound(BoxType),
    Box2NotFound(BoxType, BoxType),
    TrakNotFound(u32),
    BoxInTrakNotFound(u32, BoxType),
    BoxInTrafNotFound(u32, BoxType),
    BoxInStblNotFound(u32, BoxType),
    EntryInStblNotFound(u32, BoxType, u32),
    EntryInTrunNotFound(u32, BoxType, u32),
    UnsupportedBoxVersion(BoxType, u8),
}

pub type Result<T> = core::result::Result<T, Error>;

// ---------------------------------------------------------------- ghost stream model
pub trait Stream {
    /// current content of the underlying byte container
    spec fn data(&self) -> Seq<u8>;
    /// cursor
    spec fn pos(&self) -> u64;
    /// some call on this stream has returned Err
    spec fn failed(&self) -> bool;
    /// number of stream calls so far
    spec fn ops(&self) -> nat;
}

pub struct BigEndian;

pub enum SeekFrom {
    Start(u64),
    End(i64),
    Current(i64),
}

/// what every stream call guarantees, whatever it is
pub open spec fn io_step<S: Stream>(o: &S, n: &S) -> bool {
    n.ops() == o.ops() + 1
}

/// a read-side call: never changes the content
pub open spec fn rd_ok<S: Stream>(o: &S, n: &S, k: int) -> bool {
    &&& !n.failed()
    &&& n.data() == o.data()
    &&& o.pos() + k <= o.data().len()
    &&& n.pos() == o.pos() + k
}

pub open spec fn rd_err<S: Stream>(o: &S, n: &S, e: Error) -> bool {
    &&& n.failed()
    &&& n.data() == o.data()
    &&& e is IoError
}

pub open spec fn rd_post<S: Stream, T>(o: &S, n: &S, r: Result<T>, k: int) -> bool {
    &&& io_step(o, n)
    &&& n.data() == o.data()
    &&& match r { Ok(_) => rd_ok(o, n, k), Err(e) => rd_err(o, n, e) }
}

pub trait Read: Stream + Sized {
    /// POSIX-style short read: weak contract on purpose (the library must not rely on it)
    fn read(&mut self, buf: &mut [u8]) -> (r: Result<usize>)
        requires !old(self).failed(),
        ensures
            io_step(old(self), final(self)),
            final(self).data() == old(self).data(),
            final(buf)@.len() == old(buf)@.len(),
            match r {
                Ok(n) => !final(self).failed() && n <= old(buf)@.len()
                    && old(self).pos() + n <= old(self).data().len()
                    && final(self).pos() == old(self).pos() + n
                    && final(buf)@.subrange(0, n as int) == old(self).data().subrange(old(self).pos() as int, old(self).pos() + n),
                Err(e) => final(self).failed() && e is IoError,
            };

    fn read_exact(&mut self, buf: &mut [u8]) -> (r: Result<()>)
        requires !old(self).failed(),
        ensures
            rd_post(old(self), final(self), r, old(buf)@.len() as int),
            final(buf)@.len() == old(buf)@.len(),
            r is Ok ==> final(buf)@ == old(self).data().subrange(old(self).pos() as int, old(self).pos() + old(buf)@.len());

    fn read_u8(&mut self) -> (r: Result<u8>)
        requires !old(self).failed(),
        ensures rd_post(old(self), final(self), r, 1),
            r matches Ok(v) ==> v == old(self).data()[old(self).pos() as int];

    fn read_i8(&mut self) -> (r: Result<i8>)
        requires !old(self).failed(),
        ensures rd_post(old(self), final(self), r, 1),
            r matches Ok(v) ==> v == old(self).data()[old(self).pos() as int] as i8;

    fn read_u16<B>(&mut self) -> (r: Result<u16>)
        requires !old(self).failed(),
        ensures rd_post(old(self), final(self), r, 2),
            r matches Ok(v) ==> v == be16(old(self).data(), old(self).pos() as int);

    fn read_i16<B>(&mut self) -> (r: Result<i16>)
        requires !old(self).failed(),
        ensures rd_post(old(self), final(self), r, 2),
            r matches Ok(v) ==> v == be16(old(self).data(), old(self).pos() as int) as i16;

    fn read_u24<B>(&mut self) -> (r: Result<u32>)
        requires !old(self).failed(),
        ensures rd_post(old(self), final(self), r, 3),
            r matches Ok(v) ==> v == be24(old(self).data(), old(self).pos() as int) && v < 0x1000000;

    fn read_u32<B>(&mut self) -> (r: Result<u32>)
        requires !old(self).failed(),
        ensures rd_post(old(self), final(self), r, 4),
            r matches Ok(v) ==> v == be32(old(self).data(), old(self).pos() as int);

    fn read_i32<B>(&mut self) -> (r: Result<i32>)
        requires !old(self).failed(),
        ensures rd_post(old(self), final(self), r, 4),
            r matches Ok(v) ==> v == be32(old(self).data(), old(self).pos() as int) as i32;

    fn read_u48<B>(&mut self) -> (r: Result<u64>)
        requires !old(self).failed(),
        ensures rd_post(old(self), final(self), r, 6),
            r matches Ok(v) ==> v == be48(old(self).data(), old(self).pos() as int) && v < 0x1000000000000;

    fn read_u64<B>(&mut self) -> (r: Result<u64>)
        requires !old(self).failed(),
        ensures rd_post(old(self), final(self), r, 8),
            r matches Ok(v) ==> v == be64(old(self).data(), old(self).pos() as int);
}

pub trait Seek: Stream + Sized {
    /// std::io::Cursor / File semantics: seeking past the end is allowed, before 0 is an error
    fn seek(&mut self, to: SeekFrom) -> (r: Result<u64>)
        requires !old(self).failed(),
        ensures
            io_step(old(self), final(self)),
            final(self).data() == old(self).data(),
            match r {
                Ok(p) => !final(self).failed() && final(self).pos() == p && match to {
                    SeekFrom::Start(q) => p == q,
                    SeekFrom::Current(d) => p == old(self).pos() + d,
                    SeekFrom::End(d) => p == old(self).data().len() + d,
                },
                Err(e) => final(self).failed() && e is IoError,
            };

    fn stream_position(&mut self) -> (r: Result<u64>)
        requires !old(self).failed(),
        ensures
            io_step(old(self), final(self)),
            final(self).data() == old(self).data(),
            final(self).pos() == old(self).pos(),
            match r {
                Ok(p) => !final(self).failed() && p == old(self).pos(),
                Err(e) => final(self).failed() && e is IoError,
            };
}

/// a write-side call that transfers all of `bytes` or fails
pub open spec fn wr_post<S: Stream, T>(o: &S, n: &S, r: Result<T>, bytes: Seq<u8>) -> bool {
    &&& io_step(o, n)
    &&& match r {
            Ok(_) => !n.failed() && n.data() == wr(o.data(), o.pos() as int, bytes)
                     && n.pos() == o.pos() + bytes.len(),
            Err(e) => n.failed() && e is IoError,
        }
}

pub trait Write: Stream + Sized {
    /// POSIX-style short write: weak contract on purpose
    fn write(&mut self, buf: &[u8]) -> (r: Result<usize>)
        requires !old(self).failed(),
        ensures
            io_step(old(self), final(self)),
            match r {
                Ok(n) => !final(self).failed() && n <= buf@.len()
                    && final(self).data() == wr(old(self).data(), old(self).pos() as int, buf@.subrange(0, n as int))
                    && final(self).pos() == old(self).pos() + n,
                Err(e) => final(self).failed() && e is IoError,
            };

    fn write_all(&mut self, buf: &[u8]) -> (r: Result<()>)
        requires !old(self).failed(),
        ensures wr_post(old(self), final(self), r, buf@);

    fn write_u8(&mut self, v: u8) -> (r: Result<()>)
        requires !old(self).failed(),
        ensures wr_post(old(self), final(self), r, seq![v]);

    fn write_i8(&mut self, v: i8) -> (r: Result<()>)
        requires !old(self).failed(),
        ensures wr_post(old(self), final(self), r, seq![v as u8]);

    fn write_u16<B>(&mut self, v: u16) -> (r: Result<()>)
        requires !old(self).failed(),
        ensures wr_post(old(self), final(self), r, be_bytes(v as nat, 2));

    fn write_i16<B>(&mut self, v: i16) -> (r: Result<()>)
        requires !old(self).failed(),
        ensures wr_post(old(self), final(self), r, be_bytes((v as u16) as nat, 2));

    /// byteorder asserts that the value fits and panics otherwise
    fn write_u24<B>(&mut self, v: u32) -> (r: Result<()>)
        requires !old(self).failed(), v < 0x1000000,
        ensures wr_post(old(self), final(self), r, be_bytes(v as nat, 3));

    fn write_u32<B>(&mut self, v: u32) -> (r: Result<()>)
        requires !old(self).failed(),
        ensures wr_post(old(self), final(self), r, be_bytes(v as nat, 4));

    fn write_i32<B>(&mut self, v: i32) -> (r: Result<()>)
        requires !old(self).failed(),
        ensures wr_post(old(self), final(self), r, be_bytes((v as u32) as nat, 4));

    /// byteorder asserts that the value fits and panics otherwise
    fn write_u48<B>(&mut self, v: u64) -> (r: Result<()>)
        requires !old(self).failed(), v < 0x1000000000000,
        ensures wr_post(old(self), final(self), r, be_bytes(v as nat, 6));

    fn write_u64<B>(&mut self, v: u64) -> (r: Result<()>)
        requires !old(self).failed(),
        ensures wr_post(old(self), final(self), r, be_bytes(v as nat, 8));
}

// ---------------------------------------------------------------- bytes::{Bytes, BytesMut}
#[verifier::external_body]
#[verifier::accept_recursive_types(T)]
pub struct Opaque<T> { _p: core::marker::PhantomData<T> }

#[verifier::external_body]
pub struct Bytes { inner: Vec<u8> }

impl View for Bytes {
    type V = Seq<u8>;
    uninterp spec fn view(&self) -> Seq<u8>;
}

impl Bytes {
    #[verifier::external_body]
    pub fn from(v: Vec<u8>) -> (r: Bytes)
        ensures r@ == v@
    { unimplemented!() }

    #[verifier::external_body]
    pub fn len(&self) -> (r: usize)
        ensures r == self@.len()
    { unimplemented!() }

    #[verifier::external_body]
    pub fn as_slice(&self) -> (r: &[u8])
        ensures r@ == self@
    { unimplemented!() }

    #[verifier::external_body]
    pub fn is_empty(&self) -> (r: bool)
        ensures r == (self@.len() == 0)
    { unimplemented!() }
}

impl Clone for Bytes {
    #[verifier::external_body]
    fn clone(&self) -> (r: Bytes)
        ensures r@ == self@
    { unimplemented!() }
}

#[verifier::external_body]
pub struct BytesMut { inner: Vec<u8> }

impl View for BytesMut {
    type V = Seq<u8>;
    uninterp spec fn view(&self) -> Seq<u8>;
}

impl BytesMut {
    #[verifier::external_body]
    pub fn new() -> (r: BytesMut)
        ensures r@ == Seq::<u8>::empty()
    { unimplemented!() }

    #[verifier::external_body]
    pub fn len(&self) -> (r: usize)
        ensures r == self@.len()
    { unimplemented!() }

    #[verifier::external_body]
    pub fn is_empty(&self) -> (r: bool)
        ensures r == (self@.len() == 0)
    { unimplemented!() }

    #[verifier::external_body]
    pub fn clear(&mut self)
        ensures final(self)@ == Seq::<u8>::empty()
    { unimplemented!() }

    /// BytesMut::extend_from_slice panics only on capacity overflow (len > isize::MAX)
    #[verifier::external_body]
    pub fn extend_from_slice(&mut self, s: &[u8])
        ensures final(self)@ == old(self)@ + s@
    { unimplemented!() }

    #[verifier::external_body]
    pub fn as_slice(&self) -> (r: &[u8])
        ensures r@ == self@
    { unimplemented!() }
}

impl Default for BytesMut {
    #[verifier::external_body]
    fn default() -> (r: BytesMut)
        ensures r@ == Seq::<u8>::empty()
    { unimplemented!() }
}

// ---------------------------------------------------------------- std::time::Duration
pub struct Duration { pub micros: u128 }

impl Duration {
    #[verifier::external_body]
    pub fn from_millis(ms: u64) -> (r: Duration)
        ensures r.micros == ms as u128 * 1000
    { unimplemented!() }

    #[verifier::external_body]
    pub fn from_micros(us: u64) -> (r: Duration)
        ensures r.micros == us as u128
    { unimplemented!() }

    #[verifier::external_body]
    pub fn is_zero(&self) -> (r: bool)
        ensures r == (self.micros == 0)
    { unimplemented!() }
}

// ---------------------------------------------------------------- std::cmp, std::mem
pub mod cmp {
    use super::*;
    pub fn max(a: u32, b: u32) -> (r: u32)
        ensures r == (if a >= b { a } else { b })
    { if a >= b { a } else { b } }
    pub fn min(a: u32, b: u32) -> (r: u32)
        ensures r == (if a <= b { a } else { b })
    { if a <= b { a } else { b } }
}

pub open spec fn spec_size_of_u32() -> usize { 4 }

impl core::ops::Deref for Bytes {
    type Target = [u8];
    #[verifier::external_body]
    fn deref(&self) -> (r: &[u8])
        ensures r@ == self@
    { unimplemented!() }
}

impl core::ops::Deref for BytesMut {
    type Target = [u8];
    #[verifier::external_body]
    fn deref(&self) -> (r: &[u8])
        ensures r@ == self@
    { unimplemented!() }
}

// ---------------------------------------------------------------- num_rational::Ratio (0.4): new_raw stores, to_integer truncates
#[derive(Clone, Copy, PartialEq, Eq)]
pub struct Ratio<T> { pub numer: T, pub denom: T }

impl<T> Ratio<T> {
    pub fn new_raw(numer: T, denom: T) -> (r: Ratio<T>)
        ensures r.numer == numer, r.denom == denom
    { Ratio { numer, denom } }

    pub fn numer(&self) -> (r: &T)
        ensures *r == self.numer
    { &self.numer }
}

impl Ratio<u16> {
    pub fn to_integer(&self) -> (r: u16)
        requires self.denom != 0
        ensures r == self.numer / self.denom
    { self.numer / self.denom }
}

impl Ratio<u32> {
    pub fn to_integer(&self) -> (r: u32)
        requires self.denom != 0
        ensures r == self.numer / self.denom
    { self.numer / self.denom }
}

impl Ratio<i16> {
    /// Rust integer division truncates toward zero
    #[verifier::external_body]
    pub fn to_integer(&self) -> (r: i16)
        requires self.denom > 0
        ensures r == (if self.numer >= 0 { self.numer as int / self.denom as int } else { -((-(self.numer as int)) / self.denom as int) })
    { self.numer / self.denom }
}
