//! Kani harnesses appended (as `#[cfg(kani)] mod verif_kani;`) to a scratch copy of the crate -- never to /repo.
//! Loop-free harnesses over the full symbolic domain of their inputs are complete proofs on the real compiled code;
//! harnesses marked BOUNDED in /verif/kani/harnesses.json carry an explicit bound and are never counted as proofs.
#![allow(unused_imports, dead_code)]
use crate::mp4box::*;
use crate::*;
use std::convert::TryFrom;
use std::convert::TryInto;
use std::io::{Cursor, Write};

// ---------------------------------------------------------------- four-character codes (C16)
/// independent table of the registered codes (from their ASCII spelling)
const CODES: [(&[u8; 4], u32); 8] = [
    (b"ftyp", 0x66747970), (b"moov", 0x6d6f6f76), (b"mdat", 0x6d646174), (b"stsz", 0x7374737a),
    (b"co64", 0x636f3634), (b"url ", 0x75726c20), (b"avcC", 0x61766343), (b"wide", 0x77696465),
];

#[kani::proof]
fn boxtype_u32_roundtrip_all_codes() {
    let t: u32 = kani::any();
    let b = BoxType::from(t);
    let back: u32 = b.into();
    assert!(back == t);
    // and the enumeration -> code -> enumeration direction on the image
    let again = BoxType::from(back);
    assert!(again == b);
}

#[kani::proof]
fn boxtype_registered_codes() {
    assert!(BoxType::from(0x66747970) == BoxType::FtypBox);
    assert!(BoxType::from(0x6d6f6f76) == BoxType::MoovBox);
    assert!(BoxType::from(0x6d646174) == BoxType::MdatBox);
    assert!(BoxType::from(0x6d766578) == BoxType::MvexBox);
    assert!(BoxType::from(0x6d646961) == BoxType::MdiaBox);
    assert!(BoxType::from(0x7374737a) == BoxType::StszBox);
    assert!(BoxType::from(0x7374636f) == BoxType::StcoBox);
    assert!(BoxType::from(0x636f3634) == BoxType::Co64Box);
    assert!(BoxType::from(0x75726c20) == BoxType::UrlBox);
    assert!(BoxType::from(0x61766343) == BoxType::AvcCBox);
    assert!(BoxType::from(0x68766343) == BoxType::HvcCBox);
    assert!(BoxType::from(0x76706343) == BoxType::VpccBox);
    assert!(BoxType::from(0xa96e616d) == BoxType::NameBox);
    assert!(BoxType::from(0xa9646179) == BoxType::DayBox);
    assert!(BoxType::from(0x77696465) == BoxType::WideBox);
    assert!(u32::from(BoxType::TrunBox) == 0x7472756e);
    assert!(u32::from(BoxType::EsdsBox) == 0x65736473);
}

#[kani::proof]
fn fourcc_u32_all_codes() {
    let v: u32 = kani::any();
    let f = FourCC::from(v);
    // the four characters are the big-endian bytes of the code
    assert!(f.value[0] == (v >> 24) as u8 && f.value[1] == (v >> 16) as u8 && f.value[2] == (v >> 8) as u8 && f.value[3] == v as u8);
    let back: u32 = (&f).into();
    assert!(back == v);
    let back2: u32 = f.into();
    assert!(back2 == v);
    let bytes: [u8; 4] = kani::any();
    let g = FourCC::from(bytes);
    assert!(g.value == bytes);
    let c: u32 = (&g).into();
    assert!(c == ((bytes[0] as u32) << 24 | (bytes[1] as u32) << 16 | (bytes[2] as u32) << 8 | bytes[3] as u32));
    // through the box-type enumeration
    let bt = BoxType::from(v);
    let h = FourCC::from(bt);
    assert!(h.value == f.value);
}

#[kani::proof]
#[kani::unwind(8)]
fn fourcc_from_str_ascii_upto6() {
    // BOUNDED: ASCII strings of 0..=6 bytes
    let len: usize = kani::any();
    kani::assume(len <= 6);
    let raw: [u8; 6] = kani::any();
    kani::assume(raw[0] < 128 && raw[1] < 128 && raw[2] < 128 && raw[3] < 128 && raw[4] < 128 && raw[5] < 128);
    let s = unsafe { std::str::from_utf8_unchecked(&raw[..len]) };
    let r: Result<FourCC> = s.parse();
    if len == 4 {
        match r { Ok(f) => assert!(f.value[0] == raw[0] && f.value[1] == raw[1] && f.value[2] == raw[2] && f.value[3] == raw[3]), Err(_) => assert!(false) }
    } else {
        assert!(r.is_err());
    }
    std::mem::forget(r);
}

// ---------------------------------------------------------------- fixed point wrappers (C16)
#[kani::proof]
fn fixed_point_all_values() {
    let a: u8 = kani::any();
    assert!(FixedPointU8::new(a).value() == a);
    assert!(FixedPointU8::new(a).raw_value() == (a as u16) << 8);
    let r: u16 = kani::any();
    assert!(FixedPointU8::new_raw(r).raw_value() == r);
    assert!(FixedPointU8::new_raw(r).value() == (r >> 8) as u8);
    let b: u16 = kani::any();
    assert!(FixedPointU16::new(b).value() == b);
    assert!(FixedPointU16::new(b).raw_value() == (b as u32) << 16);
    let q: u32 = kani::any();
    assert!(FixedPointU16::new_raw(q).raw_value() == q);
    assert!(FixedPointU16::new_raw(q).value() == (q >> 16) as u16);
    let c: i8 = kani::any();
    assert!(FixedPointI8::new(c).value() == c);
    let s: i16 = kani::any();
    assert!(FixedPointI8::new_raw(s).raw_value() == s);
    // 8.8 signed: integer part, truncated toward zero
    assert!(FixedPointI8::new_raw(s).value() == (s / 256) as i8);
}

// ---------------------------------------------------------------- enumerations (C16)
fn aot_defined(v: u8) -> bool {
    // ISO/IEC 14496-3 Table 1.17: 0 null, 10, 11, 18 reserved, 31 escape
    (v >= 1 && v <= 9) || (v >= 12 && v <= 17) || (v >= 19 && v <= 30) || (v >= 32 && v <= 46)
}

#[kani::proof]
fn audio_enums_all_u8() {
    let v: u8 = kani::any();
    let r = AudioObjectType::try_from(v);
    match &r { Ok(t) => assert!(aot_defined(v) && *t as u8 == v), Err(_) => assert!(!aot_defined(v)) }
    std::mem::forget(r);
    let f = SampleFreqIndex::try_from(v);
    match &f {
        Ok(x) => {
            assert!(v <= 12 && *x as u8 == v);
            let table: [u32; 13] = [96000, 88200, 64000, 48000, 44100, 32000, 24000, 22050, 16000, 12000, 11025, 8000, 7350];
            assert!(x.freq() == table[v as usize]);
        }
        Err(_) => assert!(v > 12),
    }
    std::mem::forget(f);
    let c = ChannelConfig::try_from(v);
    match &c { Ok(x) => assert!(v >= 1 && v <= 7 && *x as u8 == v), Err(_) => assert!(v == 0 || v > 7) }
    std::mem::forget(c);
}

#[kani::proof]
fn datatype_all_u32() {
    let v: u32 = kani::any();
    let r = DataType::try_from(v);
    match &r {
        Ok(t) => assert!((v == 0 && *t == DataType::Binary) || (v == 1 && *t == DataType::Text) || (v == 13 && *t == DataType::Image) || (v == 21 && *t == DataType::TempoCpil)),
        Err(_) => assert!(v != 0 && v != 1 && v != 13 && v != 21),
    }
    std::mem::forget(r);
}

#[kani::proof]
fn avc_profile_all_pairs() {
    // ITU-T H.264 Annex A: profile_idc 66 with constraint_set1_flag (bit 6 of the compatibility byte) is Constrained Baseline
    let p: u8 = kani::any();
    let c: u8 = kani::any();
    let r = AvcProfile::try_from((p, c));
    let set1 = c & 0x40 != 0;
    match &r {
        Ok(x) => {
            let expect = if p == 66 && set1 { AvcProfile::AvcConstrainedBaseline } else if p == 66 { AvcProfile::AvcBaseline }
                         else if p == 77 { AvcProfile::AvcMain } else if p == 88 { AvcProfile::AvcExtended } else { AvcProfile::AvcHigh };
            assert!((p == 66 || p == 77 || p == 88 || p == 100) && *x == expect, "AVC profile table");
        }
        Err(_) => assert!(p != 66 && p != 77 && p != 88 && p != 100),
    }
    std::mem::forget(r);
}

#[kani::proof]
fn track_type_fourcc_all() {
    let bytes: [u8; 4] = kani::any();
    let f = FourCC::from(bytes);
    let r = TrackType::try_from(&f);
    match &r {
        Ok(TrackType::Video) => assert!(&bytes == b"vide"),
        Ok(TrackType::Audio) => assert!(&bytes == b"soun"),
        Ok(TrackType::Subtitle) => assert!(&bytes == b"sbtl"),
        Err(_) => assert!(&bytes != b"vide" && &bytes != b"soun" && &bytes != b"sbtl"),
    }
    std::mem::forget(r);
    assert!(FourCC::from(TrackType::Video).value == *b"vide");
    assert!(FourCC::from(TrackType::Audio).value == *b"soun");
    assert!(FourCC::from(TrackType::Subtitle).value == *b"sbtl");
}

// ---------------------------------------------------------------- AAC AudioSpecificConfig bits (C05, C14): 14496-3 1.6.2.1
#[kani::proof]
fn audio_object_type_all_bytes() {
    let a: u8 = kani::any();
    let b: u8 = kani::any();
    let r = crate::mp4box::mp4a::get_audio_object_type(a, b);
    // audioObjectType: 5 bits; 31 escapes to 32 + audioObjectTypeExt (the next 6 bits)
    let five = a >> 3;
    let expected = if five == 31 { 32 + (((a & 7) << 3) | (b >> 5)) } else { five };
    assert!(r == expected);
}

#[kani::proof]
fn size_of_length_all() {
    let s: u32 = kani::any();
    let r = crate::mp4box::mp4a::size_of_length(s);
    assert!(r == if s < 1 << 7 { 1 } else if s < 1 << 14 { 2 } else if s < 1 << 21 { 3 } else { 4 });
}

// ---------------------------------------------------------------- ISO 639-2/T packing (C16, C14): 14496-12 8.4.2.3
#[kani::proof]
#[kani::unwind(5)]
fn language_code_lowercase_triples() {
    let l: [u8; 3] = kani::any();
    kani::assume(l[0] >= b'a' && l[0] <= b'z' && l[1] >= b'a' && l[1] <= b'z' && l[2] >= b'a' && l[2] <= b'z');
    let s = unsafe { std::str::from_utf8_unchecked(&l) };
    let c = crate::mp4box::mdhd::language_code(s);
    assert!(c == (((l[0] - 0x60) as u16) << 10) | (((l[1] - 0x60) as u16) << 5) | ((l[2] - 0x60) as u16));
}

#[kani::proof]
#[kani::unwind(5)]
fn language_string_all_codes() {
    // THOROUGH tier (minutes): every 15-bit code decodes to the three letters 0x60 + 5-bit group, and encodes back
    let c: u16 = kani::any();
    kani::assume(c < 0x8000);
    let s = crate::mp4box::mdhd::language_string(c);
    let b = s.as_bytes();
    assert!(b.len() == 3);
    assert!(b[0] == 0x60 + ((c >> 10) & 0x1f) as u8 && b[1] == 0x60 + ((c >> 5) & 0x1f) as u8 && b[2] == 0x60 + (c & 0x1f) as u8);
    assert!(crate::mp4box::mdhd::language_code(&s) == c);
    std::mem::forget(s);
}

// ---------------------------------------------------------------- box header (C05, C12; discharges the contract Verus assumes)
fn be32(d: &[u8; 16], p: usize) -> u32 { (d[p] as u32) << 24 | (d[p + 1] as u32) << 16 | (d[p + 2] as u32) << 8 | d[p + 3] as u32 }
fn be64(d: &[u8; 16], p: usize) -> u64 { (be32(d, p) as u64) << 32 | be32(d, p + 4) as u64 }

#[kani::proof]
#[kani::unwind(18)]
fn boxheader_read_all_16_bytes() {
    let d: [u8; 16] = kani::any();
    let mut rd: &[u8] = &d[..];
    let r = BoxHeader::read(&mut rd);
    let consumed = 16 - rd.len();
    let sz = be32(&d, 0);
    let ty = be32(&d, 4);
    match &r {
        Ok(h) => {
            assert!(u32::from(h.name) == ty);
            if sz == 1 {
                let large = be64(&d, 8);
                assert!(consumed == 16);
                assert!(large == 0 || large >= 16);
                assert!(h.size == if large == 0 { 0 } else { large - 8 });
            } else {
                assert!(consumed == 8 && h.size == sz as u64);
            }
        }
        Err(_) => { assert!(sz == 1 && be64(&d, 8) >= 1 && be64(&d, 8) <= 15); }
    }
    std::mem::forget(r);
}

/// a reader that hands out at most one byte per call (a legal short read)
struct OneByte<'a> { d: &'a [u8], p: usize }
impl<'a> std::io::Read for OneByte<'a> {
    fn read(&mut self, buf: &mut [u8]) -> std::io::Result<usize> {
        if buf.is_empty() || self.p >= self.d.len() { return Ok(0); }
        buf[0] = self.d[self.p];
        self.p += 1;
        Ok(1)
    }
}

#[kani::proof]
#[kani::unwind(18)]
fn boxheader_read_short_reads_transparent() {
    // C10 / C11: the same header through a reader that transfers one byte per call
    let d: [u8; 16] = kani::any();
    let mut full: &[u8] = &d[..];
    let a = BoxHeader::read(&mut full);
    let mut one = OneByte { d: &d[..], p: 0 };
    let b = BoxHeader::read(&mut one);
    match (&a, &b) {
        (Ok(x), Ok(y)) => assert!(x.size == y.size && u32::from(x.name) == u32::from(y.name) && one.p == 16 - full.len()),
        (Err(_), Err(_)) => {}
        _ => assert!(false),
    }
    std::mem::forget(a);
    std::mem::forget(b);
}

#[kani::proof]
#[kani::unwind(10)]
fn boxheader_read_truncated_is_error() {
    // C11: fewer than 8 bytes never yield a header
    let d: [u8; 7] = kani::any();
    let n: usize = kani::any();
    kani::assume(n <= 7);
    let mut rd: &[u8] = &d[..n];
    let r = BoxHeader::read(&mut rd);
    assert!(r.is_err());
    std::mem::forget(r);
}

// ---------------------------------------------------------------- stco <- co64 narrowing (C13; discharges the contract Verus assumes, BOUNDED)
#[kani::proof]
#[kani::unwind(6)]
fn stco_try_from_upto3() {
    let n: usize = kani::any();
    kani::assume(n <= 3);
    let vals: [u64; 3] = kani::any();
    let mut c = Co64Box::default();
    let mut i = 0;
    while i < n { c.entries.push(vals[i]); i += 1; }
    let fits = (n < 1 || vals[0] <= u32::MAX as u64) && (n < 2 || vals[1] <= u32::MAX as u64) && (n < 3 || vals[2] <= u32::MAX as u64);
    let r = StcoBox::try_from(&c);
    match &r {
        Ok(s) => {
            assert!(fits && s.entries.len() == n && s.version == 0 && s.flags == 0);
            let mut j = 0;
            while j < n { assert!(s.entries[j] as u64 == vals[j]); j += 1; }
        }
        Err(_) => assert!(!fits),
    }
    std::mem::forget(r);
    std::mem::forget(c);
}

// ---------------------------------------------------------------- metadata year item (C18), binary form
// (a harness for the text form -- from_utf8_lossy + str::parse under CBMC -- did not finish within 10 minutes even for two
//  bytes; `parse::<u32>` therefore stays an assumed std contract, see prelude/20_outline.rs)
#[kani::proof]
#[kani::unwind(8)]
fn item_to_u32_binary_all() {
    let len: usize = kani::any();
    kani::assume(len <= 6);
    let raw: [u8; 6] = kani::any();
    let item = crate::mp4box::ilst::IlstItemBox { data: crate::mp4box::data::DataBox { data: raw[..len].to_vec(), data_type: DataType::Binary } };
    let got = crate::mp4box::ilst::item_to_u32(&item);
    if len == 4 {
        assert!(got == Some(u32::from_be_bytes([raw[0], raw[1], raw[2], raw[3]])));
    } else {
        assert!(got.is_none());
    }
}

// ---------------------------------------------------------------- decode(encode(x)) == x on the compiled code (C04, C05)
// Every field of the value is symbolic (subject to the box's wire predicate: 24-bit flags); the only loops are byte copies of constant length, closed by the unwinding
// assertions: complete proofs. A failure comes with a concrete value that `cargo kani playback` replays on the real code.
/// fixed-capacity sink: no allocation on the encode side
pub struct ArrW<const N: usize> { pub d: [u8; N], pub p: usize }
impl<const N: usize> Write for ArrW<N> {
    fn write(&mut self, buf: &[u8]) -> std::io::Result<usize> {
        let n = buf.len();
        if self.p + n > N { return Err(std::io::Error::from(std::io::ErrorKind::WriteZero)); }
        let mut i = 0;
        while i < n { self.d[self.p + i] = buf[i]; i += 1; }
        self.p += n;
        Ok(n)
    }
    fn flush(&mut self) -> std::io::Result<()> { Ok(()) }
}

#[kani::proof]
#[kani::unwind(10)]
fn roundtrip_smhd() {
    let b = smhd::SmhdBox { version: kani::any(), flags: kani::any::<u32>() & 0xff_ffff, balance: FixedPointI8::new_raw(kani::any()) };
    let mut w = ArrW::<16> { d: [0; 16], p: 0 };
    let n = b.write_box(&mut w);
    assert!(n.is_ok() && w.p == 16);
    let mut rd = Cursor::new(&w.d[..]);
    let h = BoxHeader::read(&mut rd).unwrap();
    assert!(h.name == BoxType::SmhdBox && h.size == 16);
    let r = smhd::SmhdBox::read_box(&mut rd, h.size);
    match &r { Ok(x) => assert!(*x == b), Err(_) => assert!(false) }
    std::mem::forget(r); std::mem::forget(n);
}

fn f24() -> u32 { kani::any::<u32>() & 0xff_ffff }

macro_rules! roundtrip {
    ($name:ident, $ty:path, $bt:path, $cap:expr, $mk:expr) => {
        #[kani::proof]
        #[kani::unwind(18)]
        fn $name() {
            let b: $ty = $mk;
            let mut w = ArrW::<$cap> { d: [0; $cap], p: 0 };
            let n = b.write_box(&mut w);
            match &n { Ok(k) => assert!(*k as usize == w.p && *k == b.box_size()), Err(_) => assert!(false) }
            let len = w.p;
            let mut rd = Cursor::new(&w.d[..len]);
            let h = BoxHeader::read(&mut rd).unwrap();
            assert!(h.name == $bt && h.size == len as u64);
            let r = <$ty>::read_box(&mut rd, h.size);
            match &r { Ok(x) => { assert!(*x == b); assert!(rd.position() == len as u64); } Err(_) => assert!(false) }
            std::mem::forget(r); std::mem::forget(n);
        }
    };
}

roundtrip!(roundtrip_mfhd, mfhd::MfhdBox, BoxType::MfhdBox, 16, mfhd::MfhdBox { version: kani::any(), flags: f24(), sequence_number: kani::any() });
roundtrip!(roundtrip_trex, trex::TrexBox, BoxType::TrexBox, 32, trex::TrexBox { version: kani::any(), flags: f24(), track_id: kani::any(), default_sample_description_index: kani::any(),
    default_sample_duration: kani::any(), default_sample_size: kani::any(), default_sample_flags: kani::any() });
roundtrip!(roundtrip_vmhd, vmhd::VmhdBox, BoxType::VmhdBox, 20, vmhd::VmhdBox { version: kani::any(), flags: f24(), graphics_mode: kani::any(),
    op_color: vmhd::RgbColor { red: kani::any(), green: kani::any(), blue: kani::any() } });

// ---------------------------------------------------------------- media kind / track kind names (C16): string-keyed mappings, which Verus does
// not reason about; every variant against an independent table, both directions (complete over the enumerations)
#[kani::proof]
#[kani::unwind(8)]
fn media_and_track_type_names() {
    use std::convert::TryFrom;
    // independent table (names as the crate documents them)
    let table: [(MediaType, &str); 5] = [(MediaType::H264, "h264"), (MediaType::H265, "h265"), (MediaType::VP9, "vp9"), (MediaType::AAC, "aac"), (MediaType::TTXT, "ttxt")];
    let i: usize = kani::any();
    kani::assume(i < 5);
    let (t, name) = table[i];
    let s: &str = t.into();
    assert!(s == name);
    let s2: &str = (&t).into();
    assert!(s2 == name);
    match MediaType::try_from(name) { Ok(x) => assert!(x == t), Err(_) => assert!(false) }
    assert!(MediaType::try_from("h266").is_err());
    let tt: [(TrackType, &str); 3] = [(TrackType::Video, "vide"), (TrackType::Audio, "soun"), (TrackType::Subtitle, "sbtl")];
    let j: usize = kani::any();
    kani::assume(j < 3);
    match TrackType::try_from(tt[j].1) { Ok(x) => assert!(x == tt[j].0), Err(_) => assert!(false) }
    assert!(TrackType::try_from("text").is_err());
}
